"""Tier-B (bounded) run-time contracts for C18 (Gymnasium environments) and C20 (Gantt
charts and animations); the environment part of C09."""
from __future__ import annotations

import os
import random
import tempfile

import numpy as np

from .common import Model, Result, build_instance, random_instance

from job_shop_lib.dispatching import DispatcherObserverConfig, filter_dominated_operations  # noqa: E402
from job_shop_lib.dispatching.feature_observers import FeatureObserverType, FeatureType  # noqa: E402
from job_shop_lib.graphs import (build_agent_task_graph, build_agent_task_graph_with_jobs,  # noqa: E402
                                 build_complete_agent_task_graph, build_disjunctive_graph)
from job_shop_lib.graphs.graph_updaters import ResidualGraphUpdater  # noqa: E402
from job_shop_lib.reinforcement_learning import (SingleJobShopGraphEnv, MultiJobShopGraphEnv,  # noqa: E402
                                                 MakespanReward, IdleTimeReward)

BUILDERS = [build_disjunctive_graph, build_agent_task_graph, build_agent_task_graph_with_jobs,
            build_complete_agent_task_graph]

FEATURE_SETS = [
    [DispatcherObserverConfig(FeatureObserverType.IS_READY, kwargs={"feature_types": [FeatureType.JOBS]})],
    [DispatcherObserverConfig(FeatureObserverType.DURATION, kwargs={}),
     DispatcherObserverConfig(FeatureObserverType.IS_SCHEDULED, kwargs={})],
    [DispatcherObserverConfig(FeatureObserverType.IS_READY, kwargs={}),
     DispatcherObserverConfig(FeatureObserverType.EARLIEST_START_TIME, kwargs={}),
     DispatcherObserverConfig(FeatureObserverType.POSITION_IN_JOB, kwargs={}),
     DispatcherObserverConfig(FeatureObserverType.REMAINING_OPERATIONS, kwargs={}),
     DispatcherObserverConfig(FeatureObserverType.IS_COMPLETED, kwargs={})],
]


def obs_problems(env, obs, inner=None, padded_multi=False):
    """observation belongs to the declared space, mirrors the graph, padding at the end"""
    probs = []
    space = env.observation_space
    inner = inner or env
    graph = inner.job_shop_graph
    if set(obs) != set(space.spaces):
        return [f"observation keys {sorted(obs)} != space keys {sorted(space.spaces)}"]
    for k, sp in space.spaces.items():
        v = obs[k]
        if not isinstance(v, np.ndarray):
            probs.append(f"{k}: not an array")
            continue
        if tuple(v.shape) != tuple(sp.shape):
            probs.append(f"{k}: shape {v.shape}, declared {sp.shape}")
        elif not sp.contains(v):
            probs.append(f"{k}: value not in the declared space {sp} (dtype {v.dtype})")
    if probs:
        return probs
    rn = np.array(graph.removed_nodes, dtype=bool)
    got = obs["removed_nodes"]
    if not np.array_equal(got[: len(rn)].astype(bool), rn):
        probs.append("removed_nodes differs from the graph")
    if len(got) > len(rn) and not np.all(got[len(rn):].astype(bool)):
        probs.append("removed_nodes padding is not True at the end")
    edges = np.array(list(graph.graph.edges()), dtype=np.int64).reshape(-1, 2).T
    ei = obs["edge_index"]
    ne = edges.shape[1]
    if ei.shape[1] < ne or not np.array_equal(ei[:, :ne], edges):
        probs.append(f"edge_index differs from the graph's edge list ({ne} edges)")
    elif not np.all(ei[:, ne:] == -1):
        probs.append("edge_index padding is not -1 at the end")
    comp = inner.composite_observer.features
    for ft, mat in comp.items():
        o = obs[ft.value]
        r, c = mat.shape
        if not np.array_equal(o[:r, :c], mat, equal_nan=True):
            probs.append(f"{ft.value}: features differ from the composite observer")
        elif o.shape != mat.shape and not (np.all(o[r:, :] == -1) and np.all(o[:, c:] == -1)):
            probs.append(f"{ft.value}: padding is not -1 at the end")
    return probs


def legal_actions(jobs, model):
    out = []
    for j, job in enumerate(jobs):
        if model.k[j] < len(job):
            ms = job[model.k[j]][0]
            for m in ms:
                out.append((j, m))
            if len(ms) == 1:
                out.append((j, -1))
    return out


def run_C18(tier, seed):
    res = Result("C18")
    rng = random.Random(seed)
    n_inst = 14 if tier == "quick" else 90
    res.bound = {"single_env": "%d random instances <=3 jobs x <=3 ops x <=3 machines (positive durations, a third flexible) x "
                               "random builder/features/padding/updater options, 2 episodes each (seed %d)" % (n_inst, seed),
                 "multi_env": "%d generator configurations x 3 episodes" % (4 if tier == "quick" else 16)}
    for _ in range(n_inst):
        jobs = random_instance(rng, 3, 3, 3, positive=True, flexible=rng.random() < 0.33)
        flexible = any(len(ms) > 1 for job in jobs for ms, _ in job)
        builder = rng.choice(BUILDERS)
        feats = rng.choice(FEATURE_SETS)
        use_padding = True
        rm, rj = rng.random() < 0.7, rng.random() < 0.7
        reward = rng.choice([MakespanReward, IdleTimeReward])
        inst = build_instance(jobs)
        cfg = dict(builder=builder.__name__, features=[str(c.class_type) for c in feats], rm=rm, rj=rj,
                   reward=reward.__name__)
        try:
            env = SingleJobShopGraphEnv(
                job_shop_graph=builder(inst), feature_observer_configs=feats,
                reward_function_config=DispatcherObserverConfig(reward),
                graph_updater_config=DispatcherObserverConfig(
                    ResidualGraphUpdater, kwargs={"remove_completed_machine_nodes": rm,
                                                  "remove_completed_job_nodes": rj}),
                ready_operations_filter=filter_dominated_operations if rng.random() < 0.5 else None,
                use_padding=use_padding)
        except Exception as e:  # noqa: BLE001
            res.breach("env-constructible", f"{type(e).__name__}: {str(e)[:150]}", jobs=jobs, config=cfg)
            continue
        first_trace = None
        for episode in range(2):
            obs, info = env.reset()
            model = Model(jobs)
            trace = []
            res.count("observation-in-space-and-mirrors-graph")
            res.case((str(jobs), str(cfg), episode, 0))
            p = obs_problems(env, obs)
            if p:
                res.breach("observation-in-space-and-mirrors-graph", f"reset of episode {episode}: {p[0]}", jobs=jobs,
                           config=cfg, history=[])
            actions_rng = random.Random(seed + 17)
            while True:
                legal = legal_actions(jobs, model)
                res.count("legal-actions-in-action-space")
                for a in legal:
                    if not env.action_space.contains(np.array(a)):
                        res.breach("legal-actions-in-action-space", f"legal decision (job {a[0]}, machine {a[1]}) is not in "
                                   f"{env.action_space} (instance has {inst.num_machines} machines)", jobs=jobs, config=cfg,
                                   history=model.history, action=a)
                        break
                if not legal:
                    break
                avail = {(o.job_id) for o in env.dispatcher.available_operations()}
                cand = [a for a in legal if a[0] in avail] or legal
                a = actions_rng.choice(cand)
                obs, reward_v, done, truncated, info = env.step(a)
                m = a[1] if a[1] != -1 else jobs[a[0]][model.k[a[0]]][0][0]
                model.apply(a[0], m)
                res.count("observation-in-space-and-mirrors-graph")
                res.case((str(jobs), str(cfg), episode, len(model.history)))
                p = obs_problems(env, obs)
                if p:
                    res.breach("observation-in-space-and-mirrors-graph", f"step {len(model.history)} of episode {episode}: "
                               f"{p[0]}", jobs=jobs, config=cfg, history=model.history)
                if done != (model.n == model.N) or truncated is not False:
                    res.breach("done-iff-complete-never-truncated", f"done={done}, truncated={truncated} after {model.n}/"
                               f"{model.N}", jobs=jobs, config=cfg, history=model.history)
                if reward_v != env.reward_function.rewards[-1] or len(env.reward_function.rewards) != model.n:
                    res.breach("step-reward-is-the-reward-of-this-step", f"{reward_v} vs {env.reward_function.rewards}",
                               jobs=jobs, config=cfg, history=model.history)
                trace.append((a, float(reward_v), bool(done), obs["removed_nodes"].tolist(),
                              {k: np.nan_to_num(v, nan=-7.0).tolist() for k, v in obs.items() if k not in ("removed_nodes",)}))
            # C09 (environment part): a step for a finished job raises and changes nothing
            finished = [j for j in range(len(jobs)) if model.k[j] == len(jobs[j])]
            if finished:
                res.count("step-for-finished-job-rejected")
                before = (env.dispatcher.schedule.num_scheduled_operations, list(env.reward_function.rewards),
                          list(env.job_shop_graph.removed_nodes), env.get_observation()["edge_index"].tolist())
                try:
                    env.step((finished[0], -1))
                    res.breach("step-for-finished-job-rejected", "accepted", jobs=jobs, config=cfg, history=model.history)
                except Exception:  # noqa: BLE001
                    pass
                after = (env.dispatcher.schedule.num_scheduled_operations, list(env.reward_function.rewards),
                         list(env.job_shop_graph.removed_nodes), env.get_observation()["edge_index"].tolist())
                if before != after:
                    res.breach("step-for-finished-job-rejected", "state changed", jobs=jobs, config=cfg, history=model.history)
            if first_trace is None:
                first_trace = trace
            else:
                res.count("every-episode-like-the-first")
                if trace != first_trace:
                    k = next(i for i, (x, y) in enumerate(zip(trace, first_trace)) if x != y) if len(trace) == len(
                        first_trace) else -1
                    res.breach("every-episode-like-the-first", f"episode 2 differs from episode 1 at step {k} with the same "
                               "actions", jobs=jobs, config=cfg)
        res.sample({"jobs": jobs, "config": cfg})
    # ----------------------------------------------------------------- multi env
    from job_shop_lib.generation import GeneralInstanceGenerator
    for _ in range(4 if tier == "quick" else 16):
        jr = (rng.randint(2, 3), rng.randint(3, 4))
        mr = (rng.randint(2, 2), rng.randint(2, 3))
        rm, rj = rng.random() < 0.5, rng.random() < 0.5
        builder = rng.choice(BUILDERS[1:])
        feats = rng.choice(FEATURE_SETS)
        cfg = dict(num_jobs=jr, num_machines=mr, builder=builder.__name__, rm=rm, rj=rj)
        gen = GeneralInstanceGenerator(num_jobs=jr, num_machines=mr, duration_range=(1, 5), seed=rng.randint(0, 999))
        try:
            env = MultiJobShopGraphEnv(
                instance_generator=gen, feature_observer_configs=feats, graph_initializer=builder,
                graph_updater_config=DispatcherObserverConfig(
                    ResidualGraphUpdater, kwargs={"remove_completed_machine_nodes": rm,
                                                  "remove_completed_job_nodes": rj}))
        except Exception as e:  # noqa: BLE001
            res.breach("env-constructible", f"multi: {type(e).__name__}: {str(e)[:150]}", config=cfg)
            continue
        for episode in range(3):
            obs, info = env.reset()
            inner = env.single_job_shop_graph_env
            inst = env.instance
            res.count("multi-env-episode-keeps-configuration")
            res.case((str(cfg), episode))
            J, M = inst.num_jobs, len(inst.jobs[0])
            if not (jr[0] <= J <= jr[1] and mr[0] <= M <= mr[1]):
                res.breach("multi-env-instances-inside-generator-ranges", f"{J} jobs, {M} machines", config=cfg)
            gu = inner.graph_updater
            if (gu.remove_completed_machine_nodes, gu.remove_completed_job_nodes) != (rm, rj):
                res.breach("multi-env-episode-keeps-configuration", f"episode {episode}: graph updater options "
                           f"{(gu.remove_completed_machine_nodes, gu.remove_completed_job_nodes)}, constructed with "
                           f"{(rm, rj)}", config=cfg, episode=episode)
            jobs = [[(tuple(o.machines), o.duration) for o in job] for job in inst.jobs]
            model = Model(jobs)
            p = obs_problems(env, obs, inner=inner)
            if p:
                res.breach("multi-observation-in-space-and-mirrors-graph", f"reset: {p[0]}", config=cfg, jobs=jobs)
            while model.legal():
                legal = legal_actions(jobs, model)
                for a in legal:
                    if not env.action_space.contains(np.array(a)):
                        res.breach("legal-actions-in-action-space", f"multi: legal decision {a} not in {env.action_space}",
                                   config=cfg, jobs=jobs, action=a)
                        break
                avail = {(o.job_id) for o in env.dispatcher.available_operations()}
                a = rng.choice([x for x in legal if x[0] in avail and x[1] != -1] or legal)
                obs, r, done, trunc, info = env.step(a)
                model.apply(a[0], a[1] if a[1] != -1 else jobs[a[0]][model.k[a[0]]][0][0])
                res.count("multi-observation-in-space-and-mirrors-graph")
                p = obs_problems(env, obs, inner=inner)
                if p:
                    res.breach("multi-observation-in-space-and-mirrors-graph", f"step {model.n}: {p[0]}", config=cfg,
                               jobs=jobs, history=model.history)
                    break
                if done != (model.n == model.N) or trunc is not False:
                    res.breach("done-iff-complete-never-truncated", f"multi: done={done}", config=cfg, jobs=jobs)
    return res


# --------------------------------------------------------------------------- C20
def run_C20(tier, seed):
    import matplotlib
    matplotlib.use("Agg")
    import matplotlib.pyplot as plt
    from matplotlib.colors import to_rgba
    from job_shop_lib.dispatching import Dispatcher, HistoryObserver
    from job_shop_lib.visualization import plot_gantt_chart
    from job_shop_lib.visualization import _gantt_chart_video_and_gif_creation as gg
    from .common import random_history, replay
    res = Result("C20")
    rng = random.Random(seed)
    n_inst = 10 if tier == "quick" else 60
    lengths = [3, 12, 101, 120] if tier == "quick" else [1, 2, 9, 10, 11, 99, 100, 101, 120, 250]
    res.bound = {"charts": "2 fixed schedules with flexible operations on a later alternative + %d random schedules (<=4 jobs x "
                           "<=4 ops x <=3 machines, two thirds flexible, complete and partial, with and without "
                           "xlim), artists of the returned Axes inspected (seed %d)" % (n_inst, seed),
                 "frames": "histories of length %s: frame files written by the real create_gantt_chart_frames with a "
                           "recording plot function, loaded by the real _load_images" % lengths}
    # (two fixed charts first: flexible operations scheduled on an alternative that is NOT the first one they list)
    fixed = [([[((0, 1), 2), ((1,), 1)], [((2, 0), 3), ((1, 2), 2)]], [(0, 1), (1, 0), (0, 1), (1, 2)]),
             ([[((1, 0), 3)], [((0,), 2), ((2, 1, 0), 4)]], [(1, 0), (0, 0), (1, 1)])]
    for case in range(n_inst + len(fixed)):
        if case < len(fixed):
            from .common import Model
            jobs, hist = fixed[case]
            model = Model(jobs)
            for mv in hist:
                model.apply(*mv)
        else:
            jobs = random_instance(rng, 4, 4, 3, durations=(1, 2, 3, 7), flexible=(case % 3 != 0))
            model = random_history(jobs, rng, length=rng.choice([None, None, 1, 3]))
        inst = build_instance(jobs)
        d = Dispatcher(inst)
        replay(d, inst, model.history)
        # no limit, a limit beyond the makespan, and a requested limit BELOW the makespan (the axis must end there)
        xlim = rng.choice([None, None, model.makespan() + rng.randint(1, 30), max(1, model.makespan() // 2),
                           max(1, model.makespan() - 1)])
        res.count("gantt-chart-shows-schedule")
        res.case((str(jobs), tuple(model.history), xlim))
        try:
            fig, ax = plot_gantt_chart(d.schedule, xlim=xlim)
        except Exception as e:  # noqa: BLE001
            res.breach("gantt-chart-shows-schedule", f"plot raised {type(e).__name__}: {str(e)[:120]}", jobs=jobs,
                       history=model.history)
            continue
        bars = []
        for coll in ax.collections:
            for path in coll.get_paths():
                v = path.vertices
                x0, x1 = v[:, 0].min(), v[:, 0].max()
                y0, y1 = v[:, 1].min(), v[:, 1].max()
                bars.append((float(x0), float(x1), float(y0), float(y1), tuple(np.round(coll.get_facecolor()[0], 4))))
        want = []
        handles = {h.get_label(): tuple(np.round(to_rgba(h.get_facecolor()), 4)) for h in ax.get_legend().legend_handles} \
            if ax.get_legend() else {}
        for m, lst in enumerate(model.sched):
            for (j, p, s, e) in lst:
                want.append((float(s), float(e), float(1 + 10 * m), float(1 + 10 * m + 9), handles.get(f"Job {j}")))
        probs = []
        if sorted(bars, key=str) != sorted(want, key=str):
            probs.append(f"bars {sorted(bars, key=str)[:3]}... != scheduled operations {sorted(want, key=str)[:3]}...")
        colours = {}
        for (j, p, s, e), b in zip([x for lst in model.sched for x in lst], want):
            colours.setdefault(j, set()).add(b[4])
        if any(len(c) != 1 or None in c for c in colours.values()):
            probs.append("a job is not coloured consistently with the legend")
        if len(set(handles.values())) != len(handles):
            probs.append("two jobs share a legend colour")
        end = xlim if xlim is not None else model.makespan()
        if ax.get_xlim() != (0.0, float(end)) and not (end == 0):
            probs.append(f"time axis ends at {ax.get_xlim()[1]}, expected {end}")
        ticks = list(ax.get_xticks())
        if end > 0 and (not ticks or ticks[-1] != end):
            probs.append(f"last tick {ticks[-1] if ticks else None} != {end}")
        plt.close(fig)
        if probs:
            res.breach("gantt-chart-shows-schedule", probs[0], jobs=jobs, history=model.history, xlim=xlim)
        res.sample({"jobs": jobs, "bars": len(bars)})
    # ------------------------------------------------------------- frames of an animation
    for n in lengths:
        res.count("frame-k-shows-first-k-operations")
        res.case(("frames", n))
        # an instance with exactly n operations: one job per machine pair, chains of length n // jobs
        nj = 3 if n >= 3 else 1
        per = [n // nj + (1 if i < n % nj else 0) for i in range(nj)]
        jobs = [[((rng.randrange(2),), rng.choice((1, 2))) for _ in range(L)] for L in per if L > 0]
        inst = build_instance(jobs)
        d = Dispatcher(inst)
        hist = HistoryObserver(d)
        model = random_history(jobs, rng)
        replay(d, inst, model.history)
        history = list(hist.history)
        seen = []

        def plot_function(schedule, makespan, available_operations, current_time):
            k = sum(len(lst) for lst in schedule.schedule)
            content = [[(so.operation.job_id, so.operation.position_in_job, so.start_time, so.machine_id) for so in lst]
                       for lst in schedule.schedule]
            seen.append((k, content))
            fig = plt.figure(figsize=(0.4, 0.2), dpi=50)
            fig.text(0.05, 0.3, str(k), fontsize=6)
            return fig
        with tempfile.TemporaryDirectory() as td:
            gg.create_gantt_chart_frames(td, inst, None, plot_function, plot_current_time=False,
                                         schedule_history=history)
            ok_states = True
            for idx, (k, content) in enumerate(seen, start=1):
                m2 = Model(jobs)
                for (j, m) in model.history[:idx]:
                    m2.apply(j, m)
                want = [[(j, p, s, mm) for (j, p, s, e) in lst] for mm, lst in enumerate(m2.sched)]
                if k != idx or content != want:
                    ok_states = False
                    res.breach("frame-k-shows-first-k-operations", f"frame {idx} of {n} was drawn from a schedule with {k} "
                               "operations / different content", frames=n, frame=idx)
                    break
            files_numeric = [os.path.join(td, f"frame_{i:02d}.png") for i in range(1, n + 1)]
            if not all(os.path.exists(f) for f in files_numeric):
                files_numeric = None
            loaded = gg._load_images(td)
            if len(loaded) != n:
                res.breach("frames-loaded-in-history-order", f"{len(loaded)} images for {n} frames", frames=n)
            elif files_numeric is not None:
                import imageio
                for i, f in enumerate(files_numeric):
                    if not np.array_equal(np.asarray(imageio.imread(f)), np.asarray(loaded[i])):
                        res.breach("frames-loaded-in-history-order", f"history of {n} operations: the image at position "
                                   f"{i + 1} of the animation is not frame {i + 1}", frames=n, position=i + 1)
                        break
            else:
                names = sorted(os.listdir(td))
                res.notes.append(f"frame naming is not frame_%02d.png ({names[:2]}); order checked by the sparse test below")
    # frames of very long histories: the real _save_frame / _load_images on a sparse set of frame numbers (the order in
    # which _load_images returns them must be the numeric order whatever the naming scheme)
    numbers = [1, 2, 9, 10, 11, 99, 100, 101, 999, 1000, 1001, 9999, 10000, 10001, 123456]
    res.count("frames-loaded-in-history-order")
    res.case(("sparse-frames", tuple(numbers)))
    with tempfile.TemporaryDirectory() as td:
        import imageio
        pics = {}
        for k in numbers:
            fig = plt.figure(figsize=(0.6, 0.2), dpi=50)
            fig.text(0.02, 0.3, str(k), fontsize=6)
            before = set(os.listdir(td))
            gg._save_frame(fig, td, k)
            new = set(os.listdir(td)) - before
            if len(new) != 1:
                res.breach("frames-loaded-in-history-order", f"_save_frame({k}) wrote {sorted(new)}", frame=k)
                break
            pics[k] = np.asarray(imageio.imread(os.path.join(td, new.pop())))
        else:
            loaded = gg._load_images(td)
            for pos, k in enumerate(numbers):
                if pos >= len(loaded) or not np.array_equal(np.asarray(loaded[pos]), pics[k]):
                    res.breach("frames-loaded-in-history-order", f"with frames {numbers} on disk the image at position "
                               f"{pos + 1} is not frame {k}: frames of a history of more than {numbers[max(pos - 1, 0)]} "
                               "operations come out of order", frames=numbers, position=pos + 1)
                    break
    return res
