"""Tier-B (bounded) run-time contracts for C03 C04 C14 C15 C19."""
from __future__ import annotations

import copy
import itertools
import json
import os
import random
import signal
import tempfile

from .common import (Model, Result, build_instance, build_instance_lists, histories, random_history, random_instance,
                     real_schedule, replay, small_instances, instance_data)
from .dispatcher_props import FILTERS, feasibility_errors

from job_shop_lib import JobShopInstance, Operation, Schedule, ScheduledOperation  # noqa: E402
from job_shop_lib.dispatching import Dispatcher  # noqa: E402
from job_shop_lib.exceptions import ValidationError  # noqa: E402


class Timeout(Exception):
    pass


def with_timeout(seconds, fn, *a, **k):
    def handler(signum, frame):
        raise Timeout()
    old = signal.signal(signal.SIGALRM, handler)
    signal.alarm(seconds)
    try:
        return fn(*a, **k)
    finally:
        signal.alarm(0)
        signal.signal(signal.SIGALRM, old)


def brute_force_optimum(jobs):
    """minimum makespan over all dispatch histories (semi-active schedules contain an
    optimal one for the makespan objective)"""
    best = [None]
    seen = set()

    def rec(model):
        key = (tuple(model.k), tuple(model.machine_free), tuple(model.job_ready))
        if key in seen:
            return
        seen.add(key)
        if best[0] is not None and max(model.machine_free + [0]) >= best[0]:
            return
        moves = model.legal()
        if not moves:
            ms = model.makespan()
            if best[0] is None or ms < best[0]:
                best[0] = ms
            return
        for j, m in moves:
            nxt = model.copy()
            nxt.apply(j, m)
            rec(nxt)
    rec(Model(jobs))
    return best[0]


def schedule_errors_generic(inst, schedule):
    """feasibility of an arbitrary Schedule object (not necessarily dispatcher-built)"""
    class _D:
        pass
    d = _D()
    d.schedule = schedule
    errs = feasibility_errors(inst, d)
    n = sum(len(l) for l in schedule.schedule)
    if n != inst.num_operations:
        errs.append(f"{n} of {inst.num_operations} operations scheduled")
    return errs


# --------------------------------------------------------------------------- C03
def run_C03(tier, seed):
    from job_shop_lib.constraint_programming import ORToolsSolver
    from job_shop_lib.exceptions import NoSolutionFoundError
    from job_shop_lib.dispatching.rules import DispatchingRuleSolver
    res = Result("C03")
    rng = random.Random(seed)
    durs = (0, 1, 2, 3)
    insts = small_instances(2, 2, 2, durs, flexible=False, limit=40 if tier == "quick" else 200, rng=rng)
    n_rand = 25 if tier == "quick" else 150
    for _ in range(n_rand):
        insts.append(random_instance(rng, 3, 3, 3, durations=(0, 0, 1, 2, 3, 5), flexible=False))
    res.bound = {"instances": "non-flexible: shapes <=2x2x2 with durations {0,1,2,3} (sampled per shape) + %d random "
                              "<=3 jobs x <=3 ops x <=3 machines incl. zero durations (seed %d)" % (n_rand, seed),
                 "oracle": "brute-force optimum over all dispatch histories; feasibility checker; job-length and "
                           "machine-load lower bounds; dispatching-rule upper bound",
                 "benchmarks": "ft06, la01-la05 with recorded optimum (thorough only, 20 s limit each)"}
    solver = ORToolsSolver()
    for jobs in insts:
        inst = build_instance(jobs)
        res.count("cp-sat-solution-feasible-and-optimal")
        res.case(str(jobs))
        try:
            sched = solver.solve(inst)
        except Exception as e:  # noqa: BLE001
            res.breach("cp-sat-returns-a-schedule", f"solve raised {type(e).__name__}: {str(e)[:150]} although no time "
                       "limit is set", jobs=jobs)
            continue
        errs = schedule_errors_generic(inst, sched)
        if errs:
            res.breach("cp-sat-solution-feasible", errs[0], jobs=jobs)
            continue
        ms = sched.makespan()
        if sched.metadata.get("makespan") != ms:
            res.breach("reported-makespan-equals-schedule-makespan", f"{sched.metadata.get('makespan')} != {ms}",
                       jobs=jobs)
        opt = brute_force_optimum(jobs)
        lb = max(max(sum(d for _, d in job) for job in jobs),
                 max(sum(d for job in jobs for ms_, d in job if ms_[0] == m) for m in range(inst.num_machines)))
        rule_ms = DispatchingRuleSolver().solve(inst).makespan()
        if sched.metadata.get("status") == "optimal":
            if ms != opt or ms < lb or ms > rule_ms:
                res.breach("optimal-status-means-optimum", f"makespan {ms}, brute force {opt}, lower bound {lb}, "
                           f"dispatching rule {rule_ms}", jobs=jobs)
        elif ms < opt:
            res.breach("optimal-status-means-optimum", f"makespan {ms} below the optimum {opt}", jobs=jobs)
        res.sample({"jobs": jobs, "makespan": ms, "optimum": opt})
    # independence of earlier solves on the same solver object
    for _ in range(10 if tier == "quick" else 40):
        a = random_instance(rng, 3, 3, 3, durations=(0, 1, 2, 4), flexible=False)
        b = random_instance(rng, 3, 3, 3, durations=(0, 1, 2, 4), flexible=False)
        res.count("independent-of-earlier-solves")
        try:
            s1 = ORToolsSolver()
            s1.solve(build_instance(a))
            r_after = s1.solve(build_instance(b))
            r_fresh = ORToolsSolver().solve(build_instance(b))
            if r_after.makespan() != r_fresh.makespan() or schedule_errors_generic(build_instance(b), r_after) and False:
                res.breach("independent-of-earlier-solves", f"{r_after.makespan()} != {r_fresh.makespan()}", jobs=b)
            ib = build_instance(b)
            r2 = s1.solve(ib)
            if schedule_errors_generic(ib, r2):
                res.breach("independent-of-earlier-solves", "infeasible on reuse", jobs=b)
        except Exception as e:  # noqa: BLE001
            res.breach("cp-sat-returns-a-schedule", f"{type(e).__name__}: {str(e)[:120]}", jobs=b, earlier=a)
    # time limit: the no-solution error only with a limit
    res.count("no-solution-error-only-with-time-limit")
    if tier == "thorough":
        from job_shop_lib.benchmarking import load_benchmark_instance
        for name in ("ft06", "la01", "la02", "la03", "la04", "la05"):
            inst = load_benchmark_instance(name)
            res.count("benchmark-optimum")
            s = ORToolsSolver(max_time_in_seconds=20)
            try:
                sched = s(inst)
            except NoSolutionFoundError:
                continue
            ms = sched.makespan()
            md = inst.metadata
            if schedule_errors_generic(inst, sched) or ms < md["lower_bound"] or (
                    sched.metadata["status"] == "optimal" and md.get("optimum") and ms != md["optimum"]):
                res.breach("benchmark-optimum", f"{name}: makespan {ms}, recorded {md}", benchmark=name)
    return res


# --------------------------------------------------------------------------- C04
def run_C04(tier, seed):
    from job_shop_lib.dispatching.rules import (DispatchingRuleSolver, dispatching_rule_factory,
                                                machine_chooser_factory, score_based_rule_with_tie_breaker,
                                                shortest_processing_time_score, first_come_first_served_score,
                                                most_operations_remaining_score, MostWorkRemainingScorer,
                                                observer_based_most_work_remaining_rule, most_work_remaining_rule,
                                                score_based_rule)
    res = Result("C04")
    rng = random.Random(seed)
    rules = ["shortest_processing_time", "first_come_first_served", "most_work_remaining",
             "most_operations_remaining", "random"]
    choosers = ["first", "random"]
    filter_cfgs = [None, "dominated_operations", "non_idle_machines", "non_immediate_machines",
                   "non_immediate_operations", ["dominated_operations", "non_idle_machines"],
                   ["non_immediate_machines", "non_idle_machines", "dominated_operations"]]
    insts = []
    for _ in range(25 if tier == "quick" else 150):
        insts.append(random_instance(rng, 4, 4, 3, durations=(1, 2, 3, 5, 8), flexible=True))
    for _ in range(8 if tier == "quick" else 50):
        insts.append(random_instance(rng, 3, 3, 3, durations=(0, 1, 2), flexible=True))
    res.bound = {"instances": "%d random instances <=4 jobs x <=4 ops x <=3 machines (flexible, recirculation, ragged; a "
                              "quarter with zero durations, run without filters), seed %d" % (len(insts), seed),
                 "configurations": "5 rules x 2 choosers x 7 filter configurations; 6 tie-breaker compositions"}

    def crit(rule, jobs, model, d, o):
        j, p = o.job_id, o.position_in_job
        if rule == "shortest_processing_time":
            return [-o.duration]
        if rule == "first_come_first_served":
            return [-p]
        if rule == "most_work_remaining":
            return [sum(dur for _, dur in jobs[j][model.k[j]:])]
        if rule == "most_operations_remaining":
            unsched = len(jobs[j]) - model.k[j]
            now = d.current_time()
            ongoing = sum(1 for lst in model.sched for (jj, pp, s, e) in lst if jj == j and e > now)
            return [unsched + ongoing, unsched]
        return None

    # non-flexible instances for the direct / observer-based most-work-remaining comparison (the scorer reads
    # per-job features of DurationObserver and IsReadyObserver); they also go through everything else
    n_classic = 30 if tier == "quick" else 200
    for _ in range(n_classic):
        insts.append(random_instance(rng, 4, 4, 3, durations=(1, 2, 3, 5, 8), flexible=False))
    res.bound["instances"] += "; plus %d non-flexible instances of the same size with positive durations" % n_classic

    POKES = ["uncompleted_operations", "ongoing_operations", "completed_operations", "unscheduled_operations",
             "scheduled_operations", "available_machines", "available_jobs", "current_time"]
    other_rules = [dispatching_rule_factory(r) for r in rules if r != "random"]
    res.bound["configurations"] += ("; every second configuration with other queries / other rules asked first in half of "
                                   "the states; score_based_rule over 3 built-in scoring functions")
    for jobs in insts:
        positive = all(dur > 0 for job in jobs for _, dur in job)
        for rule in rules:
            for chooser in choosers:
              for poke in ((False, True) if chooser == "first" else (False,)):
                  for fc in (filter_cfgs if positive else [None]):
                      res.count("solver-terminates-complete-feasible")
                      res.case((str(jobs), rule, chooser, str(fc)))
                      inst = build_instance(jobs)
                      solver = DispatchingRuleSolver(rule, chooser, fc)
                      d = Dispatcher(inst, ready_operations_filter=solver.ready_operations_filter)
                      model = Model(jobs)
                      rule_fn = solver.dispatching_rule
                      steps = 0
                      ok = True
                      try:
                          while not d.schedule.is_complete():
                              steps += 1
                              if steps > model.N + 2:
                                  raise Timeout()
                              avail = list(d.available_operations())
                              if poke and rng.random() < 0.5:
                                  # the state a rule is asked in includes what was asked before in that state: other
                                  # queries and other rules first (the rule's answer must not depend on them)
                                  for q in rng.sample(POKES, rng.randint(1, 3)):
                                      getattr(d, q)()
                                  for r2 in rng.sample(other_rules, rng.randint(0, 2)):
                                      r2(d)
                              sel = rule_fn(d)
                              res.count("selected-is-available-and-best")
                              if not any(sel is a for a in avail):
                                  res.breach("selected-is-available", f"{rule} selected an unavailable operation",
                                             jobs=jobs, history=model.history, rule=rule, filter=fc)
                                  ok = False
                                  break
                              cs = crit(rule, jobs, model, d, sel)
                              if cs is not None:
                                  alts = list(zip(*[crit(rule, jobs, model, d, a) for a in avail]))
                                  if not any(c == max(col) for c, col in zip(cs, alts)):
                                      res.breach(f"selected-is-best:{rule}", f"selected job {sel.job_id} with criterion "
                                                 f"{cs}, best {[max(c) for c in alts]}", jobs=jobs,
                                                 history=model.history, rule=rule, filter=fc)
                              m = solver.machine_chooser(d, sel)
                              d.dispatch(sel, m)
                              model.apply(sel.job_id, m)
                      except Timeout:
                          res.breach("solver-terminates", f"{rule}/{chooser}/{fc}: no progress", jobs=jobs,
                                     history=model.history)
                          ok = False
                      except Exception as e:  # noqa: BLE001
                          res.breach("solver-terminates", f"{rule}/{chooser}/{fc}: {type(e).__name__}: {str(e)[:100]}",
                                     jobs=jobs, history=model.history)
                          ok = False
                      if ok:
                          errs = feasibility_errors(inst, d)
                          if errs or model.n != model.N:
                              res.breach("solver-terminates-complete-feasible", (errs or ["incomplete"])[0], jobs=jobs,
                                         rule=rule, filter=fc)
        # tie-breaker compositions of the built-in scoring functions
        scorers = {"spt": shortest_processing_time_score, "fcfs": first_come_first_served_score,
                   "mor": most_operations_remaining_score, "mwr": MostWorkRemainingScorer()}
        combos = [("spt", "fcfs"), ("fcfs", "spt"), ("mor", "spt"), ("spt", "mor", "fcfs"), ("mwr", "fcfs"),
                  ("mor",)]
        for combo in combos:
            if "mwr" in combo and not all(len(ms) == 1 for job in jobs for ms, _ in job):
                continue
            res.count("tie-breaker-lexicographically-best")
            inst = build_instance(jobs)
            d = Dispatcher(inst)
            model = Model(jobs)
            rule_fn = score_based_rule_with_tie_breaker([scorers[c] for c in combo])
            try:
                while not d.schedule.is_complete():
                    avail = list(d.available_operations())
                    scores = [list(scorers[c](d)) for c in combo]
                    sel = rule_fn(d)
                    if not any(sel is a for a in avail):
                        res.breach("tie-breaker-selected-is-available", str(combo), jobs=jobs, history=model.history)
                        break
                    vec = lambda o: tuple(sc[o.job_id] for sc in scores)
                    if vec(sel) != max(vec(a) for a in avail):
                        res.breach("tie-breaker-lexicographically-best", f"{combo}: selected {vec(sel)}, best "
                                   f"{max(vec(a) for a in avail)}", jobs=jobs, history=model.history, scorers=combo)
                        break
                    m = sel.machines[0]
                    d.dispatch(sel, m)
                    model.apply(sel.job_id, m)
            except Exception as e:  # noqa: BLE001
                res.breach("tie-breaker-returns-an-operation", f"{combo}: {type(e).__name__}: {str(e)[:100]}",
                           jobs=jobs, history=model.history, scorers=combo)
        # score_based_rule(f) for the built-in scoring functions: an available operation with a highest score
        for name in ("spt", "fcfs", "mor"):
            res.count("score-based-rule-selects-a-highest-score")
            inst = build_instance(jobs)
            d = Dispatcher(inst)
            model = Model(jobs)
            rule_fn = score_based_rule(scorers[name])
            try:
                while not d.schedule.is_complete():
                    avail = list(d.available_operations())
                    scores = list(scorers[name](d))
                    sel = rule_fn(d)
                    if not any(sel is a for a in avail):
                        res.breach("score-based-rule-selected-is-available", name, jobs=jobs, history=model.history)
                        break
                    if scores[sel.job_id] != max(scores[a.job_id] for a in avail):
                        res.breach("score-based-rule-selects-a-highest-score", f"{name}: selected job {sel.job_id} with "
                                   f"score {scores[sel.job_id]}, scores {scores}", jobs=jobs, history=model.history,
                                   scorer=name)
                        break
                    if name == "spt" and sel.duration != min(a.duration for a in avail):
                        res.breach("score-based-rule-selects-a-highest-score", f"spt: selected duration {sel.duration}, "
                                   f"shortest available {min(a.duration for a in avail)}", jobs=jobs,
                                   history=model.history, scorer=name)
                        break
                    nxt = sel if rng.random() < 0.6 else rng.choice(avail)
                    d.dispatch(nxt, nxt.machines[0])
                    model.apply(nxt.job_id, nxt.machines[0])
            except Exception as e:  # noqa: BLE001
                res.breach("score-based-rule-returns-an-operation", f"{name}: {type(e).__name__}: {str(e)[:100]}",
                           jobs=jobs, history=model.history, scorer=name)
        # direct vs observer-based most-work-remaining
        for fc in ([None, ["dominated_operations", "non_idle_machines"], "non_immediate_operations",
                    "non_immediate_machines"] if positive else [None]):
            if not all(len(ms) == 1 for job in jobs for ms, _ in job):
                break
            res.count("observer-based-mwkr-equals-direct")
            inst = build_instance(jobs)
            # (under a filter a job can be hidden in one state and available again later)
            d = Dispatcher(inst, ready_operations_filter=DispatchingRuleSolver("most_work_remaining", "first", fc)
                           .ready_operations_filter)
            model = Model(jobs)
            obs_rule = score_based_rule(MostWorkRemainingScorer())
            try:
                while not d.schedule.is_complete():
                    a, b = most_work_remaining_rule(d), obs_rule(d)
                    if a is not b:
                        res.breach("observer-based-mwkr-equals-direct", f"direct selects job {a.job_id}, observer-based "
                                   f"job {b.job_id}", jobs=jobs, history=model.history, filter=fc)
                        break
                    # mostly follow the rule (as a solver does), sometimes leave its path
                    sel = b if rng.random() < 0.7 else rng.choice(list(d.available_operations()))
                    d.dispatch(sel, sel.machines[0])
                    model.apply(sel.job_id, sel.machines[0])
            except Exception as e:  # noqa: BLE001
                res.breach("observer-based-mwkr-equals-direct", f"{type(e).__name__}: {str(e)[:100]}", jobs=jobs,
                           history=model.history, filter=fc)
        # metadata of __call__
        res.count("call-records-elapsed-time-and-class-name")
        sched = DispatchingRuleSolver()(build_instance(jobs))
        et = sched.metadata.get("elapsed_time")
        if et is None or et < 0 or sched.metadata.get("solved_by") != "DispatchingRuleSolver":
            res.breach("call-records-elapsed-time-and-class-name", f"metadata {sched.metadata}", jobs=jobs)
        res.sample({"jobs": jobs})
    # factories are total on the documented names
    res.count("factories-total")
    try:
        for r in rules:
            dispatching_rule_factory(r)
        for c in choosers:
            machine_chooser_factory(c)
    except Exception as e:  # noqa: BLE001
        res.breach("factories-total", str(e))
    return res


# --------------------------------------------------------------------------- C14
def deep_instance(inst):
    return ([[(list(o.machines), o.duration, o.job_id, o.position_in_job, o.operation_id) for o in job]
             for job in inst.jobs], inst.name, copy.deepcopy(inst.metadata))


def taillard_text(inst):
    lines = [f"{inst.num_jobs} {inst.num_machines}"]
    for job in inst.jobs:
        lines.append(" ".join(f"{o.machines[0]} {o.duration}" for o in job))
    return "\n".join(lines) + "\n"


def precedence_acyclic(jobs, seqs):
    """job chains + machine sequence edges; the c-th occurrence of job j in machine m's
    sequence is the c-th operation of j on m"""
    nodes = [(j, p) for j, job in enumerate(jobs) for p in range(len(job))]
    succ = {n: [] for n in nodes}
    for j, job in enumerate(jobs):
        for p in range(len(job) - 1):
            succ[(j, p)].append((j, p + 1))
    for m, seq in enumerate(seqs):
        cnt = {}
        prev = None
        for j in seq:
            c = cnt.get(j, 0)
            cnt[j] = c + 1
            on_m = [p for p, (ms, _) in enumerate(jobs[j]) if ms[0] == m]
            node = (j, on_m[c])
            if prev is not None:
                succ[prev].append(node)
            prev = node
    indeg = {n: 0 for n in nodes}
    for n in nodes:
        for s in succ[n]:
            indeg[s] += 1
    todo = [n for n in nodes if indeg[n] == 0]
    seen = 0
    while todo:
        n = todo.pop()
        seen += 1
        for s in succ[n]:
            indeg[s] -= 1
            if indeg[s] == 0:
                todo.append(s)
    return seen == len(nodes)


def run_C14(tier, seed):
    import numpy as np
    res = Result("C14")
    rng = random.Random(seed)
    insts = small_instances(2, 2, 2, (0, 1, 3), True, limit=30 if tier == "quick" else 150, rng=rng)
    for _ in range(40 if tier == "quick" else 300):
        insts.append(random_instance(rng, 4, 4, 4, durations=(0, 1, 2, 5, 9), flexible=rng.random() < 0.5))
    # the eligible machines of an operation are a LIST: half of the flexible instances list them in a random order
    for jobs in insts:
        if rng.random() < 0.5:
            for job in jobs:
                for idx, (ms, dur) in enumerate(job):
                    if len(ms) > 1:
                        lst = list(ms)
                        rng.shuffle(lst)
                        job[idx] = (tuple(lst), dur)
    res.bound = {"instances": "%d instances: shapes <=2x2x2 (sampled) + random <=4 jobs x <=4 ops x <=4 machines, "
                              "flexible (machine lists in ascending and in random order) and not, ragged, recirculation, "
                              "unused machine ids, zero durations (seed %d)"
                              % (len(insts), seed),
                 "job_sequences": "every per-machine permutation of instances with <=6 operations, sampled beyond"}
    for jobs in insts:
        inst = build_instance(jobs)
        flexible = any(len(ms) > 1 for job in jobs for ms, _ in job)
        before = deep_instance(inst)
        res.count("views-equal-definition")
        res.case(str(jobs))
        ops = [o for job in inst.jobs for o in job]
        M = 1 + max(m for job in jobs for ms, _ in job for m in ms)
        want = {
            "ids": list(range(len(ops))),
            "num_jobs": len(jobs), "num_machines": M, "num_operations": len(ops), "is_flexible": flexible,
            "durations_matrix": [[d for _, d in job] for job in jobs],
            "machines_matrix": [[list(ms) if flexible else ms[0] for ms, _ in job] for job in jobs],
            "operations_by_machine": [[(j, p) for j, job in enumerate(jobs) for p, (ms, _) in enumerate(job)
                                       if m in ms] for m in range(M)],
            "max_duration": max(d for job in jobs for _, d in job),
            "max_duration_per_job": [max(d for _, d in job) for job in jobs],
            "max_duration_per_machine": [max([d for job in jobs for ms, d in job if m in ms], default=0)
                                         for m in range(M)],
            "job_durations": [sum(d for _, d in job) for job in jobs],
            "machine_loads": [sum(d for job in jobs for ms, d in job if m in ms) for m in range(M)],
            "total_duration": sum(d for job in jobs for _, d in job),
        }
        got = {
            "ids": [o.operation_id for o in ops],
            "num_jobs": inst.num_jobs, "num_machines": inst.num_machines, "num_operations": inst.num_operations,
            "is_flexible": inst.is_flexible, "durations_matrix": inst.durations_matrix,
            "machines_matrix": inst.machines_matrix,
            "operations_by_machine": [[(o.job_id, o.position_in_job) for o in lst]
                                      for lst in inst.operations_by_machine],
            "max_duration": inst.max_duration, "max_duration_per_job": inst.max_duration_per_job,
            "max_duration_per_machine": inst.max_duration_per_machine, "job_durations": inst.job_durations,
            "machine_loads": inst.machine_loads, "total_duration": inst.total_duration,
        }
        ok_attr = all(o.job_id == j and o.position_in_job == p for j, job in enumerate(inst.jobs)
                      for p, o in enumerate(job))
        for k in want:
            if got[k] != want[k] or not ok_attr:
                res.breach(f"views-equal-definition:{k}", f"{k} = {got[k]}, definition gives {want[k]}", jobs=jobs)
        # padded arrays
        res.count("padded-arrays")
        try:
            da = inst.durations_matrix_array
            L = max(len(job) for job in jobs)
            exp = np.full((len(jobs), L), np.nan, dtype=np.float32)
            for j, job in enumerate(jobs):
                exp[j, :len(job)] = [d for _, d in job]
            if da.shape != exp.shape or not np.array_equal(da, exp, equal_nan=True):
                res.breach("padded-arrays:durations", f"{da.tolist()} != {exp.tolist()}", jobs=jobs)
            ma = inst.machines_matrix_array
            if flexible:
                K = max(len(ms) for job in jobs for ms, _ in job)
                expm = np.full((len(jobs), L, K), np.nan, dtype=np.float32)
                for j, job in enumerate(jobs):
                    for p, (ms, _) in enumerate(job):
                        expm[j, p, :len(ms)] = ms
            else:
                expm = np.full((len(jobs), L), np.nan, dtype=np.float32)
                for j, job in enumerate(jobs):
                    expm[j, :len(job)] = [ms[0] for ms, _ in job]
            if ma.shape != expm.shape or not np.array_equal(ma, expm, equal_nan=True):
                res.breach("padded-arrays:machines", f"{ma.tolist()} != {expm.tolist()}", jobs=jobs)
        except Exception as e:  # noqa: BLE001
            res.breach("padded-arrays", f"{type(e).__name__}: {str(e)[:120]}", jobs=jobs)
        # dict / json round trip
        res.count("dict-round-trip")
        inst2 = JobShopInstance(copy.deepcopy(inst.jobs), name="nm", color="red", n=3)
        for via_json in (False, True):
            try:
                dct = inst2.to_dict()
                if via_json:
                    dct = json.loads(json.dumps(dct))
                back = JobShopInstance.from_matrices(**dct)
                if deep_instance(back) != deep_instance(inst2):
                    res.breach("dict-round-trip", f"{deep_instance(back)} != {deep_instance(inst2)}", jobs=jobs)
            except Exception as e:  # noqa: BLE001
                res.breach("dict-round-trip", f"to_dict/from_matrices raised {type(e).__name__}: {str(e)[:100]}",
                           jobs=jobs)
        # Taillard text round trip (non-flexible)
        if not flexible:
            res.count("taillard-round-trip")
            with tempfile.TemporaryDirectory() as td:
                path = os.path.join(td, "inst.txt")
                with open(path, "w") as f:
                    f.write("# comment line\n" + taillard_text(inst))
                back = JobShopInstance.from_taillard_file(path, name=inst.name, **inst.metadata)
            if deep_instance(back) != deep_instance(inst):
                res.breach("taillard-round-trip", f"{deep_instance(back)[0]} != {deep_instance(inst)[0]}", jobs=jobs)
            # schedules: job sequences and dict form
            model = random_history(jobs, rng)
            d = Dispatcher(inst)
            replay(d, inst, model.history)
            seqs = [[so.operation.job_id for so in lst] for lst in d.schedule.schedule]
            res.count("job-sequences-round-trip")
            try:
                s2 = with_timeout(10, Schedule.from_job_sequences, inst, seqs)
                dd = d.schedule.to_dict()
                res.count("schedule-dict-describes-the-schedule")
                if dd.get("job_sequences") != seqs or dd.get("metadata") != d.schedule.metadata \
                        or dd.get("instance") != inst.to_dict() or sorted(dd) != ["instance", "job_sequences", "metadata"]:
                    res.breach("schedule-dict-describes-the-schedule", f"job_sequences {dd.get('job_sequences')} for machine "
                               f"lists {seqs}; keys {sorted(dd)}", jobs=jobs, history=model.history)
                s3 = with_timeout(10, Schedule.from_dict, **json.loads(json.dumps(dd)))
                r1 = real_schedule(d)
                for nm, s in (("from_job_sequences", s2), ("from_dict", s3)):
                    class _D:
                        schedule = s
                    if real_schedule(_D) != r1:
                        res.breach(f"job-sequences-round-trip:{nm}", f"{real_schedule(_D)} != {r1}", jobs=jobs,
                                   history=model.history)
            except Timeout:
                res.breach("job-sequences-never-hang", "from_job_sequences did not return in 10 s", jobs=jobs,
                           history=model.history)
            except Exception as e:  # noqa: BLE001
                res.breach("job-sequences-round-trip", f"{type(e).__name__}: {str(e)[:120]}", jobs=jobs,
                           history=model.history)
            # accepted <=> acyclic over per-machine permutations
            nops = len(ops)
            base = [[j for j, job in enumerate(jobs) for (ms, _) in job if ms[0] == m] for m in range(M)]
            perms = []
            if nops <= 6:
                perms = [list(p) for p in itertools.product(*[set(itertools.permutations(b)) for b in base])]
            else:
                for _ in range(6):
                    perms.append([tuple(rng.sample(b, len(b))) for b in base])
            for perm in perms[:60]:
                res.count("job-sequences-accepted-iff-acyclic")
                seqs = [list(p) for p in perm]
                acyclic = precedence_acyclic(jobs, seqs)
                try:
                    s = with_timeout(10, Schedule.from_job_sequences, inst, seqs)
                    accepted = True
                    errs = schedule_errors_generic(inst, s)
                except ValidationError:
                    accepted, errs = False, []
                except Timeout:
                    res.breach("job-sequences-never-hang", f"sequences {seqs}", jobs=jobs, sequences=seqs)
                    continue
                except Exception as e:  # noqa: BLE001
                    res.breach("job-sequences-accepted-iff-acyclic", f"{type(e).__name__} for {seqs}", jobs=jobs,
                               sequences=seqs)
                    continue
                if accepted != acyclic or errs:
                    res.breach("job-sequences-accepted-iff-acyclic", f"sequences {seqs}: accepted={accepted}, "
                               f"acyclic={acyclic}, errors={errs[:1]}", jobs=jobs, sequences=seqs)
        # nobody modifies the instance
        res.count("instance-never-modified")
        try:
            from job_shop_lib.dispatching.rules import DispatchingRuleSolver
            DispatchingRuleSolver(ready_operations_filter=None)(inst)
            d = Dispatcher(inst)
            from .dispatcher_props import attach_observers
            attach_observers(d, with_features=not flexible)
            replay(d, inst, random_history(jobs, rng).history)
            d.reset()
            if not flexible:
                from job_shop_lib.graphs import build_disjunctive_graph, build_agent_task_graph
                build_disjunctive_graph(inst)
                build_agent_task_graph(inst)
        except Exception as e:  # noqa: BLE001
            res.notes.append(f"instance-never-modified driver: {type(e).__name__}: {str(e)[:80]}")
        if deep_instance(inst) != before:
            res.breach("instance-never-modified", f"{deep_instance(inst)[0]} != {before[0]}", jobs=jobs)
        res.sample({"jobs": jobs})
    return res


# --------------------------------------------------------------------------- C15
def run_C15(tier, seed):
    res = Result("C15")
    rng = random.Random(seed)
    res.bound = {"objects": "operations over machines in {[0],[1],[0,1],[1,0]} x durations {0,1,2} x ids; scheduled "
                            "operations over start {0,1} x machine; schedules and instances built twice independently "
                            "from <=2x2 shapes and with one field changed"}

    def content_op(o):
        return (tuple(o.machines), o.duration, o.job_id, o.position_in_job, o.operation_id)

    def mkop(ms, d, ids=(-1, -1, -1)):
        o = Operation(list(ms), d)
        o.job_id, o.position_in_job, o.operation_id = ids
        return o
    ops = [mkop(ms, d, ids) for ms in ((0,), (1,), (0, 1), (1, 0)) for d in (0, 1, 2)
           for ids in ((-1, -1, -1), (0, 0, 0), (0, 1, 1), (1, 0, 1))]
    ops += [mkop(ms, d, ids) for ms in ((0,), (0, 1)) for d in (1,) for ids in ((0, 0, 0), (1, 0, 1))]  # twins

    def check_family(name, objs, content):
        for a in objs:
            res.count(f"equality:{name}")
            if not (a == a):
                res.breach(f"equality-reflexive:{name}", str(content(a)))
        for a, b in itertools.combinations(objs, 2):
            res.count(f"equality:{name}")
            res.case((name, str(content(a)), str(content(b))))
            same = content(a) == content(b)
            if (a == b) != same or (b == a) != same:
                res.breach(f"equality-iff-same-content:{name}",
                           f"{content(a)} == {content(b)} evaluates to {a == b} / {b == a}, contents "
                           f"{'equal' if same else 'differ'}", a=str(content(a)), b=str(content(b)))
            if (a == b) and hasattr(a, "__hash__") and a.__hash__ is not None:
                try:
                    if hash(a) != hash(b):
                        res.breach(f"equal-objects-hash-equally:{name}", f"{content(a)}")
                except TypeError:
                    pass
        if any(o == 5 or o == "x" or o == None for o in objs[:3]):  # noqa: E711
            res.breach(f"equality-with-foreign-type:{name}", "equal to an int/str/None")
    check_family("Operation", ops, content_op)

    def content_so(s):
        return (content_op(s.operation), s.start_time, s.machine_id)
    sos = []
    for o in ops[:16] + ops[-4:]:
        for st in (0, 1):
            for m in o.machines:
                sos.append(ScheduledOperation(o, st, m))
    check_family("ScheduledOperation", sos[:70], content_so)

    def content_inst(i):
        return tuple(tuple(content_op(o) for o in job) for job in i.jobs)
    shapes = small_instances(2, 2, 2, (1, 2), True, limit=4, rng=rng)
    insts = [build_instance_lists(j) for j in shapes] + [build_instance_lists(j) for j in shapes[:20]]
    check_family("JobShopInstance", insts[:60], content_inst)

    def content_sched(s):
        return tuple(tuple(content_so(x) for x in lst) for lst in s.schedule)
    scheds = []
    for jobs in shapes[:25]:
        for _ in range(2):
            inst = build_instance_lists(jobs)
            model = random_history(jobs, random.Random(str(jobs)))
            d = Dispatcher(inst)
            replay(d, inst, model.history)
            scheds.append(d.schedule)
        inst = build_instance_lists(jobs)
        model = random_history(jobs, rng, length=1)
        d = Dispatcher(inst)
        replay(d, inst, model.history)
        scheds.append(d.schedule)
    check_family("Schedule", scheds[:60], content_sched)
    res.sample({"operation_pair": [content_op(ops[0]), content_op(ops[1])]})
    return res


# --------------------------------------------------------------------------- C19
def run_C19(tier, seed):
    from job_shop_lib.generation import GeneralInstanceGenerator
    res = Result("C19")
    rng = random.Random(seed)
    configs = []
    grid_jobs = [(1, 3), (2, 5), 4, (3, 3)]
    grid_m = [(1, 3), (2, 6), 3, (4, 4)]
    for nj in grid_jobs:
        for nm in grid_m:
            for allow_less in (True, False):
                for recirc in (True, False):
                    for mpo in (1, 2, (1, 3), (2, 2)):
                        configs.append(dict(num_jobs=nj, num_machines=nm, duration_range=(rng.randint(0, 3), rng.randint(3, 9)),
                                            allow_less_jobs_than_machines=allow_less, allow_recirculation=recirc,
                                            machines_per_operation=mpo))
    if tier == "quick":
        configs = rng.sample(configs, 80)
    res.bound = {"parameters": "%d parameter combinations (job range x machine range x flags x machines-per-operation), "
                               "8 instances each, seeds varied (seed %d)" % (len(configs), seed)}

    def rg(x):
        return (x, x) if isinstance(x, int) else x
    for cfg in configs:
        sd = rng.randint(0, 10 ** 6)
        jlo, jhi = rg(cfg["num_jobs"])
        mlo, mhi = rg(cfg["num_machines"])
        klo, khi = rg(cfg["machines_per_operation"])
        dlo, dhi = cfg["duration_range"]
        if khi > mlo:
            continue  # cannot draw k distinct machines out of fewer than k: outside the property
        if not cfg["allow_less_jobs_than_machines"] and jhi < mlo:
            continue  # unsatisfiable request (never enough jobs): outside the property
        try:
            g = GeneralInstanceGenerator(seed=sd, iteration_limit=8, **cfg)
            insts = list(g)
        except Exception as e:  # noqa: BLE001
            res.breach("generator-produces-instances", f"{type(e).__name__}: {str(e)[:100]} for {cfg}", config=cfg,
                       seed=sd)
            continue
        res.count("iteration-yields-configured-number")
        if len(insts) != 8 or len(g) != 8:
            res.breach("iteration-yields-configured-number", f"{len(insts)} instances", config=cfg, seed=sd)
        names = [i.name for i in insts] + [g.generate().name for _ in range(2)]
        # ... also across a second pass over the same generator (a new epoch) and generate() calls after it
        second = list(g)
        res.count("iteration-yields-configured-number")
        if len(second) != 8:
            res.breach("iteration-yields-configured-number", f"second pass yields {len(second)} instances", config=cfg,
                       seed=sd)
        names += [i.name for i in second] + [g.generate().name]
        # ... and a pass that starts after an earlier pass was abandoned part-way (a `break` out of a for loop, a few
        # direct next() calls): iter() starts a new pass of the configured length; an exhausted pass stays exhausted
        res.count("iteration-yields-configured-number")
        it = iter(g)
        partial = [next(it) for _ in range(3)]
        third = list(g)
        try:
            next(iter([]) if False else it)
            extra = True
        except StopIteration:
            extra = False
        if len(third) != 8 or extra:
            res.breach("iteration-yields-configured-number",
                       f"after abandoning a pass at 3 instances a new pass yields {len(third)} instances"
                       f"{' and next() on the exhausted iterator still yields' if extra else ''}", config=cfg, seed=sd)
        names += [i.name for i in partial + third]
        if len(set(names)) != len(names):
            res.breach("names-never-reused", str(names), config=cfg, seed=sd)
        for inst in insts:
            res.count("shape-respected")
            res.case((str(cfg), inst.name, sd))
            J = len(inst.jobs)
            lens = {len(job) for job in inst.jobs}
            M = len(inst.jobs[0])
            probs = []
            if not (jlo <= J <= jhi):
                probs.append(f"{J} jobs outside [{jlo},{jhi}]")
            if len(lens) != 1:
                probs.append(f"jobs of different lengths {lens}")
            if not (mlo <= M <= mhi):
                probs.append(f"{M} operations per job outside the machine range [{mlo},{mhi}]")
            for job in inst.jobs:
                for o in job:
                    if any(not (0 <= m < M) for m in o.machines):
                        probs.append(f"machine id {o.machines} not below {M}")
                    if not (dlo <= o.duration <= dhi):
                        probs.append(f"duration {o.duration} outside [{dlo},{dhi}]")
                    if len(set(o.machines)) != len(o.machines) or not (klo <= len(o.machines) <= khi):
                        probs.append(f"{o.machines}: not {klo}..{khi} distinct machines")
                if not cfg["allow_recirculation"] and khi == 1:
                    if sorted(o.machines[0] for o in job) != list(range(M)):
                        probs.append("a job does not visit each machine exactly once")
            if not cfg["allow_less_jobs_than_machines"] and J < M:
                probs.append(f"{J} jobs < {M} machines although that is disallowed")
            if probs:
                res.breach("shape-respected", probs[0] + f" ({cfg})", config=cfg, seed=sd,
                           instance=instance_data(inst))
        # machines drawn from all M machines (statistical over the batch: some operation uses an id >= k)
        if khi > 1:
            res.count("machines-drawn-from-all")
            big = [GeneralInstanceGenerator(seed=sd + 1, **cfg).generate() for _ in range(6)]
            for inst in big:
                M = len(inst.jobs[0])
                used = {m for job in inst.jobs for o in job for m in o.machines}
                if M > khi and len(inst.jobs) * M >= 12 and not any(m >= khi for m in used):
                    res.breach("machines-drawn-from-all", f"{len(inst.jobs)}x{M} instance only uses machine ids {sorted(used)} "
                               f"(machines per operation {cfg['machines_per_operation']})", config=cfg, seed=sd + 1)
                    break
        # reproducibility
        for sd2 in (sd, 0, 1):
            res.count("same-seed-same-sequence")
            random.seed(rng.randint(0, 10 ** 9))   # whatever the global RNG did before must not matter
            a = [instance_data(i) for i in GeneralInstanceGenerator(seed=sd2, iteration_limit=4, **cfg)]
            random.seed(rng.randint(0, 10 ** 9))
            b = [instance_data(i) for i in GeneralInstanceGenerator(seed=sd2, iteration_limit=4, **cfg)]
            if a != b:
                res.breach("same-seed-same-sequence", f"two generators with seed {sd2} and the same parameters differ",
                           config=cfg, seed=sd2)
        res.sample({"config": cfg, "first": instance_data(insts[0]) if insts else None})
    return res
