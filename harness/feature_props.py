"""Tier-B (bounded) run-time contracts for C11 (incremental features) and C12 (reset)."""
from __future__ import annotations

import itertools
import random

import numpy as np

from .common import Model, Result, build_instance, random_instance, replay, small_instances
from .dispatcher_props import FILTERS, real_schedule

from job_shop_lib.dispatching import Dispatcher, HistoryObserver, UnscheduledOperationsObserver  # noqa: E402
from job_shop_lib.dispatching.feature_observers import (  # noqa: E402
    CompositeFeatureObserver, DurationObserver, EarliestStartTimeObserver, FeatureType, IsCompletedObserver,
    IsReadyObserver, IsScheduledObserver, PositionInJobObserver, RemainingOperationsObserver,
    feature_observer_factory, FeatureObserverType)

OBSERVERS = {
    "IsReady": IsReadyObserver, "EarliestStartTime": EarliestStartTimeObserver, "Duration": DurationObserver,
    "IsScheduled": IsScheduledObserver, "PositionInJob": PositionInJobObserver,
    "RemainingOperations": RemainingOperationsObserver, "IsCompleted": IsCompletedObserver,
}
OP, MA, JO = FeatureType.OPERATIONS, FeatureType.MACHINES, FeatureType.JOBS


def spec_features(jobs, model, avail, flexible):
    """{observer: {feature type: {entity index: value}}} for entities with work left,
    recomputed from (instance, schedule so far).  `avail` = available (j,p) after filtering."""
    ops = [(j, p) for j, job in enumerate(jobs) for p in range(len(job))]
    oid = {jp: i for i, jp in enumerate(ops)}
    M, J = model.M, len(jobs)
    sched = {(j, p): (s, e, m) for m, lst in enumerate(model.sched) for (j, p, s, e) in lst}
    now = model.min_start(avail)
    unsched = [jp for jp in ops if jp not in sched]
    ongoing = {jp for jp, (s, e, m) in sched.items() if e > now}
    not_completed = [jp for jp in ops if jp not in sched or jp in ongoing]
    jobs_left = [j for j in range(J) if model.k[j] < len(jobs[j])]
    machines_left = [m for m in range(M) if any(m in jobs[j][p][0] for (j, p) in unsched)]
    spec = {}
    # readiness
    spec["IsReady"] = {
        OP: {oid[jp]: float(jp in avail) for jp in not_completed},
        MA: {m: float(any(m in jobs[j][p][0] for (j, p) in avail)) for m in machines_left},
        JO: {j: float(any(jj == j for (jj, _) in avail)) for j in jobs_left},
    }
    # earliest start (forward recursion over each job's unscheduled operations), relative to now
    est = {}
    for j in range(J):
        prev_end = model.job_ready[j]
        for p in range(model.k[j], len(jobs[j])):
            ms, d = jobs[j][p]
            st = max(prev_end, min(model.machine_free[m] for m in ms))
            est[(j, p)] = st
            prev_end = st + d
    spec["EarliestStartTime"] = {
        OP: {oid[jp]: float(est[jp] - now) for jp in unsched},
        MA: {m: float(min(est[(j, p)] for (j, p) in unsched if m in jobs[j][p][0]) - now) for m in machines_left},
        JO: {j: float(est[(j, model.k[j])] - now) for j in jobs_left},
    }
    # remaining duration
    dur_ops = {oid[(j, p)]: float(jobs[j][p][1]) for (j, p) in unsched}
    for jp in ongoing:
        s, e, m = sched[jp]
        # tagged: the value of an ONGOING operation is checked under its own check name
        dur_ops[oid[jp]] = (float(e - max(s, now)), "ongoing")
    spec["Duration"] = {
        OP: dur_ops,
        JO: {j: float(sum(jobs[j][p][1] for p in range(model.k[j], len(jobs[j])))) for j in jobs_left},
    }
    if not flexible:
        spec["Duration"][MA] = {m: float(sum(jobs[j][p][1] for (j, p) in unsched if m in jobs[j][p][0]))
                                for m in machines_left}
    # scheduled flag and ongoing counts
    spec["IsScheduled"] = {
        OP: {oid[jp]: float(jp in sched) for jp in not_completed},
        MA: {m: float(sum(1 for jp in ongoing if sched[jp][2] == m)) for m in machines_left},
        JO: {j: float(sum(1 for (jj, _) in ongoing if jj == j)) for j in jobs_left},
    }
    spec["PositionInJob"] = {OP: {oid[(j, p)]: float(p - model.k[j]) for (j, p) in unsched}}
    spec["RemainingOperations"] = {JO: {j: float(len(jobs[j]) - model.k[j]) for j in jobs_left}}
    if not flexible:
        spec["RemainingOperations"][MA] = {m: float(sum(1 for (j, p) in unsched if m in jobs[j][p][0]))
                                           for m in machines_left}
    spec["IsCompleted"] = {
        OP: {oid[jp]: 0.0 for jp in not_completed},
        MA: {m: 0.0 for m in machines_left},
        JO: {j: 0.0 for j in jobs_left},
    }
    return spec


def compare(obs_name, ob, spec, res, jobs, model, flt_name, tag=""):
    for ft, arr in ob.features.items():
        want = spec.get(obs_name, {}).get(ft)
        if want is None:
            continue
        for idx, val in want.items():
            sub = ""
            if isinstance(val, tuple):
                val, sub = val[0], ":" + val[1]
            got = float(arr[idx, 0])
            if got != val:
                res.breach(f"feature-equals-recomputation:{obs_name}:{ft.value}{sub}",
                           f"{obs_name}{tag} {ft.value}[{idx}] = {got}, recomputation gives {val}", jobs=jobs,
                           history=model.history, filter=flt_name, observer=obs_name)
                return False
    return True


def run_C11(tier, seed):
    res = Result("C11")
    rng = random.Random(seed)
    insts = []
    for flexible in (False, True):
        insts += small_instances(2, 2, 2, (0, 1, 2), flexible, limit=12 if tier == "quick" else 60, rng=rng)
    for k in range(110 if tier == "quick" else 500):
        insts.append(random_instance(rng, 3, 3, 3 + (k % 2), durations=(0, 1, 2, 3, 5) if k % 3 else (1, 2, 3, 5, 10),
                                     flexible=rng.random() < 0.35))
    for _ in range(20 if tier == "quick" else 100):   # regular instances (same number of operations per job)
        L = rng.randint(1, 3)
        nj = rng.randint(1, 3)
        insts.append([[((rng.randrange(3),), rng.choice((1, 2, 4))) for _ in range(L)] for _ in range(nj)])
    res.bound = {"instances": "%d instances <=3 jobs x <=3 ops x <=4 machines (regular and ragged, recirculation, flexible, "
                              "unused machine ids, zero durations without filter), seed %d" % (len(insts), seed),
                 "histories": "%d random maximal histories per (instance, filter), features compared after every dispatch"
                              % (3 if tier == "quick" else 6),
                 "filters": "none; dominated_operations and non_idle_machines on instances with positive durations"}
    walks = 3 if tier == "quick" else 6
    for jobs in insts:
        flexible = any(len(ms) > 1 for job in jobs for ms, _ in job)
        positive = all(d > 0 for job in jobs for _, d in job)
        # constructibility
        inst = build_instance(jobs)
        for name, cls in OBSERVERS.items():
            res.count("observer-constructible")
            try:
                cls(Dispatcher(inst))
            except Exception as e:  # noqa: BLE001
                res.breach(f"observer-constructible:{name}", f"{name}(dispatcher) raised {type(e).__name__}: "
                           f"{str(e)[:120]}", jobs=jobs, observer=name)
        for flt_name in ([None, "dominated_operations", "non_idle_machines"] if positive else [None]):
            # one instance object for all walks: later dispatchers and observers are built on an instance that
            # earlier ones have already worked with (its cached views must not have been touched)
            inst = build_instance(jobs)
            for _ in range(walks):
                d = Dispatcher(inst, ready_operations_filter=FILTERS.get(flt_name))
                dref = Dispatcher(inst, ready_operations_filter=FILTERS.get(flt_name))
                obs = {}
                for name, cls in OBSERVERS.items():
                    try:
                        obs[name] = cls(d)
                    except Exception:  # noqa: BLE001  (reported above)
                        pass
                try:
                    comp = CompositeFeatureObserver(d, feature_observers=list(obs.values()))
                except Exception as e:  # noqa: BLE001
                    comp = None
                    res.breach("composite-constructible", f"{type(e).__name__}: {str(e)[:100]}", jobs=jobs)
                model = Model(jobs)
                while True:
                    avail = [(o.job_id, o.position_in_job) for o in dref.available_operations()]
                    spec = spec_features(jobs, model, avail, flexible)
                    res.count("feature-equals-recomputation")
                    res.case((str(jobs), flt_name, tuple(model.history)))
                    for name, ob in obs.items():
                        compare(name, ob, spec, res, jobs, model, flt_name)
                    if comp is not None:
                        res.count("composite-is-concatenation")
                        for ft in (OP, MA, JO):
                            parts = [ob.features[ft] for ob in obs.values() if ft in ob.features]
                            names = [n for n, ob in obs.items() if ft in ob.features]
                            if not parts:
                                continue
                            want = np.concatenate(parts, axis=1)
                            if ft not in comp.features or comp.features[ft].shape != want.shape or not np.array_equal(
                                    comp.features[ft], want, equal_nan=True) or comp.column_names[ft] != names:
                                res.breach("composite-is-concatenation", f"{ft.value}: composite differs from the "
                                           f"concatenation of its parts (columns {comp.column_names.get(ft)})",
                                           jobs=jobs, history=model.history)
                    if not avail:
                        break
                    j, p = rng.choice(avail)
                    m = rng.choice(jobs[j][p][0])
                    d.dispatch(inst.jobs[j][p], m)
                    dref.dispatch(inst.jobs[j][p], m)
                    model.apply(j, m)
        res.sample({"jobs": jobs})
    # factory is total on the documented names
    res.count("factory-total")
    inst = build_instance([[((0,), 1), ((1,), 2)], [((1,), 1), ((0,), 1)]])
    for t in FeatureObserverType:
        try:
            if "composite" in str(t.value).lower():
                continue
            feature_observer_factory(t, dispatcher=Dispatcher(inst))
        except Exception as e:  # noqa: BLE001
            res.breach("factory-total", f"{t}: {type(e).__name__}: {str(e)[:100]}")
    return res


# --------------------------------------------------------------------------- C12
def observer_state(ob):
    st = {}
    if hasattr(ob, "features"):
        st["features"] = {ft.value: a.copy().tolist() for ft, a in ob.features.items()}
    for attr in ("earliest_start_times", "remaining_ops_per_machine", "remaining_ops_per_job"):
        if hasattr(ob, attr):
            st[attr] = np.array(getattr(ob, attr), dtype=float).tolist()
    if hasattr(ob, "history"):
        st["history"] = [(so.operation.job_id, so.operation.position_in_job, so.start_time, so.machine_id)
                         for so in ob.history]
    if hasattr(ob, "rewards"):
        st["rewards"] = (list(ob.rewards), getattr(ob, "current_makespan", None))
    if hasattr(ob, "unscheduled_operations_per_job"):
        st["unscheduled"] = [[(o.job_id, o.position_in_job) for o in dq] for dq in ob.unscheduled_operations_per_job]
    if hasattr(ob, "job_shop_graph"):
        g = ob.job_shop_graph
        st["graph"] = (sorted(g.graph.nodes), sorted(g.graph.edges), list(g.removed_nodes))
    return st


def norm(x):
    """nan-safe comparison form"""
    if isinstance(x, float) and x != x:
        return "nan"
    if isinstance(x, (list, tuple)):
        return [norm(v) for v in x]
    if isinstance(x, dict):
        return {k: norm(v) for k, v in x.items()}
    return x


def make_observers(d, order, with_graph):
    from job_shop_lib.reinforcement_learning import MakespanReward, IdleTimeReward
    from job_shop_lib.graphs import build_disjunctive_graph, build_agent_task_graph
    from job_shop_lib.graphs.graph_updaters import ResidualGraphUpdater
    makers = dict(OBSERVERS)
    makers.update({"History": HistoryObserver, "Unscheduled": UnscheduledOperationsObserver,
                   "MakespanReward": MakespanReward, "IdleTimeReward": IdleTimeReward})
    out = {}
    for name in order:
        if name == "ResidualGraph":
            if with_graph:
                out[name] = ResidualGraphUpdater(d, build_agent_task_graph(d.instance))
            continue
        try:
            out[name] = d.create_or_get_observer(makers[name])
        except Exception:  # noqa: BLE001  (constructibility is C11)
            pass
    return out


def run_C12(tier, seed):
    res = Result("C12")
    rng = random.Random(seed)
    insts = small_instances(2, 2, 2, (1, 2), False, limit=10 if tier == "quick" else 50, rng=rng)
    for _ in range(25 if tier == "quick" else 200):
        insts.append(random_instance(rng, 3, 3, 3, durations=(0, 1, 2, 4), flexible=rng.random() < 0.3))
    names = list(OBSERVERS) + ["History", "Unscheduled", "MakespanReward", "IdleTimeReward", "ResidualGraph"]
    res.bound = {"instances": "%d instances <=3x3x3 (seed %d)" % (len(insts), seed),
                 "scenario": "observer set created in a random order; 1 to 3 rounds of (random partial history; reset); "
                             "random history h2 -- compared step by step with fresh objects running h2 only (3 orders x 2 scenarios "
                             "per instance)"}
    for jobs in insts:
        flexible = any(len(ms) > 1 for job in jobs for ms, _ in job)
        positive = all(d > 0 for job in jobs for _, d in job)
        for _ in range(2 if tier == "quick" else 6):
            order = rng.sample(names, len(names))
            with_graph = positive and not flexible
            inst = build_instance(jobs)
            d1 = Dispatcher(inst)
            o1 = make_observers(d1, order, with_graph)
            # a history may itself contain resets: 1 to 3 (partial episode; reset) rounds before the comparison
            before = []
            for _round in range(rng.choice((1, 1, 2, 3))):
                m1 = Model(jobs)
                steps = rng.randint(0, m1.N)
                for _ in range(steps):
                    mv = m1.legal()
                    if not mv:
                        break
                    j, m = rng.choice(mv)
                    d1.dispatch(inst.jobs[j][m1.k[j]], m)
                    m1.apply(j, m)
                d1.reset()
                before.append(list(m1.history))
            m1 = Model(jobs)
            m1.history = before   # (reported in breaches: the episodes before the last reset)
            inst2 = build_instance(jobs)
            d2 = Dispatcher(inst2)
            o2 = make_observers(d2, order, with_graph)
            model = Model(jobs)
            res.case((str(jobs), tuple(order), str(before)))
            ok = True
            while ok:
                res.count("reset-indistinguishable-from-new")
                a = {"schedule": real_schedule(d1), "mnat": list(d1.machine_next_available_time),
                     "k": list(d1.job_next_operation_index), "jnat": list(d1.job_next_available_time),
                     "now": d1.current_time()}
                b = {"schedule": real_schedule(d2), "mnat": list(d2.machine_next_available_time),
                     "k": list(d2.job_next_operation_index), "jnat": list(d2.job_next_available_time),
                     "now": d2.current_time()}
                if a != b:
                    res.breach("reset-indistinguishable-from-new:dispatcher", f"{a} != {b}", jobs=jobs,
                               history_before_reset=m1.history, history=model.history)
                    break
                for name in o1:
                    if name not in o2:
                        continue
                    sa, sb = norm(observer_state(o1[name])), norm(observer_state(o2[name]))
                    if sa != sb:
                        key = [k for k in sa if sa[k] != sb.get(k)][0]
                        res.breach(f"reset-indistinguishable-from-new:{name}",
                                   f"{name}.{key} after reset (creation order {order}) = {str(sa[key])[:150]}, on fresh "
                                   f"objects {str(sb[key])[:150]}", jobs=jobs, history_before_reset=m1.history,
                                   history=model.history, order=order, observer=name)
                        ok = False
                        break
                mv = model.legal()
                if not mv or not ok:
                    break
                j, m = rng.choice(mv)
                d1.dispatch(inst.jobs[j][model.k[j]], m)
                d2.dispatch(inst2.jobs[j][model.k[j]], m)
                model.apply(j, m)
        res.sample({"jobs": jobs})
    return res
