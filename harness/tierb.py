"""Entry point of the bounded stand-in: `python -m harness.tierb Cxx --tier quick --seed N --out file`."""
from __future__ import annotations

import argparse
import importlib
import json
import sys
import traceback

MODULES = {
    "C01": "harness.dispatcher_props", "C02": "harness.dispatcher_props", "C05": "harness.dispatcher_props",
    "C06": "harness.dispatcher_props", "C07": "harness.dispatcher_props", "C09": "harness.dispatcher_props",
    "C10": "harness.dispatcher_props", "C13": "harness.dispatcher_props",
    "C03": "harness.data_props", "C04": "harness.data_props", "C14": "harness.data_props",
    "C15": "harness.data_props", "C19": "harness.data_props",
    "C16": "harness.graph_props", "C17": "harness.graph_props",
    "C11": "harness.feature_props", "C12": "harness.feature_props",
    "C18": "harness.env_props", "C20": "harness.env_props",
}


def main(argv=None):
    ap = argparse.ArgumentParser()
    ap.add_argument("prop")
    ap.add_argument("--tier", default="quick")
    ap.add_argument("--seed", type=int, default=0)
    ap.add_argument("--out", default="-")
    a = ap.parse_args(argv)
    try:
        mod = importlib.import_module(MODULES[a.prop])
        res = getattr(mod, "run_" + a.prop)(a.tier, a.seed)
        out = res.to_json()
        out["status"] = "ok"
    except Exception as e:
        tb = traceback.extract_tb(e.__traceback__)
        inner = tb[-1].filename if tb else ""
        if "/job_shop_lib/" in inner and "/harness/" not in inner:
            # the library raised under valid use by the harness: that is a breach of the
            # property being exercised (it cannot be said to hold), with the traceback as replay
            out = {"property": a.prop, "status": "ok", "evaluations": 1, "distinct_nontrivial": 1,
                   "breaches": [{"check": "library-raised-under-valid-use",
                                 "what": f"{type(e).__name__}: {str(e)[:200]} at {inner}:{tb[-1].lineno}",
                                 "replay": {"traceback": traceback.format_exc()[-3000:]}}],
                   "samples": [], "bound": {}, "exhaustive": False, "notes": ["run aborted by a library exception"],
                   "checks": {}, "wall_s": 0}
        else:  # harness crash: never a violation
            out = {"property": a.prop, "status": "error", "message": f"{type(e).__name__}: {e}",
                   "traceback": traceback.format_exc()}
    txt = json.dumps(out, default=str)
    if a.out == "-":
        print(txt)
    else:
        with open(a.out, "w") as f:
            f.write(txt)
    return 0


if __name__ == "__main__":
    sys.exit(main())
