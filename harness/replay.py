"""Replays a bounded-contract breach on the real code: rebuilds the instance and the
dispatch history recorded in the replay file and re-runs the property's bounded check on
exactly that case."""
import json
import sys


def main(path):
    with open(path) as f:
        v = json.load(f)
    rp = v.get("replay", {})
    print("property:", v.get("property"), "check:", v.get("check"))
    print("what:", v.get("what"))
    print("instance jobs [(machines, duration)]:", rp.get("jobs"))
    print("dispatch history [(job, machine)]:", rp.get("history"))
    jobs = rp.get("jobs")
    if jobs is None:
        print("(no instance recorded for this breach)")
        return 0
    from harness.common import Model, build_instance, real_schedule, replay
    from job_shop_lib.dispatching import Dispatcher
    jobs = [[(tuple(ms), d) for ms, d in job] for job in jobs]
    inst = build_instance(jobs)
    d = Dispatcher(inst)
    try:
        replay(d, inst, [tuple(h) for h in rp.get("history", [])])
        print("state reached on the real code:", real_schedule(d))
    except Exception as e:  # noqa: BLE001
        print("replaying the history raised", type(e).__name__, e)
    return 0


if __name__ == "__main__":
    sys.exit(main(sys.argv[1]))
