"""Tier-B (bounded) run-time contracts for the dispatcher family: C01 C02 C05 C06 C07 C09
C10 C13.  Each `run_Cxx(tier, seed)` enumerates instances x histories in a stated scope,
drives the REAL code and compares with independent recomputation from (instance,
history)."""
from __future__ import annotations

import itertools
import random

from .common import (Model, Result, build_instance, histories, random_history, random_instance, real_schedule,
                     replay, small_instances)

from job_shop_lib import Schedule, ScheduledOperation  # noqa: E402
from job_shop_lib.dispatching import (Dispatcher, DispatcherObserver, HistoryObserver,  # noqa: E402
                                      UnscheduledOperationsObserver, filter_dominated_operations,
                                      filter_non_idle_machines, filter_non_immediate_machines,
                                      filter_non_immediate_operations, create_composite_operation_filter)

FILTERS = {
    "dominated_operations": filter_dominated_operations,
    "non_idle_machines": filter_non_idle_machines,
    "non_immediate_machines": filter_non_immediate_machines,
    "non_immediate_operations": filter_non_immediate_operations,
}


def scope(tier, seed, positive=False, flexible=True):
    """instances of the bounded scope: exhaustive tiny ones + a seeded sample of larger"""
    rng = random.Random(seed)
    durs = (1, 2) if positive else (0, 1, 2)
    if tier == "thorough":
        inst = small_instances(2, 2, 2, durs, flexible, limit=400, rng=rng)
        inst += small_instances(3, 2, 3, (1, 3) if positive else (0, 2), flexible, limit=60, rng=rng)
        extra = 150
    else:
        inst = small_instances(2, 2, 2, durs, flexible, limit=60, rng=rng)
        extra = 30
    for _ in range(extra):
        inst.append(random_instance(rng, 3, 3, 3, positive=positive, flexible=flexible))
    bound = {"exhaustive_part": "all shapes <=2 jobs x <=2 ops x <=2 machines, durations %s, every non-empty machine "
                                "subset per operation (sampled to <=%d per shape when larger)" % (
                                    list(durs), 400 if tier == "thorough" else 60),
             "sampled_part": "%d random instances <=3 jobs x <=3 ops x <=3 machines (seed %d)" % (extra, seed),
             "histories": "all accepted dispatch histories of each instance (DFS), capped at %d states per instance"
                          % (4000 if tier == "thorough" else 600)}
    return inst, bound, (4000 if tier == "thorough" else 600)


class ValidDispatchRejected(Exception):
    """a dispatch of a ready operation on an eligible machine raised"""

    def __init__(self, history, step, err):
        super().__init__(f"dispatch #{step + 1} of the valid history {history} raised {type(err).__name__}: "
                         f"{str(err)[:160]}")
        self.history = history


ALL_QUERIES = ["current_time", "available_operations", "raw_ready_operations", "unscheduled_operations",
               "scheduled_operations", "available_machines", "available_jobs", "completed_operations",
               "uncompleted_operations", "ongoing_operations"]


def mk(jobs, model, flt=None, poke=None, prelude=None):
    """real dispatcher brought to the model's state by replaying its history; `poke`
    (optional) is called with the dispatcher before every dispatch to issue queries.
    `prelude` (a random.Random): the dispatcher is a REUSED one -- it first lives through another, random
    episode in which every query is asked after every dispatch, and is then reset (C05/C12: what was asked or
    done before a reset must not show afterwards)"""
    inst = build_instance(jobs)
    d = Dispatcher(inst, ready_operations_filter=flt)
    if prelude is not None:
        other = random_history(jobs, prelude, prelude.randint(1, max(1, sum(len(j) for j in jobs))))
        for (j, m) in other.history:
            d.dispatch(inst.jobs[j][d.job_next_operation_index[j]], m)
            for qn in ALL_QUERIES:
                getattr(d, qn)()
        d.reset()
    for step, (j, m) in enumerate(model.history):
        if poke is not None:
            poke(d, inst)
        op = inst.jobs[j][d.job_next_operation_index[j]]
        try:
            d.dispatch(op, m)
        except Exception as e:  # noqa: BLE001
            raise ValidDispatchRejected(model.history[: step + 1], step, e) from e
    return inst, d


def make_poker(rng):
    """random state queries between dispatches (C02/C05: answers and later start times
    must not depend on what was asked before)"""
    def poke(d, inst):
        for _ in range(rng.randint(0, 3)):
            c = rng.random()
            if c < 0.3:
                d.current_time()
            elif c < 0.5:
                d.available_operations()
            elif c < 0.8:
                ops = d.raw_ready_operations()
                if ops:
                    o = rng.choice(ops)
                    d.start_time(o, rng.choice(o.machines))
                    d.earliest_start_time(o)
            elif c < 0.87:
                # a public query with an argument: the answer for one list must not leak into another
                ops = d.raw_ready_operations()
                if ops:
                    d.min_start_time(rng.sample(ops, rng.randint(1, len(ops))))
            elif c < 0.93:
                d.uncompleted_operations()
                d.ongoing_operations()
            else:
                j = rng.randrange(inst.num_jobs)
                if d.job_next_operation_index[j] < len(inst.jobs[j]):
                    d.next_operation(j)
    return poke


# --------------------------------------------------------------------------- C01
def feasibility_errors(inst, d):
    errs = []
    seen = set()
    per_job = {}
    for m, lst in enumerate(d.schedule.schedule):
        prev_end = None
        for so in lst:
            o = so.operation
            key = (o.job_id, o.position_in_job)
            if key in seen:
                errs.append(f"operation {key} scheduled twice")
            seen.add(key)
            if inst.jobs[o.job_id][o.position_in_job] is not o:
                errs.append(f"foreign operation {key}")
            if so.machine_id != m or m not in o.machines:
                errs.append(f"operation {key} on machine {m} (attr {so.machine_id}), eligible {o.machines}")
            if so.start_time < 0:
                errs.append(f"negative start of {key}")
            if prev_end is not None and so.start_time < prev_end:
                errs.append(f"machine {m}: {key} starts {so.start_time} before previous end {prev_end}")
            prev_end = so.start_time + o.duration
            per_job.setdefault(o.job_id, {})[o.position_in_job] = so
    for j, ops in per_job.items():
        if sorted(ops) != list(range(len(ops))):
            errs.append(f"job {j}: scheduled positions {sorted(ops)} are not a prefix")
        for p in sorted(ops):
            if p - 1 in ops and ops[p - 1].start_time + ops[p - 1].operation.duration > ops[p].start_time:
                errs.append(f"job {j}: operation {p} starts before its predecessor ends")
    return errs


def run_C01(tier, seed):
    res = Result("C01")
    insts, res.bound, cap = scope(tier, seed)
    rng = random.Random(seed)
    for jobs in insts:
        for flt_name in (None, "dominated_operations"):
            flt = FILTERS.get(flt_name)
            for model in histories(jobs, cap, rng):
                res.count("feasible-after-every-step")
                res.case((str(jobs), tuple(model.history)))
                try:
                    inst, d = mk(jobs, model, flt, make_poker(rng) if rng.random() < 0.5 else None)
                except ValidDispatchRejected as e:
                    res.breach("valid-dispatch-accepted", str(e), jobs=jobs, history=e.history, filter=flt_name)
                    continue
                errs = feasibility_errors(inst, d)
                if errs:
                    res.breach("feasible-after-every-step", errs[0], jobs=jobs, history=model.history,
                               filter=flt_name)
                complete = d.schedule.is_complete()
                res.count("complete-iff-all-dispatched")
                if complete != (model.n == model.N):
                    res.breach("complete-iff-all-dispatched",
                               f"is_complete()={complete} after {model.n} of {model.N} dispatches",
                               jobs=jobs, history=model.history, filter=flt_name)
        res.sample({"jobs": jobs})
    return res


# --------------------------------------------------------------------------- C02
def run_C02(tier, seed):
    res = Result("C02")
    insts, res.bound, cap = scope(tier, seed)
    rng = random.Random(seed)
    for jobs in insts:
        for model in histories(jobs, cap, rng):
            res.case((str(jobs), tuple(model.history)))
            try:
                inst, d = mk(jobs, model, FILTERS["dominated_operations"] if rng.random() < 0.3 else None,
                             make_poker(rng) if rng.random() < 0.6 else None)
            except ValidDispatchRejected as e:
                res.breach("valid-dispatch-accepted", str(e), jobs=jobs, history=e.history)
                continue
            real = real_schedule(d)
            want = [[(j, p, s, e, m) for (j, p, s, e) in lst] for m, lst in enumerate(model.sched)]
            res.count("forced-start-times")
            if real != want:
                res.breach("forced-start-times", f"schedule {real} != forced {want}", jobs=jobs,
                           history=model.history)
            res.count("bookkeeping-matches")
            got = (list(d.machine_next_available_time), list(d.job_next_operation_index),
                   list(d.job_next_available_time), d.schedule.num_scheduled_operations, d.schedule.makespan())
            exp = (model.machine_free, model.k, model.job_ready, model.n, model.makespan())
            if got != exp:
                res.breach("bookkeeping-matches", f"tracking {got} != derived {exp}", jobs=jobs,
                           history=model.history)
            if model.n == model.N or rng.random() < 0.1:
                res.count("replay-reproduces")
                h = HistoryObserver(d, subscribe=False)
                d2 = Dispatcher(inst)
                hist = HistoryObserver(d2)
                replay(d2, inst, model.history)
                d3 = Dispatcher(inst)
                replay(d3, inst, model.history[: len(model.history) // 2])
                d3.reset()
                for so in hist.history:
                    d3.dispatch(so.operation, so.machine_id)
                if real_schedule(d2) != real or real_schedule(d3) != real:
                    res.breach("replay-reproduces", "re-dispatching the recorded history gives another schedule",
                               jobs=jobs, history=model.history)
                recorded = [(so.operation.job_id, so.machine_id) for so in hist.history]
                if recorded != model.history:
                    res.breach("history-observer-records-sequence", f"{recorded} != {model.history}", jobs=jobs,
                               history=model.history)
        res.sample({"jobs": jobs})
    return res


# --------------------------------------------------------------------------- C05
def query_spec(jobs, model, flt_fn_on_real=None, inst=None, d=None):
    """independent recomputation of every query from (jobs, history)"""
    ready = model.ready()
    spec = {}
    spec["raw_ready_operations"] = set(ready)
    sched = {(j, p): (s, e) for lst in model.sched for (j, p, s, e) in lst}
    allops = {(j, p) for j, job in enumerate(jobs) for p in range(len(job))}
    spec["scheduled_operations"] = set(sched)
    spec["unscheduled_operations"] = allops - set(sched)
    return spec, sched, allops


def run_C05(tier, seed):
    res = Result("C05")
    insts, res.bound, cap = scope(tier, seed)
    rng = random.Random(seed)
    qnames = ["current_time", "available_operations", "raw_ready_operations", "unscheduled_operations",
              "scheduled_operations", "available_machines", "available_jobs", "completed_operations",
              "uncompleted_operations", "ongoing_operations"]

    def key(o):
        return (o.job_id, o.position_in_job)

    for jobs in insts:
        positive = all(dur > 0 for job in jobs for _, dur in job)
        for flt_name in (None, "dominated_operations", "non_idle_machines"):
            if flt_name and not positive:
                continue
            flt = FILTERS.get(flt_name)
            for model in histories(jobs, cap // 2, rng):
                reused = rng.random() < 0.4
                try:
                    inst, d = mk(jobs, model, flt, prelude=random.Random(rng.random()) if reused else None)
                except ValidDispatchRejected as e:
                    res.breach("valid-dispatch-accepted", str(e), jobs=jobs, history=e.history, filter=flt_name)
                    continue
                res.case((str(jobs), tuple(model.history), flt_name))
                spec, sched, allops = query_spec(jobs, model)
                ready = model.ready()
                # the filter's own correctness is C07; here: available = filter(raw ready) recomputed on a
                # pristine dispatcher in the same state
                _, dref = mk(jobs, model, None)
                raw_ref = [inst.jobs[j][p] for (j, p) in ready]
                if flt is None:
                    avail = list(ready)
                else:
                    raw_on_ref = [dref.instance.jobs[j][p] for (j, p) in ready]
                    avail = [key(o) for o in flt(dref, raw_on_ref)]
                now = model.min_start(avail)
                ongoing = {(j, p) for (j, p), (s, e) in sched.items() if e > now}
                want = {
                    "current_time": now,
                    "available_operations": set(avail),
                    "raw_ready_operations": set(ready),
                    "unscheduled_operations": allops - set(sched),
                    "scheduled_operations": set(sched),
                    "available_machines": {m for (j, p) in avail for m in jobs[j][p][0]},
                    "available_jobs": {j for (j, p) in avail},
                    "completed_operations": set(sched) - ongoing,
                    "uncompleted_operations": (allops - set(sched)) | ongoing,
                    "ongoing_operations": ongoing,
                }
                order = [rng.choice(qnames) for _ in range(rng.randint(3, 14))] + rng.sample(qnames, len(qnames))
                for qn in order:
                    if ready and rng.random() < 0.35:
                        sub = rng.sample(ready, rng.randint(1, len(ready)))
                        res.count("min-start-time-of-a-sub-list")
                        got_ms = d.min_start_time([inst.jobs[j][p] for (j, p) in sub])
                        if got_ms != model.min_start(sub):
                            res.breach("min-start-time-of-a-sub-list", f"min_start_time({sub}) = {got_ms}, recomputation "
                                       f"gives {model.min_start(sub)} (after queries {order})", jobs=jobs,
                                       history=model.history, filter=flt_name)
                            break
                    res.count("query-equals-recomputation")
                    val = getattr(d, qn)()
                    if qn == "current_time":
                        got, dup = val, False
                    elif qn in ("available_machines", "available_jobs"):
                        got, dup = set(val), len(set(val)) != len(list(val))
                    elif qn == "ongoing_operations":
                        got, dup = {key(so.operation) for so in val}, len(val) != len({id(s) for s in val})
                    else:
                        lst = list(val)
                        got, dup = {key(o) for o in lst}, len({key(o) for o in lst}) != len(lst)
                    if got != want[qn] or dup:
                        res.breach(f"query-equals-recomputation:{qn}",
                                   f"{qn}() = {sorted(got) if isinstance(got, set) else got}"
                                   f"{' with duplicates' if dup else ''}, recomputation gives "
                                   f"{sorted(want[qn]) if isinstance(want[qn], set) else want[qn]} "
                                   f"(query sequence issued in this state: {order})"
                                   + (" on a dispatcher REUSED after another episode (all queries asked after every "
                                      "dispatch) and reset()" if reused else ""),
                                   jobs=jobs, history=model.history, filter=flt_name, queries=order, reused=reused)
                        break
                # point queries
                res.count("point-queries")
                for j, job in enumerate(jobs):
                    for p in range(len(job)):
                        o = inst.jobs[j][p]
                        if d.is_scheduled(o) != ((j, p) in sched):
                            res.breach("point-queries:is_scheduled", f"is_scheduled{(j, p)}", jobs=jobs,
                                       history=model.history)
                    if model.k[j] < len(job):
                        o = inst.jobs[j][model.k[j]]
                        if d.next_operation(j) is not o:
                            res.breach("point-queries:next_operation", f"job {j}", jobs=jobs, history=model.history)
                        est = max(min(model.machine_free[m] for m in job[model.k[j]][0]), model.job_ready[j])
                        if d.earliest_start_time(o) != est:
                            res.breach("point-queries:earliest_start_time", f"job {j}: {d.earliest_start_time(o)} != {est}",
                                       jobs=jobs, history=model.history)
                # (per scheduled operation, against the recomputed current time)
                now = want["current_time"]
                for lst in d.schedule.schedule:
                    for so in lst:
                        end = so.start_time + so.operation.duration
                        if d.remaining_duration(so) != end - max(so.start_time, now):
                            res.breach("point-queries:remaining_duration", f"{d.remaining_duration(so)} for an operation "
                                       f"scheduled at [{so.start_time}, {end}) with current time {now}", jobs=jobs,
                                       history=model.history, filter=flt_name)
                        if d.is_ongoing(so) != (so.start_time <= now):
                            res.breach("point-queries:is_ongoing", f"is_ongoing = {d.is_ongoing(so)} for an operation "
                                       f"scheduled at [{so.start_time}, {end}) with current time {now}", jobs=jobs,
                                       history=model.history, filter=flt_name)
                # the observer mirror
                res.count("unscheduled-observer-mirror")
                _, d2 = mk(jobs, Model(jobs), None)
                uo = UnscheduledOperationsObserver(d2)
                replay(d2, d2.instance, model.history)
                got = {key(o) for o in uo.unscheduled_operations}
                per_job_ok = all([key(o) for o in dq] == [(j, p) for p in range(model.k[j], len(jobs[j]))]
                                 for j, dq in enumerate(uo.unscheduled_operations_per_job))
                if got != allops - set(sched) or uo.num_unscheduled_operations != model.N - model.n or not per_job_ok:
                    res.breach("unscheduled-observer-mirror", f"observer lists {sorted(got)}", jobs=jobs,
                               history=model.history)
                elif model.history:
                    # ... and after a reset followed by a second episode (a prefix of the same history)
                    res.count("unscheduled-observer-mirror-after-reset")
                    d2.reset()
                    cut = rng.randint(0, len(model.history))
                    m2 = Model(jobs)
                    for (j, m) in model.history[:cut]:
                        m2.apply(j, m)
                    replay(d2, d2.instance, model.history[:cut])
                    got = [key(o) for o in uo.unscheduled_operations]
                    want_u = [(j, p) for j in range(len(jobs)) for p in range(m2.k[j], len(jobs[j]))]
                    per_job_ok = all([key(o) for o in dq] == [(j, p) for p in range(m2.k[j], len(jobs[j]))]
                                     for j, dq in enumerate(uo.unscheduled_operations_per_job))
                    if sorted(got) != sorted(want_u) or uo.num_unscheduled_operations != m2.N - m2.n or not per_job_ok \
                            or sorted(key(o) for o in d2.unscheduled_operations()) != sorted(want_u):
                        res.breach("unscheduled-observer-mirror-after-reset",
                                   f"after reset and {cut} dispatches the observer lists {sorted(got)}, expected "
                                   f"{sorted(want_u)}", jobs=jobs, history=model.history, second_episode=model.history[:cut])
        res.sample({"jobs": jobs})
    return res


# --------------------------------------------------------------------------- C06
def run_C06(tier, seed):
    res = Result("C06")
    rng = random.Random(seed)
    names = list(FILTERS)
    combos = [()] + [(n,) for n in names] + [c for c in itertools.permutations(names, 2)]
    if tier == "thorough":
        combos += [tuple(names), tuple(reversed(names))]
    for positive in (False, True):
        insts, res.bound, cap = scope(tier, seed, positive=positive)
        for jobs in insts:
            for combo in (combos if positive else [()]):
                flt = create_composite_operation_filter(list(combo)) if combo else None
                # walk random maximal histories step by step on ONE dispatcher per history
                for _ in range(3 if tier == "quick" else 8):
                    inst = build_instance(jobs)
                    d = Dispatcher(inst, ready_operations_filter=flt)
                    dn = Dispatcher(inst)
                    model = Model(jobs)
                    prev_now = d.current_time()
                    prev_done = {id(o) for o in d.completed_operations()}
                    while True:
                        if rng.random() < 0.5:
                            # a client (e.g. a custom rule) asks for the minimum start time of some ready
                            # operations before the clock is read
                            ops = d.raw_ready_operations()
                            if ops:
                                sub = rng.sample(ops, rng.randint(1, len(ops)))
                                res.count("min-start-time-of-a-sub-list")
                                want_ms = model.min_start([(o.job_id, o.position_in_job) for o in sub])
                                if d.min_start_time(sub) != want_ms:
                                    res.breach("min-start-time-of-a-sub-list", "min_start_time of a sub-list of the ready "
                                               f"operations differs from its recomputation {want_ms}", jobs=jobs,
                                               history=model.history, filters=combo)
                        avail = d.available_operations()
                        res.count("now-monotone")
                        res.case((str(jobs), combo, tuple(model.history)))
                        if combo:
                            res.count("filter-keeps-now")
                            if d.current_time() != dn.current_time():
                                res.breach("filter-keeps-now", f"now with {combo} = {d.current_time()} != "
                                           f"{dn.current_time()} without", jobs=jobs, history=model.history,
                                           filters=combo)
                        if not avail:
                            break
                        o = rng.choice(avail)
                        m = rng.choice(o.machines)
                        d.dispatch(o, m)
                        dn.dispatch(dn.instance.jobs[o.job_id][o.position_in_job], m)
                        model.apply(o.job_id, m)
                        now = d.current_time()
                        done = {id(x) for x in d.completed_operations()}
                        if now < prev_now:
                            res.breach("now-monotone", f"current time went back from {prev_now} to {now}", jobs=jobs,
                                       history=model.history, filters=combo)
                        if not prev_done <= done:
                            res.breach("completed-only-grows", "a completed operation is no longer completed",
                                       jobs=jobs, history=model.history, filters=combo)
                        prev_now, prev_done = now, done
                    res.count("complete-now-is-makespan")
                    if model.n == model.N and d.current_time() != model.makespan():
                        res.breach("complete-now-is-makespan", f"{d.current_time()} != {model.makespan()}", jobs=jobs,
                                   history=model.history, filters=combo)
                    if model.n != model.N:
                        res.breach("no-deadlock", "no available operation although the schedule is incomplete",
                                   jobs=jobs, history=model.history, filters=combo)
            res.sample({"jobs": jobs})
    return res


# --------------------------------------------------------------------------- C07
def criterion(name, jobs, model, L):
    """documented criterion of each filter on the list L of ready (j,p), recomputed"""
    t = model.min_start(L)

    def est(j, p):
        return max(min(model.machine_free[m] for m in jobs[j][p][0]), model.job_ready[j])
    if name == "non_idle_machines":
        # an eligible machine with nothing still running at the earliest start time
        def idle(m):
            return all(e <= t for (_, _, _, e) in model.sched[m])
        return [(j, p) for (j, p) in L if any(idle(m) for m in jobs[j][p][0])]
    if name == "non_immediate_operations":
        return [(j, p) for (j, p) in L if est(j, p) == t]
    if name == "non_immediate_machines":
        immediate = {m for (j, p) in L for m in jobs[j][p][0] if model.st(j, m) == t}
        return [(j, p) for (j, p) in L if any(m in immediate for m in jobs[j][p][0])]
    if name == "dominated_operations":
        min_end = {}
        for (j, p) in L:
            for m in jobs[j][p][0]:
                min_end[m] = min(min_end.get(m, float("inf")), model.st(j, m) + jobs[j][p][1])
        return [(j, p) for (j, p) in L if any(model.st(j, m) < min_end[m] for m in jobs[j][p][0])]
    raise KeyError(name)


def run_C07(tier, seed):
    res = Result("C07")
    insts, res.bound, cap = scope(tier, seed)
    rng = random.Random(seed)
    names = list(FILTERS)
    pairs = list(itertools.permutations(names, 2)) + [tuple(names)]
    for jobs in insts:
        for model in histories(jobs, cap // 4, rng):
            try:
                inst, d = mk(jobs, model)
            except ValidDispatchRejected as e:
                res.breach("valid-dispatch-accepted", str(e), jobs=jobs, history=e.history)
                continue
            ready = model.ready()
            subs = [list(c) for r in range(1, len(ready) + 1) for c in itertools.combinations(ready, r)]
            for L in subs:
                ops = [inst.jobs[j][p] for (j, p) in L]
                zero = any(jobs[j][p][1] == 0 for (j, p) in L)
                for name in names:
                    res.count("filter-sound")
                    res.case((str(jobs), tuple(model.history), tuple(L), name))
                    out = FILTERS[name](d, list(ops))
                    got = [(o.job_id, o.position_in_job) for o in out]
                    it = iter(L)
                    sub = all(any(g == x for x in it) for g in got) and len(set(got)) == len(got)
                    if not sub or not got:
                        res.breach(f"filter-sound:{name}", f"{name}({L}) = {got}: not a non-empty sub-list",
                                   jobs=jobs, history=model.history, ops=L, filter=name)
                        continue
                    if name == "dominated_operations" and zero:
                        continue  # documented shortcut: only sub-list + non-empty
                    res.count("filter-criterion")
                    want = criterion(name, jobs, model, L)
                    if got != want:
                        res.breach(f"filter-criterion:{name}", f"{name}({L}) = {got}, criterion gives {want}",
                                   jobs=jobs, history=model.history, ops=L, filter=name)
                if len(L) == len(ready):
                    for combo in pairs:
                        res.count("composition-sound")
                        f = create_composite_operation_filter(list(combo))
                        got = [(o.job_id, o.position_in_job) for o in f(d, list(ops))]
                        exp_ops = list(ops)
                        for n in combo:
                            exp_ops = FILTERS[n](d, exp_ops)
                        exp = [(o.job_id, o.position_in_job) for o in exp_ops]
                        it = iter(L)
                        sub = all(any(g == x for x in it) for g in got) and len(set(got)) == len(got)
                        if not sub or not got or got != exp:
                            res.breach("composition-sound", f"{combo}({L}) = {got} (left-to-right gives {exp})",
                                       jobs=jobs, history=model.history, ops=L, filters=combo)
        res.sample({"jobs": jobs})
    return res


# --------------------------------------------------------------------------- C09
def snapshot(d, observers):
    snap = {
        "schedule": real_schedule(d),
        "ids": [[id(so) for so in lst] for lst in d.schedule.schedule],
        "mnat": list(d.machine_next_available_time),
        "k": list(d.job_next_operation_index),
        "jnat": list(d.job_next_available_time),
        "subs": [id(s) for s in d.subscribers],
        "queries": (d.current_time(), sorted((o.job_id, o.position_in_job) for o in d.available_operations())),
    }
    for name, ob in observers.items():
        if hasattr(ob, "features"):
            snap[name] = {str(k): v.copy().tolist() for k, v in ob.features.items()}
        elif hasattr(ob, "history"):
            snap[name] = [id(x) for x in ob.history]
        elif hasattr(ob, "rewards"):
            snap[name] = (list(ob.rewards), getattr(ob, "current_makespan", None))
        elif hasattr(ob, "unscheduled_operations_per_job"):
            snap[name] = [[id(o) for o in dq] for dq in ob.unscheduled_operations_per_job]
        elif hasattr(ob, "events"):
            snap[name] = list(ob.events)
    return snap


GLOBAL_LOG = []


class Recorder(DispatcherObserver):
    _is_singleton = False

    def __init__(self, dispatcher, *, subscribe=True, tag=""):
        super().__init__(dispatcher, subscribe=subscribe)
        self.events = []
        self.tag = tag

    def update(self, scheduled_operation):
        d = self.dispatcher
        o = scheduled_operation.operation
        seen_in_schedule = (d.schedule.schedule[scheduled_operation.machine_id] and
                            d.schedule.schedule[scheduled_operation.machine_id][-1] is scheduled_operation)
        k_ok = d.job_next_operation_index[o.job_id] == o.position_in_job + 1
        q_ok = (d.is_scheduled(o) and not any(x is o for x in d.unscheduled_operations())
                and any(x is o for x in d.scheduled_operations()))
        t_ok = (d.machine_next_available_time[scheduled_operation.machine_id] == scheduled_operation.end_time
                and d.job_next_available_time[o.job_id] == scheduled_operation.end_time)
        self.events.append(("update", o.job_id, o.position_in_job, scheduled_operation.machine_id,
                            bool(seen_in_schedule and k_ok and q_ok and t_ok)))
        GLOBAL_LOG.append(self.tag)

    def reset(self):
        d = self.dispatcher
        empty = all(not lst for lst in d.schedule.schedule) and not any(d.job_next_operation_index)
        self.events.append(("reset", bool(empty)))
        GLOBAL_LOG.append(self.tag)


def attach_observers(d, with_features=True):
    from job_shop_lib.reinforcement_learning import MakespanReward, IdleTimeReward
    obs = {"history": HistoryObserver(d), "unscheduled": UnscheduledOperationsObserver(d),
           "makespan_reward": MakespanReward(d), "idle_reward": IdleTimeReward(d), "recorder": Recorder(d)}
    if with_features:
        from job_shop_lib.dispatching.feature_observers import (DurationObserver, IsReadyObserver,
                                                                IsScheduledObserver, PositionInJobObserver,
                                                                RemainingOperationsObserver, IsCompletedObserver)
        for cls in (DurationObserver, IsReadyObserver, IsScheduledObserver, PositionInJobObserver,
                    RemainingOperationsObserver, IsCompletedObserver):
            try:
                obs[cls.__name__] = cls(d)
            except Exception:  # constructibility is C11's business
                pass
    return obs


def invalid_requests(jobs, model):
    """requests the property says must be rejected: (job, pos, machine or None, why)"""
    M = model.M
    out = []
    for j, job in enumerate(jobs):
        for p, (ms, _) in enumerate(job):
            if p != model.k[j]:
                out.append((j, p, ms[0], "not the next operation of its job"))
            else:
                for m in list(range(M)) + [M, M + 3, -1, -M - 1]:
                    if m not in ms:
                        out.append((j, p, m, "machine not eligible / out of range"))
                if len(ms) > 1:
                    out.append((j, p, None, "no machine given for a flexible operation"))
    return out


def run_C09(tier, seed):
    res = Result("C09")
    insts, res.bound, cap = scope(tier, seed)
    rng = random.Random(seed)
    for jobs in insts:
        for model in histories(jobs, cap // 6, rng):
            inst = build_instance(jobs)
            d = Dispatcher(inst)
            obs = attach_observers(d, with_features=not any(len(ms) > 1 for job in jobs for ms, _ in job))
            replay(d, inst, model.history)
            reqs = invalid_requests(jobs, model)
            if len(reqs) > 12:
                reqs = rng.sample(reqs, 12)
            for (j, p, m, why) in reqs:
                res.count("rejected-request-changes-nothing")
                res.case((str(jobs), tuple(model.history), (j, p, m)))
                before = snapshot(d, obs)
                raised = None
                try:
                    d.dispatch(inst.jobs[j][p], m)
                except Exception as e:  # noqa: BLE001
                    raised = type(e).__name__
                after = snapshot(d, obs)
                if raised is None:
                    res.breach("invalid-request-raises", f"dispatch(job {j} op {p}, machine {m}) accepted: {why}",
                               jobs=jobs, history=model.history, request=(j, p, m))
                    # state is now off the model: rebuild
                    d = Dispatcher(inst)
                    obs = attach_observers(d, with_features=False)
                    replay(d, inst, model.history)
                    continue
                if before != after:
                    diff = [k for k in before if before[k] != after.get(k)]
                    res.breach("rejected-request-changes-nothing",
                               f"dispatch(job {j} op {p}, machine {m}) raised {raised} but changed {diff}",
                               jobs=jobs, history=model.history, request=(j, p, m))
            # finished job: next_operation raises and changes nothing
            for j in range(len(jobs)):
                if model.k[j] == len(jobs[j]):
                    res.count("next-operation-of-finished-job-raises")
                    before = snapshot(d, obs)
                    try:
                        d.next_operation(j)
                        res.breach("next-operation-of-finished-job-raises", f"job {j}", jobs=jobs,
                                   history=model.history)
                    except Exception:  # noqa: BLE001
                        pass
                    if snapshot(d, obs) != before:
                        res.breach("rejected-request-changes-nothing", "next_operation changed state", jobs=jobs,
                                   history=model.history)
            # subsequent valid requests behave as if the rejected ones had never been made
            moves = model.legal()
            if moves:
                res.count("valid-request-after-rejection")
                jm = rng.choice(moves)
                nxt = model.copy()
                nxt.apply(*jm)
                d.dispatch(inst.jobs[jm[0]][model.k[jm[0]]], jm[1])
                want = [[(a, b, s, e, mm) for (a, b, s, e) in lst] for mm, lst in enumerate(nxt.sched)]
                if real_schedule(d) != want:
                    res.breach("valid-request-after-rejection", "schedule differs from the one without the rejected "
                               "requests", jobs=jobs, history=nxt.history)
        if all(dur > 0 for job in jobs for _, dur in job):
            env_part_C09(res, jobs, rng)
        res.sample({"jobs": jobs})
    return res


def env_part_C09(res, jobs, rng):
    """invalid environment steps (finished job, ineligible / out-of-range machine) injected
    between valid ones: raise, change nothing, later steps unaffected"""
    import numpy as np
    from job_shop_lib.dispatching import DispatcherObserverConfig
    from job_shop_lib.dispatching.feature_observers import FeatureObserverType
    from job_shop_lib.graphs import build_agent_task_graph
    from job_shop_lib.reinforcement_learning import SingleJobShopGraphEnv
    inst = build_instance(jobs)
    try:
        env = SingleJobShopGraphEnv(build_agent_task_graph(inst),
                                    [DispatcherObserverConfig(FeatureObserverType.IS_READY, kwargs={}),
                                     DispatcherObserverConfig(FeatureObserverType.DURATION, kwargs={})],
                                    ready_operations_filter=None)
        env.reset()
    except Exception as e:  # noqa: BLE001  (constructibility belongs to C18)
        res.notes.append(f"env not constructible: {type(e).__name__}")
        return
    model = Model(jobs)

    def state():
        obs = env.get_observation()
        return (real_schedule(env.dispatcher), list(env.dispatcher.job_next_operation_index),
                list(env.reward_function.rewards), list(env.job_shop_graph.removed_nodes),
                {k: np.nan_to_num(np.asarray(v, dtype=float), nan=-7.0).tolist() for k, v in obs.items()})
    while True:
        bad = []
        M = model.M
        for j, job in enumerate(jobs):
            if model.k[j] == len(job):
                bad.append((j, -1))
                bad.append((j, 0))
            else:
                ms = job[model.k[j]][0]
                bad += [(j, m) for m in list(range(M)) + [M, M + 2] if m not in ms]
                if len(ms) > 1:
                    bad.append((j, -1))
        for a in (rng.sample(bad, 3) if len(bad) > 3 else bad):
            res.count("rejected-env-step-changes-nothing")
            res.case((str(jobs), tuple(model.history), a, "env"))
            before = state()
            try:
                env.step(a)
                res.breach("invalid-env-step-raises", f"step{a} accepted", jobs=jobs, history=model.history, action=a)
                return
            except Exception:  # noqa: BLE001
                pass
            if state() != before:
                res.breach("rejected-env-step-changes-nothing", f"step{a} raised but changed the environment", jobs=jobs,
                           history=model.history, action=a)
                return
        legal = model.legal()
        if not legal:
            break
        j, m = rng.choice(legal)
        res.count("valid-env-step-after-rejection")
        try:
            env.step((j, m))
        except Exception as e:  # noqa: BLE001
            res.breach("valid-env-step-after-rejection", f"valid step ({j}, {m}) raised {type(e).__name__} after rejected "
                       "steps", jobs=jobs, history=model.history + [(j, m)])
            return
        model.apply(j, m)
        want = [[(a_, b_, s_, e_, mm) for (a_, b_, s_, e_) in lst] for mm, lst in enumerate(model.sched)]
        if real_schedule(env.dispatcher) != want:
            res.breach("valid-env-step-after-rejection", "schedule differs from the one without the rejected steps",
                       jobs=jobs, history=model.history)
            return


# --------------------------------------------------------------------------- C10
def run_C10(tier, seed):
    res = Result("C10")
    insts, res.bound, cap = scope(tier, seed)
    rng = random.Random(seed)
    from job_shop_lib.exceptions import ValidationError
    for jobs in insts:
        for _ in range(4 if tier == "quick" else 12):
            inst = build_instance(jobs)
            d = Dispatcher(inst)
            model = Model(jobs)
            recs = [Recorder(d, tag="a"), Recorder(d, tag="b")]
            hist = HistoryObserver(d)
            recs += [Recorder(d, tag="c"), Recorder(d, tag="d")]
            sub_order = ["a", "b", "c", "d"]   # subscription order of the recorders, maintained by this harness
            expected = {id(r): [] for r in recs}
            subscribed = {id(r): True for r in recs}
            dispatched = []
            outsider = Recorder(d, subscribe=False, tag="never")
            steps = 0
            while steps < 3 * model.N + 4:
                steps += 1
                c = rng.random()
                res.count("event")
                if c < 0.55 and model.legal():
                    j, m = rng.choice(model.legal())
                    del GLOBAL_LOG[:]
                    d.dispatch(inst.jobs[j][model.k[j]], m)
                    if GLOBAL_LOG != sub_order:
                        res.breach("notified-in-subscription-order", f"dispatch notified {GLOBAL_LOG}, subscription order "
                                   f"is {sub_order}", jobs=jobs, history=model.history)
                    jj, p, s, e = model.apply(j, m)
                    dispatched.append((jj, p, m))
                    for r in recs:
                        if subscribed[id(r)]:
                            expected[id(r)].append(("update", jj, p, m, True))
                elif c < 0.65:
                    # rejected dispatch notifies nobody
                    bad = [(j, p) for j, job in enumerate(jobs) for p in range(len(job)) if p != model.k[j]]
                    if bad:
                        j, p = rng.choice(bad)
                        try:
                            d.dispatch(inst.jobs[j][p], jobs[j][p][0][0])
                            res.breach("rejected-dispatch-notifies-nobody", "accepted", jobs=jobs,
                                       history=model.history)
                        except Exception:  # noqa: BLE001
                            pass
                elif c < 0.75:
                    r = rng.choice(recs)
                    if subscribed[id(r)]:
                        d.unsubscribe(r)
                        subscribed[id(r)] = False
                        sub_order.remove(r.tag)
                    else:
                        d.subscribe(r)
                        subscribed[id(r)] = True
                        sub_order.append(r.tag)
                elif c < 0.82:
                    del GLOBAL_LOG[:]
                    d.reset()
                    if GLOBAL_LOG != sub_order:
                        res.breach("notified-in-subscription-order", f"reset notified {GLOBAL_LOG}, subscription order is "
                                   f"{sub_order}", jobs=jobs, history=model.history)
                    model.reset()
                    dispatched = []
                    for s_ in d.subscribers:
                        if id(s_) in expected:
                            expected[id(s_)].append(("reset", True))
                res.case((str(jobs), tuple(model.history), steps))
                for r in recs:
                    if r.events != expected[id(r)]:
                        res.breach("observer-sees-each-dispatch-once-in-order-post-state",
                                   f"observer {r.tag} saw {r.events[-3:]}, expected {expected[id(r)][-3:]}",
                                   jobs=jobs, history=model.history)
                        expected[id(r)] = list(r.events)
                if outsider.events:
                    res.breach("non-subscribed-observer-receives-nothing", str(outsider.events[:2]), jobs=jobs,
                               history=model.history)
                got = [(so.operation.job_id, so.operation.position_in_job, so.machine_id) for so in hist.history]
                if got != dispatched:
                    res.breach("history-observer-equals-dispatch-sequence", f"{got} != {dispatched}", jobs=jobs,
                               history=model.history)
            # subscription order
            res.count("subscription-order")
            order = []

            class Ord(DispatcherObserver):
                _is_singleton = False

                def __init__(self, dd, n):
                    super().__init__(dd)
                    self.n = n

                def update(self, so):
                    order.append(self.n)

                def reset(self):
                    order.append(-self.n)
            d2 = Dispatcher(inst)
            for n in (1, 2, 3):
                Ord(d2, n)
            j, m = Model(jobs).legal()[0]
            d2.dispatch(inst.jobs[j][0], m)
            d2.reset()
            if order != [1, 2, 3, -1, -2, -3]:
                res.breach("subscription-order", f"notification order {order}", jobs=jobs, history=[(j, m)])
            # singleton + create_or_get
            res.count("singleton-and-create-or-get")
            try:
                HistoryObserver(d)
                res.breach("singleton-not-subscribed-twice", "second HistoryObserver accepted", jobs=jobs, history=[])
            except ValidationError:
                pass
            if [type(s).__name__ for s in d.subscribers].count("HistoryObserver") != 1:
                res.breach("singleton-not-subscribed-twice", "rejected constructor left a subscriber behind", jobs=jobs,
                           history=[])
            if d.create_or_get_observer(HistoryObserver) is not hist:
                res.breach("create-or-get-returns-subscribed", "a new HistoryObserver was created", jobs=jobs,
                           history=[])
            got = d.create_or_get_observer(Recorder, condition=lambda o: getattr(o, "tag", None) == "b")
            want = recs[1] if subscribed[id(recs[1])] else None
            if want is not None and got is not want:
                res.breach("create-or-get-returns-subscribed", "condition ignored", jobs=jobs, history=[])
        res.sample({"jobs": jobs})
    return res


# --------------------------------------------------------------------------- C13
def run_C13(tier, seed):
    from job_shop_lib.reinforcement_learning import MakespanReward, IdleTimeReward
    res = Result("C13")
    insts, res.bound, cap = scope(tier, seed)
    res.bound["histories"] = ("random maximal and partial histories; each dispatcher is reset and re-used for a second "
                              "history (rewards must add up in every episode)")
    rng = random.Random(seed)
    for jobs in insts:
        for _ in range(4 if tier == "quick" else 12):
            inst = build_instance(jobs)
            d = Dispatcher(inst)
            mk_r, idle_r = MakespanReward(d), IdleTimeReward(d)
            for episode in range(2):
                model = Model(jobs)
                stop_after = model.N if episode == 1 or rng.random() < 0.5 else rng.randint(0, model.N)
                broken = False
                while model.legal() and model.n < stop_after:
                    j, m = rng.choice(model.legal())
                    d.dispatch(inst.jobs[j][model.k[j]], m)
                    model.apply(j, m)
                    res.count("rewards-add-up")
                    res.case((str(jobs), episode, tuple(model.history)))
                    idle = sum(model.machine_free[mm] - sum(e - s for (_, _, s, e) in model.sched[mm])
                               for mm in range(model.M))
                    ok = (len(mk_r.rewards) == model.n and len(idle_r.rewards) == model.n
                          and sum(mk_r.rewards) == -model.makespan() and sum(idle_r.rewards) == -idle
                          and all(r <= 0 for r in mk_r.rewards) and all(r <= 0 for r in idle_r.rewards)
                          and mk_r.last_reward == mk_r.rewards[-1] and idle_r.last_reward == idle_r.rewards[-1])
                    if not ok:
                        res.breach("rewards-add-up", f"episode {episode + 1}: makespan rewards {mk_r.rewards} (makespan "
                                   f"{model.makespan()}), idle rewards {idle_r.rewards} (idle {idle})", jobs=jobs,
                                   history=model.history, episode=episode)
                        broken = True
                        break
                if broken:
                    break
                d.reset()
                res.count("rewards-empty-after-reset")
                if mk_r.rewards or idle_r.rewards or mk_r.last_reward != 0:
                    res.breach("rewards-empty-after-reset", f"{mk_r.rewards} {idle_r.rewards}", jobs=jobs,
                               history=model.history)
        res.sample({"jobs": jobs})
    return res
