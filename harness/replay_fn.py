"""Rebuilds the objects of a decoded counterexample (fields set directly, no constructor)
and calls the REAL function on them.  stdin: JSON request; stdout: JSON result."""
import importlib
import json
import sys

CLASS_MODULES = ["job_shop_lib", "job_shop_lib.dispatching", "job_shop_lib.dispatching.rules",
                 "job_shop_lib.reinforcement_learning", "job_shop_lib.generation", "job_shop_lib.graphs"]


def find_class(name):
    for m in CLASS_MODULES:
        try:
            mod = importlib.import_module(m)
        except Exception:  # noqa: BLE001
            continue
        if hasattr(mod, name):
            return getattr(mod, name)
    raise KeyError(name)


def module_of_file(relpath):
    return relpath[:-3].replace("/", ".")


class Builder:
    def __init__(self, cex):
        self.cex = cex
        self.objs = {}
        self.lists = {}

    def build(self, v):
        if isinstance(v, dict):
            if "$ref" in v:
                return self.obj(v["$ref"])
            if "$list" in v:
                return self.lst(v["$list"])
            if "$tuple" in v:
                return tuple(self.build(x) for x in v["$tuple"])
        return v

    def obj(self, key):
        if key in self.objs:
            return self.objs[key]
        data = self.cex["objects"][key]
        cls = find_class(data["$class"])
        o = object.__new__(cls)
        self.objs[key] = o
        for f, fv in data.items():
            if f.startswith("$"):
                continue
            try:
                setattr(o, f, self.build(fv))
            except AttributeError:
                object.__setattr__(o, f, self.build(fv))
        return o

    def lst(self, key):
        if key in self.lists:
            return self.lists[key]
        out = []
        self.lists[key] = out
        for x in self.cex["lists"][key]:
            out.append(self.build(x))
        return out


def main():
    req = json.loads(sys.stdin.read())
    b = Builder(req["cex"])
    args = {k: b.build(v) for k, v in req["cex"]["args"].items()}
    qual = req["qualname"]
    kind = req["kind"]
    try:
        if "." in qual and qual.split(".")[0][0].isupper():
            cname, meth = qual.split(".")[0], qual.split(".")[1]
            cls = find_class(cname)
            names = list(args)
            if kind in ("property", "cached_property"):
                res = getattr(args[names[0]], meth)
            elif kind == "staticmethod":
                res = getattr(cls, meth)(*[args[n] for n in names])
            else:
                res = getattr(cls, meth)(*[args[n] for n in names])
        else:
            mod = importlib.import_module(module_of_file(req["file"]))
            res = getattr(mod, qual)(*[args[n] for n in args])
        out = {"status": "returned", "repr": repr(res)[:300]}
        if isinstance(res, bool):
            out["bool"] = res
        elif isinstance(res, int):
            out["int"] = res
    except Exception as e:  # noqa: BLE001
        out = {"status": "raised", "exception": type(e).__name__, "message": str(e)[:200]}
    print(json.dumps(out))


if __name__ == "__main__":
    main()
