"""Tier-B (bounded) run-time contracts for C16 (graph builders) and C17 (residual graph)."""
from __future__ import annotations

import itertools
import random

import networkx as nx

from .common import Model, Result, build_instance, histories, random_history, random_instance, replay, small_instances

from job_shop_lib.dispatching import Dispatcher  # noqa: E402
from job_shop_lib.graphs import (build_disjunctive_graph, build_solved_disjunctive_graph, build_agent_task_graph,  # noqa: E402
                                 build_complete_agent_task_graph, build_agent_task_graph_with_jobs, NodeType, EdgeType)
from job_shop_lib.graphs.graph_updaters import ResidualGraphUpdater  # noqa: E402

BUILDERS = {
    "disjunctive": build_disjunctive_graph,
    "agent_task": build_agent_task_graph,
    "agent_task_with_jobs": build_agent_task_graph_with_jobs,
    "complete_agent_task": build_complete_agent_task_graph,
}


def spec_graph(name, jobs):
    """(node list [(type, attr)], edge map {(u, v): type or None}) by definition"""
    ops = [(j, p) for j, job in enumerate(jobs) for p in range(len(job))]
    oid = {jp: i for i, jp in enumerate(ops)}
    N = len(ops)
    M = 1 + max(m for job in jobs for ms, _ in job for m in ms)
    J = len(jobs)
    nodes = [("OPERATION", jp) for jp in ops]
    E = {}

    def both(u, v, t=None):
        E[(u, v)] = t
        E[(v, u)] = t
    if name == "disjunctive":
        for m in range(M):
            on_m = [oid[(j, p)] for (j, p) in ops if m in jobs[j][p][0]]
            for a, b in itertools.combinations(on_m, 2):
                both(a, b, "DISJUNCTIVE")
        for j, job in enumerate(jobs):
            for p in range(1, len(job)):
                E[(oid[(j, p - 1)], oid[(j, p)])] = "CONJUNCTIVE"
        nodes += [("SOURCE", None), ("SINK", None)]
        src, snk = N, N + 1
        for j, job in enumerate(jobs):
            E[(src, oid[(j, 0)])] = "CONJUNCTIVE"
            E[(oid[(j, len(job) - 1)], snk)] = "CONJUNCTIVE"
        return nodes, E
    nodes += [("MACHINE", m) for m in range(M)]
    mnode = {m: N + m for m in range(M)}
    for (j, p) in ops:
        for m in jobs[j][p][0]:
            both(mnode[m], oid[(j, p)])
    if name == "agent_task":
        for a, b in itertools.combinations(range(M), 2):
            both(mnode[a], mnode[b])
        for j, job in enumerate(jobs):
            for a, b in itertools.combinations(range(len(job)), 2):
                both(oid[(j, a)], oid[(j, b)])
        return nodes, E
    nodes += [("JOB", j) for j in range(J)]
    jnode = {j: N + M + j for j in range(J)}
    for (j, p) in ops:
        both(jnode[j], oid[(j, p)])
    if name == "agent_task_with_jobs":
        for a, b in itertools.combinations(range(M), 2):
            both(mnode[a], mnode[b])
        for a, b in itertools.combinations(range(J), 2):
            both(jnode[a], jnode[b])
        return nodes, E
    nodes.append(("GLOBAL", None))
    g = N + M + J
    for m in range(M):
        both(g, mnode[m])
    for j in range(J):
        both(g, jnode[j])
    return nodes, E


def real_graph(graph):
    nodes = []
    for n in graph.nodes:
        t = n.node_type.name
        if t == "OPERATION":
            attr = (n.operation.job_id, n.operation.position_in_job)
        elif t == "MACHINE":
            attr = n.machine_id
        elif t == "JOB":
            attr = n.job_id
        else:
            attr = None
        nodes.append((t, attr, n.node_id))
    E = {}
    for u, v, data in graph.graph.edges(data=True):
        t = data.get("type")
        E[(u, v)] = t.name if t is not None else None
    return nodes, E


def run_C16(tier, seed):
    res = Result("C16")
    rng = random.Random(seed)
    insts = small_instances(2, 2, 2, (1, 2), True, limit=25 if tier == "quick" else 120, rng=rng)
    for _ in range(40 if tier == "quick" else 300):
        insts.append(random_instance(rng, 4, 4, 4, durations=(1, 2, 5), flexible=rng.random() < 0.5))
    res.bound = {"instances": "%d instances (<=2x2x2 sampled + random <=4x4x4; flexible, recirculation, ragged, unused "
                              "machine ids), 4 builders; solved graphs for random dispatcher-built schedules and random "
                              "feasible non-dispatcher schedules (right-shifted), seed %d" % (len(insts), seed)}
    retained = []   # graphs built earlier, re-examined after graphs of OTHER instances have been built

    def intact(g, name, jobs):
        want_nodes, want_E = spec_graph(name, jobs)
        got_nodes, got_E = real_graph(g)
        return ([(t, a) for t, a, _ in got_nodes] == want_nodes
                and [i for _, _, i in got_nodes] == list(range(len(want_nodes)))
                and sorted(g.graph.nodes) == list(range(len(want_nodes))) and got_E == want_E)

    for jobs in insts:
        inst = build_instance(jobs)
        if retained:
            res.count("graph-unaffected-by-later-builds")
            for (name0, jobs0, g0) in retained[-3:]:
                if not intact(g0, name0, jobs0):
                    res.breach(f"graph-unaffected-by-later-builds:{name0}", "a graph that equalled its definition when it was "
                               "built no longer does after graphs of other instances were built (shared node objects?)",
                               jobs=jobs0, builder=name0, later_instance=jobs)
                    retained = []
                    break
        for name, builder in BUILDERS.items():
            res.count("graph-equals-definition")
            res.case((str(jobs), name))
            try:
                g = builder(inst)
            except Exception as e:  # noqa: BLE001
                res.breach(f"graph-equals-definition:{name}", f"builder raised {type(e).__name__}: {str(e)[:100]}",
                           jobs=jobs, builder=name)
                continue
            want_nodes, want_E = spec_graph(name, jobs)
            got_nodes, got_E = real_graph(g)
            ok_nodes = ([(t, a) for t, a, _ in got_nodes] == want_nodes
                        and [i for _, _, i in got_nodes] == list(range(len(want_nodes)))
                        and sorted(g.graph.nodes) == list(range(len(want_nodes))))
            if not ok_nodes:
                res.breach(f"graph-nodes:{name}", f"nodes {got_nodes[:8]}... expected {want_nodes[:8]}...", jobs=jobs,
                           builder=name)
            if got_E != want_E:
                extra = sorted(set(got_E) - set(want_E))[:4]
                missing = sorted(set(want_E) - set(got_E))[:4]
                typed = [(e, got_E[e], want_E[e]) for e in got_E if e in want_E and got_E[e] != want_E[e]][:4]
                res.breach(f"graph-edges:{name}", f"extra {extra}, missing {missing}, wrongly typed {typed}", jobs=jobs,
                           builder=name)
            elif ok_nodes and rng.random() < 0.5:
                retained.append((name, jobs, g))
                del retained[:-6]
        # solved disjunctive graph
        if all(len(ms) == 1 for job in jobs for ms, _ in job):
            for k in range(2):
                res.count("solved-graph-critical-path")
                model = random_history(jobs, rng)
                d = Dispatcher(inst)
                replay(d, inst, model.history)
                sched = d.schedule
                dispatcher_built = True
                if k == 1:
                    # a feasible but not left-shifted schedule: delay everything by shifting starts
                    from job_shop_lib import Schedule, ScheduledOperation
                    delay = {}
                    lists = []
                    for lst in sched.schedule:
                        lists.append([ScheduledOperation(so.operation, 2 * so.start_time + 1, so.machine_id)
                                      for so in lst])
                    # doubling starts (+1) keeps every order constraint when durations >= 1 are also "doubled"?  no:
                    # keep it simple and sound: shift ALL operations by the same constant
                    lists = [[ScheduledOperation(so.operation, so.start_time + 3, so.machine_id) for so in lst]
                             for lst in sched.schedule]
                    sched = Schedule(inst, lists)
                    dispatcher_built = False
                g = build_solved_disjunctive_graph(sched)
                G = g.graph
                if not nx.is_directed_acyclic_graph(G):
                    res.breach("solved-graph-acyclic", "cycle in the solved disjunctive graph", jobs=jobs,
                               history=model.history)
                    continue
                dur = {n.node_id: (n.operation.duration if n.node_type == NodeType.OPERATION else 0) for n in g.nodes}
                best = {}
                for v in nx.topological_sort(G):
                    preds = [best[u] for u in G.predecessors(v)]
                    best[v] = dur[v] + (max(preds) if preds else 0)
                sink = [n.node_id for n in g.nodes if n.node_type == NodeType.SINK][0]
                lp = best[sink]
                ms = sched.makespan()
                if lp > ms or (dispatcher_built and lp != ms):
                    res.breach("solved-graph-critical-path", f"longest path {lp}, makespan {ms} "
                               f"({'dispatcher-built' if dispatcher_built else 'shifted'})", jobs=jobs,
                               history=model.history)
        res.sample({"jobs": jobs})
    return res


# --------------------------------------------------------------------------- C17
def run_C17(tier, seed):
    res = Result("C17")
    rng = random.Random(seed)
    insts = small_instances(2, 2, 2, (1, 2), False, limit=14 if tier == "quick" else 80, rng=rng)
    insts += small_instances(2, 2, 2, (1, 2), True, limit=6 if tier == "quick" else 40, rng=rng)
    for _ in range(18 if tier == "quick" else 150):
        insts.append(random_instance(rng, 3, 3, 3, positive=True, flexible=rng.random() < 0.5))
    cap = 120 if tier == "quick" else 1500
    options = [(True, True), (True, False), (False, True), (False, False)]
    res.bound = {"instances": "%d instances (flexible and not) with positive durations (<=2x2x2 sampled + random <=3x3x3, seed "
                              "%d)" % (len(insts), seed),
                 "histories": "DFS over dispatch histories capped at %d states per (instance, builder, options); one "
                              "dispatcher per path, invariants after every dispatch" % cap,
                 "configurations": "4 builders x 4 (remove machine nodes, remove job nodes) options"}
    for jobs in insts:
        M = 1 + max(m for job in jobs for ms, _ in job for m in ms)
        every_machine_used = all(any(m in ms for job in jobs for ms, _ in job) for m in range(M))
        for name, builder in BUILDERS.items():
            for (rm, rj) in (options if tier == "thorough" else options[:1] + [rng.choice(options[1:])]):
                # walk several random maximal histories step by step
                for walk in range(3 if tier == "quick" else 10):
                  inst = build_instance(jobs)
                  d = Dispatcher(inst)
                  g = builder(inst)
                  upd = ResidualGraphUpdater(d, g, remove_completed_machine_nodes=rm,
                                             remove_completed_job_nodes=rj)
                  # every third walk goes on after a reset: "every history" includes second and third episodes on the
                  # same dispatcher, updater and graph (the first of them possibly cut short)
                  episodes = [None] if walk % 3 else [rng.randint(1, sum(len(j) for j in jobs)), None, None]
                  failed = False
                  for ep, cut in enumerate(episodes):
                    if failed:
                        break
                    if ep:
                        d.reset()
                    model = Model(jobs)
                    prev_removed = set()
                    while model.legal() and (cut is None or model.n < cut):
                        j, m = rng.choice(model.legal())
                        d.dispatch(inst.jobs[j][model.k[j]], m)
                        model.apply(j, m)
                        res.count("residual-graph-invariants")
                        res.case((str(jobs), name, rm, rj, tuple(model.history)))
                        graph = upd.job_shop_graph
                        removed = {i for i, r in enumerate(graph.removed_nodes) if r}
                        sched = {(jj, pp): (s, e) for lst in model.sched for (jj, pp, s, e) in lst}
                        now = d.current_time()
                        completed = {jp for jp, (s, e) in sched.items() if e <= now}
                        problems = []
                        for n in graph.nodes:
                            if n.node_type == NodeType.OPERATION:
                                jp = (n.operation.job_id, n.operation.position_in_job)
                                if jp in completed and n.node_id not in removed:
                                    problems.append(f"completed operation {jp} still in the graph")
                                if jp not in sched and n.node_id in removed:
                                    problems.append(f"unscheduled operation {jp} removed")
                            elif n.node_type == NodeType.MACHINE and n.node_id in removed:
                                if any(n.machine_id in ms and (jj, pp) not in sched
                                       for jj, job in enumerate(jobs) for pp, (ms, _) in enumerate(job)):
                                    problems.append(f"machine node {n.machine_id} removed with unscheduled operations")
                            elif n.node_type == NodeType.JOB and n.node_id in removed:
                                if model.k[n.job_id] < len(jobs[n.job_id]):
                                    problems.append(f"job node {n.job_id} removed with unscheduled operations")
                        if not prev_removed <= removed:
                            problems.append("a removed node came back")
                        live = set(graph.graph.nodes)
                        if live & removed or live | removed != set(range(len(graph.nodes))):
                            problems.append("removed_nodes flags disagree with the networkx graph")
                        for u, v in graph.graph.edges:
                            if u in removed or v in removed:
                                problems.append(f"edge {(u, v)} touches a removed node")
                                break
                        prev_removed = removed
                        if model.n == model.N and rm and rj and every_machine_used and len(removed) != len(graph.nodes):
                            left = [(n.node_type.name, n.node_id) for n in graph.nodes if n.node_id not in removed]
                            problems.append(f"schedule complete but nodes remain: {left[:5]}")
                        if problems:
                            res.breach("residual-graph-invariants", f"{name} rm={rm} rj={rj}: {problems[0]}"
                                       + (f" (episode {ep + 1} on the same dispatcher, after reset)" if ep else ""),
                                       jobs=jobs, history=model.history, builder=name, options=(rm, rj), episode=ep + 1)
                            failed = True
                            break
        res.sample({"jobs": jobs})
    return res
