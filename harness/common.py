"""Bounded stand-in (tier B): shared enumerators and the independent model.

Runs under /venv/bin/python against the real job_shop_lib.  Everything here is a
*bounded* check: exhaustive over the stated small scope plus a seeded sample of larger
cases; results are never counted as proved.
"""
from __future__ import annotations

import itertools
import json
import os
import random
import sys
import time

REPO = os.environ.get("PYVC_REPO", "/repo")
if REPO not in sys.path:
    sys.path.insert(0, REPO)

from job_shop_lib import JobShopInstance, Operation  # noqa: E402
from job_shop_lib.dispatching import Dispatcher  # noqa: E402


# --------------------------------------------------------------------------
# instances as plain data: jobs = [[(machines tuple, duration), ...], ...]
# --------------------------------------------------------------------------
def build_instance(jobs, name="I"):
    return JobShopInstance(
        [[Operation(list(ms) if len(ms) > 1 else ms[0], d) for ms, d in job] for job in jobs], name=name)


def build_instance_lists(jobs, name="I"):
    """same but machines always passed as a list (single-element lists included)"""
    return JobShopInstance([[Operation(list(ms), d) for ms, d in job] for job in jobs], name=name)


def instance_data(instance):
    return [[(tuple(o.machines), o.duration) for o in job] for job in instance.jobs]


def small_instances(max_jobs, max_ops, max_machines, durations, flexible=True, limit=None, rng=None):
    """all instances with <= max_jobs jobs, <= max_ops operations per job, machine ids
    < max_machines, durations from `durations`; operations have one machine or (if
    flexible) any non-empty subset of machines.  Ragged jobs, recirculation and unused
    machine ids are all included.  If `limit` is given a seeded sample is returned."""
    machine_sets = []
    for r in range(1, (max_machines if flexible else 1) + 1):
        machine_sets.extend(itertools.combinations(range(max_machines), r))
    op_choices = [(ms, d) for ms in machine_sets for d in durations]
    shapes = []
    for nj in range(1, max_jobs + 1):
        shapes.extend(itertools.product(range(1, max_ops + 1), repeat=nj))
    out = []
    for shape in shapes:
        n = sum(shape)
        total = len(op_choices) ** n
        if limit is not None and total > limit:
            r = rng or random.Random(0)
            picks = [[r.choice(op_choices) for _ in range(n)] for _ in range(limit)]
        else:
            picks = itertools.product(op_choices, repeat=n)
        for pick in picks:
            it = iter(pick)
            out.append([[next(it) for _ in range(L)] for L in shape])
    return out


def random_instance(rng, max_jobs=4, max_ops=4, max_machines=3, durations=(0, 1, 2, 3, 5), flexible=True,
                    positive=False):
    nj = rng.randint(1, max_jobs)
    jobs = []
    durs = [d for d in durations if d > 0] if positive else list(durations)
    for _ in range(nj):
        job = []
        for _ in range(rng.randint(1, max_ops)):
            if flexible and rng.random() < 0.4:
                k = rng.randint(1, max_machines)
                # the eligible machines are a list: ascending in half of the cases, in a random order otherwise
                ms = rng.sample(range(max_machines), k)
                ms = tuple(sorted(ms)) if rng.random() < 0.5 else tuple(ms)
            else:
                ms = (rng.randrange(max_machines),)
            job.append((ms, rng.choice(durs)))
        jobs.append(job)
    return jobs


# --------------------------------------------------------------------------
# independent model of dispatching: a pure function of (jobs, history)
# --------------------------------------------------------------------------
class Model:
    """history = [(job, machine), ...]; every entry dispatches the next operation of
    `job` on `machine`.  Start = max(job ready, machine free)."""

    def __init__(self, jobs):
        self.jobs = jobs
        self.M = 1 + max(m for job in jobs for ms, _ in job for m in ms)
        self.reset()

    def reset(self):
        self.k = [0] * len(self.jobs)
        self.job_ready = [0] * len(self.jobs)
        self.machine_free = [0] * self.M
        self.sched = [[] for _ in range(self.M)]  # (job, pos, start, end)
        self.history = []

    def legal(self):
        out = []
        for j, job in enumerate(self.jobs):
            if self.k[j] < len(job):
                for m in job[self.k[j]][0]:
                    out.append((j, m))
        return out

    def apply(self, j, m):
        p = self.k[j]
        ms, d = self.jobs[j][p]
        assert m in ms
        start = max(self.job_ready[j], self.machine_free[m])
        end = start + d
        self.sched[m].append((j, p, start, end))
        self.k[j] += 1
        self.job_ready[j] = end
        self.machine_free[m] = end
        self.history.append((j, m))
        return (j, p, start, end)

    def copy(self):
        c = Model.__new__(Model)
        c.jobs, c.M = self.jobs, self.M
        c.k = list(self.k)
        c.job_ready = list(self.job_ready)
        c.machine_free = list(self.machine_free)
        c.sched = [list(s) for s in self.sched]
        c.history = list(self.history)
        return c

    @property
    def n(self):
        return sum(self.k)

    @property
    def N(self):
        return sum(len(j) for j in self.jobs)

    def makespan(self):
        return max([e for s in self.sched for (_, _, _, e) in s], default=0)

    def st(self, j, m):
        return max(self.job_ready[j], self.machine_free[m])

    def ready(self):
        return [(j, self.k[j]) for j in range(len(self.jobs)) if self.k[j] < len(self.jobs[j])]

    def min_start(self, ops):
        """ops: [(j, p)] with p == k[j]"""
        if not ops:
            return self.makespan()
        return min(self.st(j, m) for (j, p) in ops for m in self.jobs[j][p][0])


def real_schedule(dispatcher):
    """(job, pos, start, end, machine attr) per machine list, read from the real objects"""
    out = []
    for lst in dispatcher.schedule.schedule:
        out.append([(so.operation.job_id, so.operation.position_in_job, so.start_time,
                     so.start_time + so.operation.duration, so.machine_id) for so in lst])
    return out


def replay(dispatcher, instance, history):
    for j, m in history:
        op = instance.jobs[j][dispatcher.job_next_operation_index[j]]
        dispatcher.dispatch(op, m)


def histories(jobs, max_states=None, rng=None):
    """DFS over all accepted histories; yields Model states (each prefix once per path).
    If max_states is given the DFS is cut by random pruning (seeded)."""
    count = [0]

    def rec(model):
        yield model
        count[0] += 1
        if max_states is not None and count[0] >= max_states:
            return
        moves = model.legal()
        if rng is not None and max_states is not None and len(moves) > 2:
            moves = rng.sample(moves, 2)
        for j, m in moves:
            nxt = model.copy()
            nxt.apply(j, m)
            yield from rec(nxt)
            if max_states is not None and count[0] >= max_states:
                return

    yield from rec(Model(jobs))


def random_history(jobs, rng, length=None):
    model = Model(jobs)
    steps = model.N if length is None else length
    for _ in range(steps):
        moves = model.legal()
        if not moves:
            break
        model.apply(*rng.choice(moves))
    return model


class Result:
    """What one tier-B run of one property reports."""

    def __init__(self, prop):
        self.prop = prop
        self.evaluations = 0
        self.distinct = set()
        self.breaches = []
        self.samples = []
        self.bound = {}
        self.exhaustive = False
        self.notes = []
        self.t0 = time.time()
        self.checks = {}

    def count(self, check, n=1):
        self.checks[check] = self.checks.get(check, 0) + n
        self.evaluations += n

    def case(self, key):
        self.distinct.add(key)

    def breach(self, check, what, **replay):
        # keep the first few breaches per check (identified by `check`)
        same = [b for b in self.breaches if b["check"] == check]
        if len(same) < 3:
            self.breaches.append({"check": check, "what": what, "replay": replay})

    def sample(self, s):
        if len(self.samples) < 3:
            self.samples.append(s)

    def to_json(self):
        return {
            "property": self.prop, "evaluations": self.evaluations, "distinct_nontrivial": len(self.distinct),
            "breaches": self.breaches, "samples": self.samples, "bound": self.bound,
            "exhaustive": self.exhaustive, "notes": self.notes, "checks": self.checks,
            "wall_s": round(time.time() - self.t0, 2),
        }


def jsonable(x):
    return json.loads(json.dumps(x, default=str))
