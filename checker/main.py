"""./check <Cxx> [--tier quick|thorough]  -- decide one property on /repo's current tree.

1. deductive part (python3-vt, this process): the property's functions under contract
   and lemmas are verified by pyvc from the current source text; obligations are
   discharged by z3, then cvc5;
2. bounded part (subprocess under /venv/bin/python): the property's run-time contracts
   over the enumerated small scope on the real code (tier B) -- decides what the verifier
   cannot reach, decides functions that drifted out of the subset, and supplies the
   concrete failing input for a failed obligation;
3. verdict, known findings, evidence file, exit code.

exit 0: held on everything explored (KNOWN-FINDING lines allowed)
exit 1: at least one `VIOLATION property=<id> replay=<path>` line
exit 3: the checker itself is broken (lost obligation, engine error, harness crash)
"""
from __future__ import annotations

import argparse
import json
import os
import subprocess
import sys
import time

HERE = os.path.dirname(os.path.abspath(__file__))
ROOT = os.path.dirname(HERE)
sys.path.insert(0, ROOT)

VENV_PY = os.environ.get("VERIF_VENV_PY", "/venv/bin/python")


def load_known():
    p = os.path.join(ROOT, "known_findings.json")
    if not os.path.exists(p):
        return []
    with open(p) as f:
        return json.load(f).get("findings", [])


def load_lock():
    p = os.path.join(ROOT, "contracts", "OBLIGATIONS.lock")
    if not os.path.exists(p):
        return {}
    with open(p) as f:
        return json.load(f)


def matches(finding, violation):
    m = finding.get("match", {})
    if finding.get("status") != "finding":
        return False
    if "check" in m and violation.get("check") != m["check"]:
        return False
    if "check_prefix" in m and not str(violation.get("check", "")).startswith(m["check_prefix"]):
        return False
    if "obligation" in m and violation.get("obligation") != m["obligation"]:
        return False
    if "what_contains" in m and m["what_contains"] not in violation.get("what", ""):
        return False
    return bool(m)


def scan_assumptions():
    """mechanical scan (every run) for facts the verifier ASSUMES without proof: tagged `assume(...)` calls in the trusted
    library contracts and in ghost code of the sidecar contracts, abstract / trusted contract classes"""
    import glob
    import re
    tags, abstract = {}, []
    for path in sorted(glob.glob(os.path.join(ROOT, "contracts", "*.py")) + [os.path.join(ROOT, "pyvc", "library.py"),
                                                                             os.path.join(ROOT, "pyvc", "builtins.py")]):
        txt = open(path, encoding="utf-8").read()
        rel = os.path.relpath(path, ROOT)
        for m in re.finditer(r'"((?:trusted|definition|ghost|prophecy|assumed)[:-][^"]*)"', txt):
            tags.setdefault(m.group(1), set()).add(rel)
        for m in re.finditer(r"class (\w+)\([^)]*\):(?:(?!\nclass ).)*?\n    (?:abstract|trusted) = True", txt, re.S):
            abstract.append(f"{rel}:{m.group(1)}")
    return {"tagged_assumptions": {k: sorted(v) for k, v in sorted(tags.items())},
            "abstract_or_trusted_contract_classes": sorted(set(abstract)),
            "note": "`trusted:` = meaning of an external library call; `definition:` = conservative definition of a ghost / "
                    "Skolem symbol; `ghost:` = ghost witness update; `prophecy:` = prophecy variable resolution; `assumed:` = "
                    "pre-condition that is not established by a verified caller"}


def run_tierb(prop, tier, seed, timeout):
    out = os.path.join(ROOT, ".scratch", f"tierb-{prop}-{os.getpid()}.json")
    os.makedirs(os.path.dirname(out), exist_ok=True)
    env = dict(os.environ)
    env["PYTHONPATH"] = ROOT + os.pathsep + os.environ.get("PYVC_REPO", "/repo")
    env.setdefault("MPLBACKEND", "Agg")
    try:
        subprocess.run([VENV_PY, "-m", "harness.tierb", prop, "--tier", tier, "--seed", str(seed), "--out", out],
                       cwd=ROOT, env=env, timeout=timeout, check=False, capture_output=True)
        with open(out) as f:
            res = json.load(f)
    except subprocess.TimeoutExpired:
        res = {"status": "error", "message": f"tier-B harness timed out after {timeout}s"}
    except Exception as e:  # noqa: BLE001
        res = {"status": "error", "message": f"tier-B harness did not produce a result: {e}"}
    finally:
        if os.path.exists(out):
            os.unlink(out)
    return res


def check_property(prop, tier, seed, jobs=None, write=True):
    from contracts.props import PROPS
    from pyvc.run import run_items
    t0 = time.time()
    cfg = PROPS[prop]
    lines = []
    status = {"error": [], "violations": [], "known": []}

    # ---------------------------------------------------------------- deductive part
    items = ["fn:" + f for f in cfg.get("functions", [])] + ["lemma:" + l for l in cfg.get("lemmas", [])]
    timeout_ms = None
    reps = run_items(items, jobs, timeout_ms) if items else []
    lock_all = load_lock()
    lock = lock_all.get(prop, [])
    locked_hashes = lock_all.get("$hashes", {})
    seen_keys = set()
    n_ob = n_proved = 0
    by_solver = {}
    solver_s = 0.0
    refuted, unknown, drift = [], [], []
    fn_rows = []
    for r in reps:
        fn_rows.append({"item": r["item"], "status": r["status"], "file": r["file"], "line": r["line"],
                        "source_hash": r["source_hash"], "paths": r["paths"], "obligations": len(r["obligations"]),
                        "cover": r["cover"], "canary": r["canary"], "seconds": r["seconds"],
                        "message": r["message"].splitlines()[0] if r["message"] else ""})
        if r["status"] == "error" and r["kind"] == "fn" and r.get("source_hash") and \
                locked_hashes.get(r["name"]) not in (None, r["source_hash"]):
            # the verifier failed on a function whose source differs from the one the sidecar was
            # written for: the sidecar does not apply any more -> drift (decided by the bounded twin)
            r["status"] = "drift"
            r["message"] = "drift: source changed and the verifier could not process it: " + r["message"].splitlines()[0]
        if r["status"] == "error":
            status["error"].append(f"{r['item']}: {r['message']}")
        elif r["status"] == "drift":
            drift.append(r)
        for o in r["obligations"]:
            n_ob += 1
            seen_keys.add(o["key"])
            solver_s += o["seconds"]
            if o["status"] == "proved":
                n_proved += 1
                by_solver[o["solver"]] = by_solver.get(o["solver"], 0) + 1
            elif o["status"] == "refuted":
                refuted.append((r, o))
            else:
                unknown.append((r, o))
    drifted_items = {r["name"] for r in drift}
    lost = [k for k in lock if k not in seen_keys and not any(k.startswith(n + ":") for n in drifted_items)]
    # obligations that live on an exceptional path exist only while the quick feasibility test cannot rule the path out
    # (400 ms, e-matching only): when the path is pruned as infeasible -- a stronger result -- they are not generated
    lost = [k for k in lost if not any(t in k for t in (":raises-only-when:", ":exc-unchanged:", ":exc-ensures:"))]
    # an obligation that is no longer generated because the function's SOURCE changed (e.g. a statement whose frame it
    # was has been deleted) means the sidecar was written for other code: drift, decided by the bounded twin.  Only an
    # obligation lost on unchanged source is a checker error.
    changed_src = {r["name"] for r in reps if r["kind"] == "fn" and r.get("source_hash")
                   and locked_hashes.get(r["name"]) not in (None, r["source_hash"])}
    lost_by_change = [k for k in lost if any(k.startswith(n + ":") for n in changed_src)]
    if lost_by_change:
        lost = [k for k in lost if k not in lost_by_change]
        for n in sorted({n for n in changed_src if any(k.startswith(n + ":") for k in lost_by_change)}):
            r = next(x for x in reps if x["name"] == n)
            if r["status"] == "ok":
                r["status"] = "drift"
                r["message"] = ("drift: the source of the function changed and obligations of its sidecar are no longer "
                                "generated: " + ", ".join(k for k in lost_by_change if k.startswith(n + ":"))[:300])
                drift.append(r)
    if lost and not status["error"]:
        status["error"].append(f"{len(lost)} obligations named in OBLIGATIONS.lock were not generated: {lost[:5]}")

    # ------------------------------------------------------------------ bounded part
    tb = None
    if cfg.get("tierb"):
        tb = run_tierb(prop, tier, seed, cfg.get("tierb_timeout", 900 if tier == "quick" else 7200))
        if tb.get("status") != "ok":
            status["error"].append(f"tier-B: {tb.get('message')}\n{tb.get('traceback', '')}")

    # ----------------------------------------------------------------------- verdict
    known = [k for k in load_known() if k.get("property") == prop]
    os.makedirs(os.path.join(ROOT, "replays"), exist_ok=True)
    violations = []
    concrete = (tb or {}).get("breaches", []) if tb and tb.get("status") == "ok" else []
    for b in concrete:
        violations.append({"kind": "bounded-contract-breach", "check": b["check"], "what": b["what"],
                           "replay": b["replay"], "input_found": True})
    for r, o in refuted:
        confirmed = o.get("confirmed") is True
        what = (f"obligation {o['name']} of {r['item']} refuted by {o['solver']} ({r['file']}:{o['line']})")
        if o.get("reason"):
            what += "; " + str(o["reason"])[:200]
        if confirmed:
            what += (f"; counterexample replayed on the real code: it "
                     f"{'returned ' + str(o['real_code'].get('repr')) if o['real_code'].get('status') == 'returned' else 'raised ' + str(o['real_code'].get('exception'))}"
                     f" on the decoded input, which breaks the clause")
        violations.append({"kind": "failed-obligation", "obligation": o["key"], "check": "obligation:" + o["key"],
                           "what": what, "solver_output": o["model"],
                           "counterexample": o.get("counterexample"), "real_code": o.get("real_code"),
                           "replayed_on_real_code": confirmed,
                           "input_found": bool(concrete) or confirmed,
                           "explained_by": concrete[0]["check"] if concrete and not confirmed else None})
    shown = 0
    for v in violations:
        kf = next((k for k in known if matches(k, v)), None)
        if kf is not None:
            status["known"].append((kf, v))
            continue
        if v["kind"] == "failed-obligation" and v["input_found"] and not v.get("replayed_on_real_code"):
            # the concrete breach found by the bounded run is the replay of this failure
            v["note"] = "failing input: see the bounded-contract-breach violation " + str(v["explained_by"])
        status["violations"].append(v)
    # a failed obligation whose only concrete witnesses are known findings is itself known
    for kf in {id(k): k for k, _ in status["known"]}.values():
        lines.append(f"KNOWN-FINDING: property={prop} {kf.get('id', '')} {kf.get('what', '')}")
    exit_code = 0
    for idx, v in enumerate(status["violations"]):
        path = os.path.join("replays", f"{prop}-{idx}-{v['check'].replace('/', '_').replace(':', '_')[:80]}.json")
        with open(os.path.join(ROOT, path), "w") as f:
            json.dump({"property": prop, "tier": tier, "seed": seed, **v,
                       "replay_cmd": f"./check replay {path}"}, f, indent=1, default=str)
        suffix = "" if v["input_found"] else " no-failing-input-found"
        if shown < 10:
            lines.append(f"VIOLATION property={prop} replay={path}{suffix}")
            lines.append(f"  {v['what'][:300]}")
        shown += 1
        exit_code = 1
    if status["error"]:
        exit_code = 3 if exit_code == 0 else exit_code
        for e in status["error"]:
            lines.append("CHECKER-ERROR: " + e.splitlines()[0])

    # ---------------------------------------------------------------------- evidence
    degraded = bool(drift or unknown)
    level = cfg["level"]
    if level == "proof" and (degraded or n_ob == 0):
        ev_level = "exploration" if tb and tb.get("status") == "ok" and tb.get("evaluations", 0) > 0 else "other"
    else:
        ev_level = level
    samples = []
    for r in reps[:3]:
        for o in r["obligations"][:1]:
            samples.append({"obligation": o["name"], "function": r["item"], "file": r["file"], "line": o["line"],
                            "status": o["status"], "solver": o["solver"], "seconds": o["seconds"]})
    if tb and tb.get("samples"):
        samples.extend({"bounded_case": s} for s in tb["samples"][:2])
    coverage = {
        "assume_scan": scan_assumptions(),
        "obligations": n_ob, "discharged": n_proved, "refuted": len(refuted), "undecided": len(unknown),
        "checker_cmd": f"./check {prop} --tier {tier}  (pyvc over /repo's current sources; z3 "
                       f"{os.environ.get('PYVC_Z3_TIMEOUT_MS', '10000')} ms then /usr/bin/cvc5 "
                       f"{os.environ.get('PYVC_CVC5_TIMEOUT_MS', '20000')} ms per obligation)",
        "trusted_base": cfg.get("trusted", []) + ["z3 5.1.0 / cvc5 1.0.3 (an `unsat` is believed)",
                                                  "pyvc itself (symbolic executor, ~3 kloc; canaries and mutants as guard)"],
        "functions_under_contract": fn_rows,
        "discharged_by": by_solver, "solver_seconds": round(solver_s, 2),
        "drifted_functions": [r["item"] + ": " + r["message"] for r in drift],
        "undecided_obligations": [o["name"] for _, o in unknown][:20],
        "lock_size": len(lock), "lost_obligations": lost[:20],
        "samples": samples or [{"note": "no obligation generated"}],
        "exhaustive": False,
    }
    if tb and tb.get("status") == "ok":
        coverage["bounded"] = {k: tb.get(k) for k in ("evaluations", "distinct_nontrivial", "bound", "exhaustive",
                                                      "checks", "wall_s", "notes")}
        coverage["evaluations"] = tb.get("evaluations", 0)
        coverage["distinct_nontrivial"] = tb.get("distinct_nontrivial", 0)
        coverage["rule"] = ("bounded stand-in (never counted as proved): run-time contracts on the real code over "
                            "the enumerated scope in `bounded.bound`; a case is one (instance, history prefix"
                            "[, request / query order / filter]) tuple, counted once")
    else:
        coverage["evaluations"] = n_ob
        coverage["distinct_nontrivial"] = len(seen_keys)
        coverage["rule"] = "one case = one distinct named obligation"
    if ev_level == "other":
        coverage["explanation"] = "deductive part degraded (drift or undecided obligations) and no bounded twin ran"
    ev = {
        "property_id": prop, "tier": tier, "seed": seed, "level": ev_level, "coverage": coverage,
        "assumptions": cfg.get("assumptions", []) + [
            "python integers are mathematical integers (exact for int)",
            "no concurrency, no re-entrant observers, clients do not write the private attributes "
            "(ownership scan is syntactic)",
        ],
        "wall_s": round(time.time() - t0, 2),
        "violations": len(status["violations"]),
        "known_findings": [k.get("id") for k, _ in status["known"]],
        "degraded": degraded,
        "claimed_level": level,
    }
    if write:
        os.makedirs(os.path.join(ROOT, "evidence"), exist_ok=True)
        with open(os.path.join(ROOT, "evidence", f"{prop}.json"), "w") as f:
            json.dump(ev, f, indent=1, default=str)
    return exit_code, lines, ev, reps


def cmd_lock(args):
    """regenerate contracts/OBLIGATIONS.lock from the current tree (developer command;
    never run by a check)"""
    from contracts.props import PROPS
    from pyvc.run import run_items
    lock = {"$hashes": {}}
    for prop, cfg in sorted(PROPS.items()):
        items = ["fn:" + f for f in cfg.get("functions", [])] + ["lemma:" + l for l in cfg.get("lemmas", [])]
        if not items:
            continue
        reps = run_items(items)
        keys = set()
        for r in reps:
            if r["status"] != "ok":
                print("NOT LOCKING", prop, r["item"], r["status"], r["message"].splitlines()[0])
            if r["kind"] == "fn" and r.get("source_hash"):
                lock["$hashes"][r["name"]] = r["source_hash"]
            for o in r["obligations"]:
                if o["status"] == "proved":
                    keys.add(o["key"])
                else:
                    print("not proved (left out of the lock):", prop, o["name"], o["status"])
        lock[prop] = sorted(keys)
        print(prop, len(keys), "obligations")
    with open(os.path.join(ROOT, "contracts", "OBLIGATIONS.lock"), "w") as f:
        json.dump(lock, f, indent=0, sort_keys=True)


def cmd_replay(path):
    with open(os.path.join(ROOT, path) if not os.path.isabs(path) else path) as f:
        v = json.load(f)
    print(json.dumps({k: v[k] for k in v if k != "solver_output"}, indent=1)[:4000])
    if v.get("kind") == "bounded-contract-breach":
        env = dict(os.environ)
        env["PYTHONPATH"] = ROOT + os.pathsep + os.environ.get("PYVC_REPO", "/repo")
        return subprocess.call([VENV_PY, "-m", "harness.replay", os.path.abspath(os.path.join(ROOT, path))], cwd=ROOT,
                               env=env)
    print("solver output:\n" + str(v.get("solver_output", ""))[:3000])
    return 0


def main(argv=None):
    ap = argparse.ArgumentParser()
    ap.add_argument("what")
    ap.add_argument("arg", nargs="?")
    ap.add_argument("--tier", default=os.environ.get("VERIF_TIER", "quick"))
    ap.add_argument("--seed", type=int, default=int(os.environ.get("VERIF_SEED", "0") or 0))
    ap.add_argument("-j", type=int, default=None)
    a = ap.parse_args(argv)
    if a.what == "lock":
        return cmd_lock(a)
    if a.what == "replay":
        return cmd_replay(a.arg)
    if a.what == "selftest":
        # soundness probes of the verifier: wrong contracts on tiny functions must not verify
        import subprocess
        return subprocess.call([sys.executable, os.path.join(ROOT, "tools", "unsound_probe.py")])
    code, lines, ev, _ = check_property(a.what, a.tier, a.seed, a.j)
    for ln in lines:
        print(ln)
    c = ev["coverage"]
    print(f"{a.what} [{a.tier}] level={ev['level']} obligations={c['obligations']} discharged={c['discharged']} "
          f"refuted={c['refuted']} undecided={c['undecided']} bounded_evaluations="
          f"{(c.get('bounded') or {}).get('evaluations')} wall={ev['wall_s']}s exit={code}")
    return code


if __name__ == "__main__":
    sys.exit(main())
