#!/bin/bash
# tools/sweep.sh <tier> <seeds...> : every claimed check on the unchanged tree for several seeds; prints only problems
cd "$(dirname "$0")/.."
TIER=$1; shift
for s in "$@"; do
  for p in $(python3 -c "import json;print(' '.join(c['property_id'] for c in json.load(open('MANIFEST.json'))['checks']))"); do
    out=$(VERIF_SEED=$s ./check $p --tier $TIER 2>&1); code=$?
    echo "seed=$s $p exit=$code $(echo "$out" | tail -1)"
    if [ $code -ne 0 ]; then echo "$out" | head -20; fi
  done
done
