#!/bin/bash
# tools/seed_eval.sh <seed-dir> [props...]  : apply seeded/<id>/patch.diff to /repo, run the quick checks of the given
# properties (default: the property named in meta.json), restore /repo.  Never commits anything in /repo.
set -u
SEED=$1; shift
cd /verif
if ! git -C /repo diff --quiet; then echo "/repo has uncommitted changes, refusing"; exit 2; fi
PROPS="$@"
if [ -z "$PROPS" ]; then PROPS=$(python3 -c "import json;print(json.load(open('$SEED/meta.json'))['property'])"); fi
EVBAK=$(mktemp -d /tmp/evbak.XXXX); cp -r evidence/. $EVBAK/ 2>/dev/null   # evidence of the clean tree is restored afterwards
git -C /repo apply "$(realpath $SEED/patch.diff)" || { echo "PATCH DOES NOT APPLY"; rm -rf $EVBAK; exit 2; }
for p in $PROPS; do
  echo "--- $p on seed $(basename $SEED)"
  ./check $p --tier quick 2>&1 | grep -v "^  " | cut -c1-260 | tail -8
done
git -C /repo checkout -- .
cp -r $EVBAK/. evidence/ 2>/dev/null; rm -rf $EVBAK
