"""runs the whole deductive suite N times and lists the obligations that were ever slow (> T s) or not proved:
these are the candidates for a more guided proof (unstable queries are the ones that later fail for no reason)"""
import collections, re, subprocess, sys
n = int(sys.argv[1]) if len(sys.argv) > 1 else 3
T = float(sys.argv[2]) if len(sys.argv) > 2 else 2.0
worst = collections.defaultdict(list)
for i in range(n):
    out = subprocess.run(["python3-vt", "-m", "pyvc.run", "-v"], capture_output=True, text=True, cwd="/verif").stdout
    for line in out.splitlines():
        m = re.match(r"\s+(proved|unknown|refuted)\s+(\S+)\s+([\d.]+)s\s+(\S+)", line)
        if m:
            worst[m.group(4)].append((m.group(1), m.group(2), float(m.group(3))))
    print(out.splitlines()[-1], flush=True)
for k, v in sorted(worst.items(), key=lambda kv: -max(x[2] for x in kv[1])):
    if max(x[2] for x in v) > T or any(x[0] != "proved" for x in v):
        print(f"{max(x[2] for x in v):7.2f}  {[ (a[:3], b, c) for a, b, c in v]}  {k}")
