#!/bin/bash
# tools/seed_validate.sh <seed-dir>: on a scratch copy of /repo HEAD (outside /repo and /verif): the test-suite passes
# with the patch, demo.py fails with the patch and passes without it.
d=$(realpath $1)
V=$(mktemp -d /tmp/seedval.XXXX)
git -C /repo archive HEAD | tar -x -C $V
cd $V
MPLBACKEND=Agg PYTHONPATH=$V timeout 600 /venv/bin/python $d/demo.py >/dev/null 2>&1; a=$?
patch -p1 -s < $d/patch.diff || { echo "$(basename $d): PATCH DOES NOT APPLY"; rm -rf $V; exit 2; }
MPLBACKEND=Agg PYTHONPATH=$V timeout 900 /venv/bin/python $d/demo.py >/dev/null 2>&1; b=$?
t=$(PYTHONPATH=$V /venv/bin/python -m pytest -q -p no:cacheprovider -x 2>&1 | tail -1)
echo "$(basename $d): demo without patch exit=$a, with patch exit=$b, tests with patch: $t"
rm -rf $V
