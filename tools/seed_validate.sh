#!/bin/bash
# usage: tools/seed_validate.sh <dir with patch.diff and demo.py>
# On a scratch worktree of /repo HEAD (outside /repo and /verif, removed afterwards): the demonstration passes without
# the patch, fails with it, and the repository's test-suite still passes with it.
set -u
d=$(realpath "$1")
wt=$(mktemp -d /tmp/seedval.XXXXXX)
git -C /repo worktree add -q --detach "$wt" HEAD || exit 2
trap 'git -C /repo worktree remove --force "$wt" >/dev/null 2>&1; rm -rf "$wt"' EXIT
cd "$wt"
PYTHONPATH="$wt" MPLBACKEND=Agg timeout 900 /venv/bin/python "$d/demo.py" >/dev/null 2>&1; clean=$?
git apply "$d/patch.diff" || { echo "RESULT $1 patch-does-not-apply"; exit 2; }
PYTHONPATH="$wt" MPLBACKEND=Agg timeout 900 /venv/bin/python "$d/demo.py" >/dev/null 2>&1; mutated=$?
tests=$(PYTHONPATH="$wt" /venv/bin/python -m pytest -q -p no:cacheprovider --timeout=900 2>&1 | tail -1)
find "$wt" -name __pycache__ -prune -exec rm -rf {} + 2>/dev/null
echo "RESULT $1 demo_without_patch=$clean demo_with_patch=$mutated tests_with_patch=[$tests]"
