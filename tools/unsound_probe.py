"""Soundness probes of pyvc: small functions (contracts/probe_src.py) with contracts that are FALSE for the
real semantics must not verify (some obligation refuted or undecided), and their TRUE twins must verify.
Exit 0 iff every probe behaves; run by hand and by `./check selftest`."""
import os
import sys

sys.path.insert(0, os.path.join(os.path.dirname(os.path.abspath(__file__)), ".."))
os.environ.setdefault("PYTHONHASHSEED", "0")
import z3  # noqa: E402

from pyvc import run  # noqa: E402
from pyvc.engine import Contract, Frame, LoopSpec  # noqa: E402
from pyvc.values import INT, LIST, forall  # noqa: E402
from contracts.spec import bv, imp, rng  # noqa: E402

HERE = os.path.dirname(os.path.abspath(__file__))
PROBES = []


def probe(expect):
    def deco(cls):
        PROBES.append((cls(), expect))
        return cls
    return deco


def rows_wf(h, R):
    j = bv("j")
    return [("rows", z3.And(R > 0, R < h.alloc, forall([j], imp(rng(j, 0, h.len(R)), z3.And(
        h.at(R, j) > 0, h.at(R, j) < h.alloc, h.at(R, j) != R, h.len(h.at(R, j)) >= 1)), patterns=[h.at(R, j)])))]


class _Rows(Contract):
    ret = LIST(INT)

    def requires(self, c):
        return rows_wf(c.h0, c["rows"])

    def modifies(self, c):
        return Frame(alloc_lists=True)


@probe("fails")
class InnerMaxAllEqual(_Rows):
    """WRONG: all entries of [max(row) for row in rows] are equal (true only if the inner result did not
    depend on the comprehension index)"""
    name = "probe_inner_max$allequal"
    source = "probe_inner_max"

    def ensures(self, c):
        h, R = c.h, c.result
        return [("all-equal", imp(h.len(R) >= 2, h.at(R, 0) == h.at(R, 1)))]


@probe("verifies")
class InnerMaxRight(_Rows):
    name = "probe_inner_max"

    def ensures(self, c):
        h, R, rows = c.h, c.result, c["rows"]
        j, p = bv("j"), bv("p")
        return [("row-maxima", forall([j], imp(rng(j, 0, c.h0.len(rows)), forall(
            [p], imp(rng(p, 0, c.h0.len(c.h0.at(rows, j))), c.h0.at(c.h0.at(rows, j), p) <= h.at(R, j)))),
            patterns=[h.at(R, j)]))]


@probe("fails")
class InnerSumAllEqual(_Rows):
    name = "probe_inner_sum$allequal"
    source = "probe_inner_sum"

    def ensures(self, c):
        h, R = c.h, c.result
        return [("all-equal", imp(h.len(R) >= 2, h.at(R, 0) == h.at(R, 1)))]


class _Xs(Contract):
    def requires(self, c):
        return [("xs", z3.And(c["xs"] > 0, c["xs"] < c.h0.alloc))]


@probe("fails")
class AliasUnchanged(_Xs):
    """WRONG: appending through an alias leaves the argument's length unchanged"""
    name = "probe_alias"
    ret = LIST(INT)

    def modifies(self, c):
        return Frame(lists=[c["xs"]])

    def ensures(self, c):
        return [("length-unchanged", c.h.len(c["xs"]) == c.h0.len(c["xs"]))]


@probe("verifies")
class SliceFresh(_Xs):
    name = "probe_slice_fresh"
    ret = LIST(INT)

    def modifies(self, c):
        return Frame(alloc_lists=True)

    def ensures(self, c):
        return [("length-unchanged", c.h.len(c["xs"]) == c.h0.len(c["xs"]))]


@probe("fails")
class SliceFrameTooSmall(_Xs):
    """WRONG frame: the function allocates but declares no allocation and an unchanged heap is not claimed --
    here the post-condition claims the copy's append changed the argument"""
    name = "probe_slice_fresh$wrong"
    source = "probe_slice_fresh"
    ret = LIST(INT)

    def modifies(self, c):
        return Frame(alloc_lists=True)

    def ensures(self, c):
        return [("length-grew", c.h.len(c["xs"]) == c.h0.len(c["xs"]) + 1)]


@probe("fails")
class LoopSumNoInvariantStrength(_Xs):
    """WRONG: the sum of a list is non-negative (no sign assumption on the elements)"""
    name = "probe_loop_sum"
    ret = INT
    pure = True

    def ensures(self, c):
        return [("non-negative", c.result >= 0)]

    @property
    def loops(self):
        return {0: LoopSpec("for x in xs", lambda k: [("non-negative-so-far", k.v("total") >= 0)])}


@probe("fails")
class OffByOne(_Xs):
    """WRONG invariant range: claims the maximum over ALL elements although the loop starts at 1 and the
    invariant forgets element 0 only if mis-stated; here the post-condition claims strictness"""
    name = "probe_off_by_one"
    ret = INT
    pure = True

    def requires(self, c):
        return _Xs.requires(self, c) + [("non-empty", c.h0.len(c["xs"]) >= 1)]

    def ensures(self, c):
        h, xs = c.h0, c["xs"]
        q = bv("q")
        return [("strict-maximum", forall([q], imp(z3.And(rng(q, 0, h.len(xs)), q != c.result),
                                                   h.at(xs, q) < h.at(xs, c.result))))]

    @property
    def loops(self):
        def inv(k):
            h, xs = k.h0, k["xs"]
            q = bv("q")
            b = k.v("best")
            return [("best-so-far", z3.And(rng(b, 0, h.len(xs)), forall(
                [q], imp(rng(q, 0, k.i + 1), h.at(xs, q) <= h.at(xs, b)))))]
        return {0: LoopSpec("for i in range(1, len(xs))", inv)}


@probe("fails")
class EmptyMaxNeverRaises(_Xs):
    """WRONG: max of a generator over a possibly empty list never raises (no `raises` clause)"""
    name = "probe_empty_max"
    ret = INT
    pure = True

    def ensures(self, c):
        return []


@probe("fails")
class MatrixRowsShared(Contract):
    """WRONG: the rows of a matrix comprehension are one and the same list"""
    name = "probe_matrix"
    ret = LIST(LIST(INT))

    def requires(self, c):
        return rows_wf(c.h0, c["rows"])

    def modifies(self, c):
        return Frame(alloc_lists=True)

    def ensures(self, c):
        h, R = c.h, c.result
        return [("rows-shared", imp(h.len(R) >= 2, h.at(R, 0) == h.at(R, 1)))]


def main():
    st = run._setup()
    st["prog"].load_abs(os.path.join(HERE, "..", "contracts", "probe_src.py"))
    bad = 0
    for con, expect in PROBES:
        st["reg"][con.name] = con
        rep = run.verify_item("fn:" + con.name, timeout_ms=4000)
        unproved = [o["name"].split(":", 1)[1] + "=" + o["status"] for o in rep["obligations"] if o["status"] != "proved"]
        verified = rep["status"] == "ok" and not unproved and rep["obligations"]
        ok = verified if expect == "verifies" else (rep["status"] in ("ok", "drift") and not verified)
        print(f"{'ok ' if ok else 'BAD'} {con.name:32s} expected {expect:8s} got status={rep['status']} "
              f"obligations={len(rep['obligations'])} unproved={unproved[:3]} {rep['message'][:80]}")
        bad += 0 if ok else 1
        del st["reg"][con.name]
    print("probes:", len(PROBES), "misbehaving:", bad)
    return 1 if bad else 0


if __name__ == "__main__":
    sys.exit(main())
