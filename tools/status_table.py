"""writes the generated parts of DESIGN.md section 0 (levels table, list of fixes) from MANIFEST.json,
contracts/props.py, evidence/*.json (clean tree) and known_findings.json"""
import json, os, re, sys
sys.path.insert(0, "/verif")
os.chdir("/verif")
from contracts.props import PROPS  # noqa: E402
man = json.load(open("MANIFEST.json"))
rows = ["| id | claimed | functions / lemmas under contract | obligations discharged (z3 / cvc5 / syntactic) | solver s | bounded twin: evaluations (quick tier) | bounded only (not proved) |",
        "|---|---|---|---|---|---|---|"]
for c in man["checks"]:
    pid = c["property_id"]
    ev = json.load(open(f"evidence/{pid}.json"))
    cov = ev["coverage"]
    cfg = PROPS[pid]
    by = cov.get("discharged_by", {})
    bo = [a for a in cfg.get("assumptions", []) if a.startswith("bounded only")]
    if not bo:
        more = [a for a in cfg.get("assumptions", []) if "bounded run" in a]
        if more:
            bo = ["bounded only: " + " / ".join(m[:230] + ("..." if len(m) > 230 else "") for m in more)]
    rows.append(f"| {pid} | {c['level_claimed']['category']} | {len(cfg.get('functions', []))} / {len(cfg.get('lemmas', []))} | "
                f"{cov['discharged']} ({by.get('z3', 0)} / {by.get('cvc5', 0) + by.get('z3+cvc5', 0)} / {by.get('syntactic', 0)}) | "
                f"{round(cov.get('solver_seconds', 0))} | {(cov.get('bounded') or {}).get('evaluations')} | "
                f"{(bo[0][len('bounded only: '):] if bo else ('everything: ' + c['level_claimed']['text'][:160] if c['level_claimed']['category'] != 'proof' else '—'))} |")
for na in man.get("not_applicable", []):
    rows.append(f"| {na['property_id']} | not_applicable | — | — | — | — | {na['reason'][:300]} |")
table = "\n".join(rows)
fixes = []
for k in json.load(open("known_findings.json"))["findings"]:
    if k["status"] == "fixed":
        what = re.sub(r"^fixed: property=\S+ \S+ ", "", k["what"])
        fixes.append(f"* **{k['property']}** `{k['commit']}` — {what}")
head = open("tools/design_status_head.md").read().replace("@@TABLE@@", table).replace("@@FIXES@@", "\n".join(fixes))
d = open("DESIGN.md").read()
i = d.index("Contents\n")
open("DESIGN.md", "w").write(head + d[i:])
print(table)
