"""Ghost code verified by the same engine (sidecar source, never part of /repo).

These functions are *lemmas written as programs*: a loop with an invariant is how the
verifier does an induction.  They only read the heap.
"""
from job_shop_lib import JobShopInstance
from job_shop_lib.dispatching import Dispatcher


def lemma_unfinished_job(dispatcher: Dispatcher) -> int:
    """while fewer operations are scheduled than the instance has, some job still has an
    unscheduled operation: returns such a job (the witness the SMT solver cannot find by
    itself, since it needs an induction over the prefix sums)"""
    job_id = 0
    while job_id < dispatcher.instance.num_jobs:
        if dispatcher.job_next_operation_index[job_id] < len(dispatcher.instance.jobs[job_id]):
            return job_id
        job_id += 1
    return -1


def lemma_machine_ends_monotone(dispatcher: Dispatcher, machine_id: int, index: int) -> int:
    """on one machine the end times do not decrease with the position: every operation at or before `index` ends no
    later than the one at `index` (an induction over the positions: each operation starts after its machine
    predecessor has ended and durations are not negative)"""
    position = index
    while position > 0:
        position -= 1
    return position


def lemma_matrices_round_trip(instance: JobShopInstance) -> JobShopInstance:
    """the two matrices of a (non-flexible) instance, given back to from_matrices, rebuild the same jobs: the composition
    of the three contracts, checked by running them one after the other"""
    return JobShopInstance.from_matrices(instance.durations_matrix, instance.machines_matrix)


def lemma_matrices_round_trip_flexible(instance: JobShopInstance) -> JobShopInstance:
    """the same composition for instances whose machines matrix holds LISTS of machine ids (flexible instances)"""
    return JobShopInstance.from_matrices(instance.durations_matrix, instance.machines_matrix)
