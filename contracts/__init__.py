def all_contracts():
    from . import core, spec
    return core.REGISTRY, spec.FIELD_TYPES
