import os

HERE = os.path.dirname(os.path.abspath(__file__))


def all_contracts():
    """-> (registry, field types, lemmas, extra sidecar source files)"""
    from . import core, spec, lemmas, equality, observers, rewards, filters, queries, rules, instance, generator, plotting, frames, cpsat, graphs, unscheduled, envs, spaces, features  # noqa: F401
    extra = [os.path.join(HERE, "ghost_src.py")]
    return core.REGISTRY, spec.FIELD_TYPES, lemmas.LEMMAS, extra
