import os

HERE = os.path.dirname(os.path.abspath(__file__))


def all_contracts():
    """-> (registry, field types, lemmas, extra sidecar source files)"""
    from . import core, spec, lemmas, equality, observers, rewards, filters, queries  # noqa: F401  (registration by import)
    extra = []
    return core.REGISTRY, spec.FIELD_TYPES, lemmas.LEMMAS, extra
