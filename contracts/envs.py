"""C09 (environment clause) / C13 / C18: SingleJobShopGraphEnv.step around the dispatcher call.

`step` decodes the action, asks the dispatcher for the job's next operation, dispatches it and reads the flags.
Everything numpy / gymnasium (get_observation, the composite observer's column names, the reward object) is used
through opaque [TRUSTED] read-only contracts; what is proved is the part the properties speak about: which dispatch
is requested, that a rejected request leaves the dispatcher untouched, `done` iff the schedule is complete, and
`truncated` never.
"""
from __future__ import annotations

import z3

from pyvc.engine import Contract, Frame
from pyvc.library import ext_method
from pyvc.values import ANY, BOOL, EXT, INT, REF, TUPLE, Val, fresh, vint

from .core import REGISTRY, register
from .queries import cache_ok
from .rules import dispatch_frame
from .spec import FIELD_TYPES, Disp, reach, rng

FIELD_TYPES.update({
    "SingleJobShopGraphEnv.dispatcher": REF("Dispatcher"),
    "SingleJobShopGraphEnv.reward_function": EXT("RewardFunction"),
    "SingleJobShopGraphEnv.composite_observer": EXT("CompositeObserver"),
})


@ext_method("RewardFunction", ".last_reward", "reward_function.last_reward reads the reward object (no effect on the dispatcher)")
def _last_reward(eng, node, st, obj):
    r = fresh("last_reward")
    st.aux["last_reward_read"] = r
    return [(st, vint(r))]


@ext_method("CompositeObserver", ".column_names", "composite_observer.column_names reads the observer (no effect)")
def _column_names(eng, node, st, obj):
    return [(st, Val(ANY, fresh("column_names")))]


@register
class EnvGetObservation(Contract):
    """[TRUSTED, abstract] get_observation() builds numpy arrays from the graph and the observers: read-only"""
    name = "SingleJobShopGraphEnv.get_observation"
    abstract = True
    trusted = True
    pure = True
    params = {"self": REF("SingleJobShopGraphEnv")}
    ret = ANY
    properties = ("C18",)


@register
class EnvStep(Contract):
    name = "SingleJobShopGraphEnv.step"
    properties = ("C09", "C13", "C18")
    params = {"self": REF("SingleJobShopGraphEnv"), "action": TUPLE(INT, INT)}
    ret = TUPLE(ANY, INT, BOOL, BOOL, ANY)

    def _decode(self, c):
        h = c.h0
        d = h.get("dispatcher", c["self"])
        D = Disp(h, d)
        job, mach = c.val("action").t[0].t, c.val("action").t[1].t
        jw = z3.If(job < 0, job + D.it.J, job)
        o = D.it.op(jw, D.kj(jw))
        return h, d, D, job, mach, jw, o

    def requires(self, c):
        h, d, D, job, mach, jw, o = self._decode(c)
        return [("env", z3.And(c["self"] > 0, d > 0))] + reach(h, d) + cache_ok(h, d)

    def raises(self, c):
        h, d, D, job, mach, jw, o = self._decode(c)
        it = D.it
        in_range = rng(jw, 0, it.J)
        left = it.L(jw) > D.kj(jw)
        several = it.nmach(o) > 1
        # the machine requested: -1 stands for "the operation's only machine"
        eff = z3.If(mach == -1, it.mach(o, 0), mach)
        ok_op = z3.And(in_range, left)
        mw = z3.If(eff < 0, eff + D.M, eff)
        q = z3.Int("?eq")
        eligible = z3.Exists([q], z3.And(rng(q, 0, it.nmach(o)), it.mach(o, q) == eff))
        return [
            ("IndexError", "job-id-out-of-range", z3.Not(in_range)),
            ("ValidationError", "job-has-no-operation-left", z3.And(in_range, z3.Not(left))),
            ("UninitializedAttributeError", "-1-given-for-an-operation-with-several-machines", z3.And(ok_op, mach == -1, several)),
            ("IndexError", "machine-id-out-of-range", z3.And(ok_op, z3.Not(z3.And(mach == -1, several)), z3.Not(rng(mw, 0, D.M)))),
            ("ValidationError", "machine-not-eligible", z3.And(ok_op, z3.Not(z3.And(mach == -1, several)), rng(mw, 0, D.M),
                                                               z3.Not(eligible))),
        ]

    def modifies(self, c):
        return dispatch_frame(c.h0, c.h0.get("dispatcher", c["self"]))

    def ensures(self, c):
        h0, d, D0, job, mach, jw, o = self._decode(c)
        h = c.h
        D1 = Disp(h, d)
        obs, reward, done, truncated, info = c.result
        return [("the-next-operation-of-the-job-was-dispatched", z3.And(D1.n == D0.n + 1, D1.kj(jw) == D0.kj(jw) + 1)),
                ("done-iff-the-schedule-is-complete", done.t == (D1.n == D1.it.N)),
                ("never-truncated", z3.Not(truncated.t)),
                ("same-dispatcher", h.get("dispatcher", c["self"]) == d)] + reach(h, d)
