"""C05 / C12 (deductive part): UnscheduledOperationsObserver mirrors the dispatcher's next-operation indices.

Mirror(obs): row j of `unscheduled_operations_per_job` lists the operations (j, k_j), (j, k_j + 1), ... of job j, where
k_j is the dispatcher's next-operation index.  `reset` establishes it in the empty state, `update` re-establishes it
after every dispatch (it is called, like every observer, in the post-dispatch state: the job of the operation just
dispatched still has one entry too many).
"""
from __future__ import annotations

import z3

from pyvc.engine import Contract, Frame
from pyvc.values import LIST, REF, forall

from .core import REGISTRY, register
from .spec import Disp, bv, imp, rng


def rows(h, obs):
    return (h.get("unscheduled_operations_per_job", obs), "o")


def mirror(h, obs, d, lag_job=None):
    """row j lists op(j, k_j - lag .. L_j - 1), lag = 1 for the job `lag_job` whose operation was just dispatched"""
    D = Disp(h, d)
    it = D.it
    P = rows(h, obs)
    j, q = bv("uj"), bv("uq")
    row = (h.at(P, j), "o")
    first = D.kj(j) - (z3.If(j == lag_job, 1, 0) if lag_job is not None else 0)
    return z3.And(
        P[0] > 0, h.len(P) == it.J,
        forall([j], imp(rng(j, 0, it.J), z3.And(row[0] > 0, row[0] != P[0], h.len(row) == it.L(j) - first)), patterns=[h.at(P, j)]),
        forall([j, bv("uj2")], imp(z3.And(rng(j, 0, it.J), rng(bv("uj2"), 0, it.J), h.at(P, j) == h.at(P, bv("uj2"))), j == bv("uj2")),
               patterns=[z3.MultiPattern(h.at(P, j), h.at(P, bv("uj2")))]),
        forall([j, q], imp(z3.And(rng(j, 0, it.J), rng(q, 0, h.len(row))), h.at(row, q) == it.op(j, first + q)),
               patterns=[h.at(row, q)]))


@register
class UnscheduledUpdate(Contract):
    name = "UnscheduledOperationsObserver.update"
    properties = ("C05", "C12")

    def requires(self, c):
        h, s, x = c.h0, c["self"], c["scheduled_operation"]
        d = h.get("dispatcher", s)
        D = Disp(h, d)
        return REGISTRY["DispatcherObserver.update"].requires(c) + [
            ("mirror-before-this-dispatch", mirror(h, s, d, D.it.jid(D.opx(x))))]

    def modifies(self, c):
        h, s = c.h0, c["self"]
        P = rows(h, s)
        j = bv("uj")
        return Frame(olists=lambda l: z3.Exists([j], z3.And(rng(j, 0, h.len(P)), h.at(P, j) == l)))

    relevant_strict = {"mirrors-the-next-operation-indices": [
        "mirror-before-this-dispatch", "R1-shape", "R2-next-index", "R4a-scheduled-are-ops", "sees-dispatched-operation-in-schedule",
        "inst-refs", "inst-jobs", "inst-ops", "observer", "observer-belongs-to-dispatcher"]}

    def ensures(self, c):
        h, s = c.h, c["self"]
        return [("mirrors-the-next-operation-indices", mirror(h, s, c.h0.get("dispatcher", s)))]


@register
class UnscheduledReset(Contract):
    name = "UnscheduledOperationsObserver.reset"
    properties = ("C05", "C12")

    def requires(self, c):
        return REGISTRY["DispatcherObserver.reset"].requires(c)

    def modifies(self, c):
        return Frame(fields={"unscheduled_operations_per_job": [c["self"]]}, alloc_olists=True)

    def ensures(self, c):
        h, s = c.h, c["self"]
        return [("lists-every-operation-of-every-job", mirror(h, s, c.h0.get("dispatcher", s)))]
