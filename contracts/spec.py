"""Spec-level vocabulary: field types, ghost fields, predicates (ValidInstance, Reach,
Feasible, ...) and spec functions the contracts are written in.

Everything here builds z3 terms over a `pyvc.values.Heap` snapshot.  Nothing here is
assumed: predicates appear as pre-conditions (to be proved by callers) and
post-conditions / invariants (to be proved from the real code).
"""
from __future__ import annotations

import z3

from pyvc.values import forall, ANY, BOOL, CALLREF, FUNC, INT, LIST, REF, Ty, fresh

# ---------------------------------------------------------------------------
# static types of the object fields (by `Class.field`, falling back to `field`)
# ---------------------------------------------------------------------------
FIELD_TYPES = {
    "Operation.machines": LIST(INT),
    "Operation.duration": INT,
    "Operation.job_id": INT,
    "Operation.position_in_job": INT,
    "Operation.operation_id": INT,
    "ScheduledOperation.operation": REF("Operation"),
    "ScheduledOperation.start_time": INT,
    "ScheduledOperation._machine_id": INT,
    "Schedule.instance": REF("JobShopInstance"),
    "Schedule._schedule": LIST(LIST(REF("ScheduledOperation"))),
    "Schedule.metadata": ANY,
    "BaseSolver.$dummy": ANY,
    "JobShopInstance.jobs": LIST(LIST(REF("Operation"))),
    "JobShopInstance.name": ANY,
    "JobShopInstance.metadata": ANY,
    "Dispatcher.instance": REF("JobShopInstance"),
    "Dispatcher.schedule": REF("Schedule"),
    "Dispatcher._machine_next_available_time": LIST(INT),
    "Dispatcher._job_next_operation_index": LIST(INT),
    "Dispatcher._job_next_available_time": LIST(INT),
    "Dispatcher.ready_operations_filter": CALLREF("abstract:ready_operations_filter"),
    "Dispatcher.subscribers": LIST(REF("DispatcherObserver")),
    "Dispatcher._cache": Ty("cachedict"),
    "DispatcherObserver.dispatcher": REF("Dispatcher"),
    "HistoryObserver.history": LIST(REF("ScheduledOperation"), "o"),
    "RewardObserver.rewards": LIST(INT, "o"),
    "MakespanReward.current_makespan": INT,
    "UnscheduledOperationsObserver.unscheduled_operations_per_job": LIST(LIST(REF("Operation"), "o"), "o"),
    "DispatchingRuleSolver.dispatching_rule": FUNC,
    "DispatchingRuleSolver.machine_chooser": FUNC,
    "DispatchingRuleSolver.ready_operations_filter": FUNC,
}

# Separation of list objects is stated directly (no ghost kinds): the lists of the
# instance are older than the ghost watermark `$born[d]` recorded when the dispatcher
# was constructed, every list the dispatcher owns is younger, and the dispatcher's own
# lists are pairwise distinct (R1-separation).

# fields observers own (may be written by update()/reset() of an observer)
OBS_FIELDS = [
    "history", "rewards", "current_makespan", "unscheduled_operations_per_job",
]


def bv(name):
    """Bound variable of a spec quantifier.  Deterministic names make two instances of
    the same predicate over the same heap *syntactically identical*, so an invariant that
    a frame leaves untouched is discharged by the solver's preprocessor instead of by
    quantifier instantiation.  Names are only ever used bound (program values get
    `name!N` constants), and nested spec quantifiers use different names."""
    return z3.Int("?" + name)


# the methods decorated with @_dispatcher_cache (checked against the program on every run by
# the engine: an access with another key is outside the subset)
CACHED = ["current_time", "available_operations", "raw_ready_operations", "unscheduled_operations",
          "scheduled_operations", "available_machines", "available_jobs", "completed_operations",
          "uncompleted_operations", "ongoing_operations"]


def cache_fields():
    out = []
    for k in CACHED:
        out += [f"$cache_has:{k}", f"$cache_val:{k}"]
    return out


def cache_empty(h, d):
    return z3.And([h.get(f"$cache_has:{k}", d) == 0 for k in CACHED])


def imp(a, b):
    return z3.Implies(a, b)


def rng(v, lo, hi):
    return z3.And(v >= lo, v < hi)


def zmax(a, b):
    return z3.If(a >= b, a, b)


def zmin(a, b):
    return z3.If(a <= b, a, b)


class Inst:
    """Terms of an instance in heap h."""

    def __init__(self, h, I):
        self.h = h
        self.I = I
        self.jobs = h.get("jobs", I)
        self.J = h.len(self.jobs)
        self.NM = h.get("$num_machines", I)

    def job(self, j):
        return self.h.at(self.jobs, j)

    def cumL(self, t):
        """ghost prefix sums of the job lengths: cumL(t) = L(0) + ... + L(t-1)"""
        return z3.Select(self.h.get("$$cumL", self.I), t)

    @property
    def N(self):
        return self.cumL(self.J)

    def L(self, j):
        return self.h.len(self.job(j))

    def op(self, j, p):
        return self.h.at(self.job(j), p)

    def dur(self, o):
        return self.h.get("duration", o)

    def jid(self, o):
        return self.h.get("job_id", o)

    def pos(self, o):
        return self.h.get("position_in_job", o)

    def machines(self, o):
        return self.h.get("machines", o)

    def nmach(self, o):
        return self.h.len(self.machines(o))

    def mach(self, o, q):
        return self.h.at(self.machines(o), q)

    def is_op(self, o):
        """o is an operation of this instance"""
        return z3.And(o > 0, rng(self.jid(o), 0, self.J), rng(self.pos(o), 0, self.L(self.jid(o))),
                      self.op(self.jid(o), self.pos(o)) == o)


def valid_instance(h, I, bound=None):
    """ValidInstance(I): what JobShopInstance.__init__ establishes for the documented
    input shape (>=1 job, >=1 operation per job, >=1 machine per operation, ids >= 0,
    durations >= 0)."""
    it = Inst(h, I)
    j, p, q = bv("j"), bv("p"), bv("q")
    o = it.op(j, p)
    A = h.alloc if bound is None else bound
    return [
        ("inst-refs", z3.And(I > 0, I < A, it.jobs > 0, it.jobs < A, it.J >= 1, it.NM >= 1)),
        ("inst-jobs", forall([j], imp(rng(j, 0, it.J),
                                         z3.And(it.job(j) > 0, it.job(j) < A, it.L(j) >= 1)),
                                patterns=[it.job(j)])),
        ("inst-ops", forall([j, p], imp(z3.And(rng(j, 0, it.J), rng(p, 0, it.L(j))),
                                           z3.And(o > 0, o < A, it.jid(o) == j, it.pos(o) == p,
                                                  it.dur(o) >= 0, it.machines(o) > 0,
                                                  it.machines(o) < A, it.nmach(o) >= 1)),
                               patterns=[it.op(j, p)])),
        ("inst-cum", z3.And(it.cumL(0) == 0, forall([j], imp(rng(j, 0, it.J), it.cumL(j + 1) == it.cumL(j) + it.L(j)),
                                                             patterns=[it.cumL(j + 1), it.L(j)]))),
        ("inst-cum-monotone", forall([j, p], imp(z3.And(0 <= j, j <= p, p <= it.J), it.cumL(j) <= it.cumL(p)))),
        ("inst-machines", forall([j, p, q], imp(z3.And(rng(j, 0, it.J), rng(p, 0, it.L(j)),
                                                          rng(q, 0, it.nmach(o))),
                                                   rng(it.mach(o, q), 0, it.NM)),
                                    patterns=[it.mach(o, q)])),
    ]


class Disp:
    """Terms of a dispatcher d in heap h."""

    def __init__(self, h, d):
        self.h = h
        self.d = d
        self.I = h.get("instance", d)
        self.it = Inst(h, self.I)
        self.sch = h.get("schedule", d)
        self.S = h.get("_schedule", self.sch)
        self.M = h.len(self.S)
        self.mnat = h.get("_machine_next_available_time", d)
        self.k = h.get("_job_next_operation_index", d)
        self.jnat = h.get("_job_next_available_time", d)
        self.subs = h.get("subscribers", d)

    def Sm(self, m):
        return self.h.at(self.S, m)

    def cumS(self, t):
        """ghost prefix sums of the machine list lengths"""
        return z3.Select(self.h.get("$$cumS", self.sch), t)

    def cumK(self, t):
        """ghost prefix sums of the next-operation indices"""
        return z3.Select(self.h.get("$$cumK", self.d), t)

    @property
    def n(self):
        """number of scheduled operations"""
        return self.cumS(self.M)

    def nS(self, m):
        return self.h.len(self.Sm(m))

    def x(self, m, i):
        return self.h.at(self.Sm(m), i)

    def opx(self, x):
        return self.h.get("operation", x)

    def start(self, x):
        return self.h.get("start_time", x)

    def mid(self, x):
        return self.h.get("_machine_id", x)

    def end(self, x):
        return self.start(x) + self.it.dur(self.opx(x))

    def kj(self, j):
        return self.h.at(self.k, j)

    def mn(self, m):
        return self.h.at(self.mnat, m)

    def jn(self, j):
        return self.h.at(self.jnat, j)

    # ghost position maps: where is an operation in the schedule
    def posm(self, o):
        return self.h.get("$posm", o)

    def posi(self, o):
        return self.h.get("$posi", o)

    def slot(self, j, p):
        o = self.it.op(j, p)
        return self.x(self.posm(o), self.posi(o))

    def mq(self, x):
        return self.h.get("$mq", x)

    def jp_end(self, o):
        """end of the job predecessor of operation o (0 if none)"""
        return z3.If(self.it.pos(o) > 0, self.end(self.slot(self.it.jid(o), self.it.pos(o) - 1)), 0)

    def mp_end(self, m, i):
        return z3.If(i > 0, self.end(self.x(m, i - 1)), 0)


def reach(h, d):
    """Reach(d): the representation invariant of the dispatcher (DESIGN.md appendix A,
    R1-R8).  Returned as named conjuncts."""
    D = Disp(h, d)
    it = D.it
    m, i, j, p, s = bv("m"), bv("i"), bv("j"), bv("p"), bv("s")
    x = D.x(m, i)
    o = D.opx(x)
    A = h.alloc
    born = h.get("$born", d)
    m2 = bv("m2")
    own = [D.S, D.mnat, D.k, D.jnat, D.subs]
    in_mi = z3.And(rng(m, 0, D.M), rng(i, 0, D.nS(m)))
    in_jp = z3.And(rng(j, 0, it.J), rng(p, 0, D.kj(j)))
    oj = it.op(j, p)
    out = valid_instance(h, D.I, bound=born) + [
        ("R1-shape", z3.And(
            d > 0, d < A, D.sch > 0, D.sch < A, D.S > 0, D.S < A, D.mnat > 0, D.mnat < A, D.k > 0, D.k < A,
            D.jnat > 0, D.jnat < A, D.subs > 0, D.subs < A,
            h.get("instance", D.sch) == D.I, D.M == it.NM,
            h.len(D.mnat) == D.M, h.len(D.k) == it.J, h.len(D.jnat) == it.J,
            h.len(D.subs) >= 0, born > 0, born <= A,
            z3.Distinct(*own), z3.And([l >= born for l in own]))),
        ("R1-machine-lists", forall([m], imp(rng(m, 0, D.M),
                                                z3.And(D.Sm(m) >= born, D.Sm(m) < A, D.nS(m) >= 0,
                                                       z3.And([D.Sm(m) != l for l in own]))),
                                       patterns=[D.Sm(m)])),
        ("R1-machine-lists-distinct", forall([m, m2], imp(
            z3.And(rng(m, 0, D.M), rng(m2, 0, D.M), D.Sm(m) == D.Sm(m2)), m == m2),
            patterns=[z3.MultiPattern(D.Sm(m), D.Sm(m2))])),
        ("R2-next-index", forall([j], imp(rng(j, 0, it.J), z3.And(D.kj(j) >= 0, D.kj(j) <= it.L(j))),
                                    patterns=[D.kj(j)])),
        ("R4a-scheduled-are-ops", forall([m, i], imp(in_mi, z3.And(
            x > 0, x < A, it.is_op(o), it.pos(o) < D.kj(it.jid(o)),
            D.posm(o) == m, D.posi(o) == i)), patterns=[D.x(m, i)])),
        ("R5-machine-eligible", forall([m, i], imp(in_mi, z3.And(
            D.mid(x) == m, rng(D.mq(x), 0, it.nmach(o)), it.mach(o, D.mq(x)) == m)), patterns=[D.x(m, i)])),
        ("R4b-ops-before-k-scheduled", forall([j, p], imp(in_jp, z3.And(
            rng(D.posm(oj), 0, D.M), rng(D.posi(oj), 0, D.nS(D.posm(oj))),
            D.opx(D.x(D.posm(oj), D.posi(oj))) == oj)), patterns=[it.op(j, p)])),
        ("R6-forced-start", forall([m, i], imp(in_mi, z3.And(
            D.start(x) == zmax(D.jp_end(o), D.mp_end(m, i)), D.start(x) >= 0)), patterns=[D.x(m, i)])),
        ("R8-machine-free", forall([m], imp(rng(m, 0, D.M),
                                               D.mn(m) == z3.If(D.nS(m) > 0, D.end(D.x(m, D.nS(m) - 1)), 0)),
                                      patterns=[D.mn(m)])),
        ("R8-job-ready", forall([m, i], imp(z3.And(in_mi, it.pos(o) == D.kj(it.jid(o)) - 1),
                                             D.jn(it.jid(o)) == D.end(x)), patterns=[D.x(m, i)])),
        ("R8-job-ready-0", forall([j], imp(z3.And(rng(j, 0, it.J), D.kj(j) == 0), D.jn(j) == 0),
                                   patterns=[D.jn(j)])),
        ("R9-count-per-machine", z3.And(D.cumS(0) == 0, forall([m], imp(rng(m, 0, D.M),
                                                                      D.cumS(m + 1) == D.cumS(m) + D.nS(m)),
                                                                      patterns=[D.cumS(m + 1), D.nS(m)]))),
        ("R9-count-per-job", z3.And(D.cumK(0) == 0, forall([j], imp(rng(j, 0, it.J),
                                                                  D.cumK(j + 1) == D.cumK(j) + D.kj(j)),
                                                                  patterns=[D.cumK(j + 1), D.kj(j)]))),
        ("R9-count-per-job-monotone", forall([j, p], imp(z3.And(0 <= j, j <= p, p <= it.J), D.cumK(j) <= D.cumK(p)))),
        ("R9-counts-agree", D.cumS(D.M) == D.cumK(it.J)),
        ("R9-deficit-monotone", forall([j, p], imp(z3.And(0 <= j, j <= p, p <= it.J),
                                                   it.cumL(j) - D.cumK(j) <= it.cumL(p) - D.cumK(p)))),
        ("R-subscribers", forall([s], imp(rng(s, 0, h.len(D.subs)),
                                             z3.And(h.at(D.subs, s) > 0, h.at(D.subs, s) < A,
                                                    h.get("dispatcher", h.at(D.subs, s)) == d)),
                                    patterns=[h.at(D.subs, s)])),
    ]
    return out


def feasible(h, d):
    """Feasible(S): the text of property C01, in its own words."""
    D = Disp(h, d)
    it = D.it
    m, i, m2, i2, j, p, q = (fresh(n) for n in ("m", "i", "m2", "i2", "j", "p", "q"))
    x = D.x(m, i)
    x2 = D.x(m2, i2)
    in_mi = z3.And(rng(m, 0, D.M), rng(i, 0, D.nS(m)))
    in_mi2 = z3.And(rng(m2, 0, D.M), rng(i2, 0, D.nS(m2)))
    return [
        ("F1-each-operation-at-most-once", forall([m, i, m2, i2], imp(
            z3.And(in_mi, in_mi2, z3.Or(m != m2, i != i2)), D.opx(x) != D.opx(x2)))),
        ("F2-eligible-machine", forall([m, i], imp(in_mi, z3.And(
            D.mid(x) == m, z3.Exists([q], z3.And(rng(q, 0, it.nmach(D.opx(x))), it.mach(D.opx(x), q) == m)))))),
        ("F3-job-order-no-overlap", forall([m, i, m2, i2], imp(
            z3.And(in_mi, in_mi2, it.jid(D.opx(x)) == it.jid(D.opx(x2)),
                   it.pos(D.opx(x)) + 1 == it.pos(D.opx(x2))),
            D.end(x) <= D.start(x2)))),
        ("F3-job-prefix-closed", forall([m, i], imp(
            z3.And(in_mi, it.pos(D.opx(x)) > 0),
            z3.Exists([m2, i2], z3.And(in_mi2, it.jid(D.opx(x2)) == it.jid(D.opx(x)),
                                       it.pos(D.opx(x2)) + 1 == it.pos(D.opx(x))))))),
        ("F4-machine-order-no-overlap", forall([m, i], imp(z3.And(in_mi, i > 0),
                                                              D.end(D.x(m, i - 1)) <= D.start(x)))),
        ("F5-start-nonnegative", forall([m, i], imp(in_mi, D.start(x) >= 0))),
    ]


def derived(h, d):
    """Derived(d): the text of property C02 about the bookkeeping, independent of the
    ghost maps: tracking vectors equal the values implied by the schedule."""
    D = Disp(h, d)
    it = D.it
    m, i, j = bv("m"), bv("i"), bv("j")
    m2, i2 = bv("m2"), bv("i2")
    x2 = D.x(m2, i2)
    in_mi2 = z3.And(rng(m2, 0, D.M), rng(i2, 0, D.nS(m2)))
    return [
        ("D-machine-next-available", forall([m], imp(rng(m, 0, D.M), D.mn(m) == z3.If(
            D.nS(m) > 0, D.end(D.x(m, D.nS(m) - 1)), 0)))),
        # job next available = end of the scheduled operation of that job with the highest position
        ("D-job-next-available", forall([j, m2, i2], imp(
            z3.And(rng(j, 0, it.J), in_mi2, it.jid(D.opx(x2)) == j, it.pos(D.opx(x2)) == D.kj(j) - 1),
            D.jn(j) == D.end(x2)))),
        ("D-job-next-available-0", forall([j], imp(z3.And(rng(j, 0, it.J), D.kj(j) == 0), D.jn(j) == 0))),
        # next index = number of scheduled operations of the job = 1 + highest scheduled position
        ("D-next-index-upper", forall([m2, i2], imp(in_mi2, it.pos(D.opx(x2)) < D.kj(it.jid(D.opx(x2)))))),
        ("D-next-index-attained", forall([j], imp(z3.And(rng(j, 0, it.J), D.kj(j) > 0), z3.Exists(
            [m2, i2], z3.And(in_mi2, it.jid(D.opx(x2)) == j, it.pos(D.opx(x2)) == D.kj(j) - 1))))),
    ]


def upd_tracking(h, d, x):
    """Spec of what `_update_tracking_attributes` does to the three tracking vectors."""
    D = Disp(h, d)
    o = D.opx(x)
    j = D.it.jid(o)
    m = D.mid(x)
    e = D.end(x)
    h1 = h.set_at(D.mnat, m, e)
    h1 = h1.set_at(D.k, j, h1.at(D.k, j) + 1)
    h1 = h1.set_at(D.jnat, j, e)
    return h1


def contains(h, lst, v):
    q = bv("cq")
    return z3.Exists([q], z3.And(rng(q, 0, h.len(lst)), h.at(lst, q) == v))


def same_lists(h0, h1, lists):
    out = []
    for l in lists:
        out.append(h1.len(l) == h0.len(l))
        out.append(z3.Select(h1.El, l) == z3.Select(h0.El, l))
    return z3.And(out)


# ---------------------------------------------------------------------------
# relevance: which Reach / ValidInstance conjuncts a conjunct's proof needs.
# Only used to *hide* hypotheses (sound); if the reduced proof fails the verifier falls
# back to the full path condition.
# ---------------------------------------------------------------------------
_INST = ["inst-refs", "inst-jobs", "inst-ops", "inst-cum", "inst-cum-monotone", "inst-machines"]
_SHAPE = _INST[:3] + ["R1-shape", "R1-machine-lists", "R1-machine-lists-distinct", "R2-next-index"]
_RELEVANT = {
    "inst-refs": _INST + _SHAPE, "inst-jobs": _INST + _SHAPE,
    "inst-ops": _INST + _SHAPE, "inst-machines": _INST + _SHAPE,
    "inst-cum": _INST + _SHAPE, "inst-cum-monotone": _INST + _SHAPE,
    "R1-shape": _SHAPE, "R1-machine-lists": _SHAPE, "R1-machine-lists-distinct": _SHAPE,
    "R2-next-index": _SHAPE,
    "R4a-scheduled-are-ops": _SHAPE + ["R4a-scheduled-are-ops"],
    "R5-machine-eligible": _SHAPE + ["R4a-scheduled-are-ops", "R5-machine-eligible", "inst-machines"],
    "R4b-ops-before-k-scheduled": _SHAPE + ["R4a-scheduled-are-ops", "R4b-ops-before-k-scheduled"],
    "R6-forced-start": _SHAPE + ["R4a-scheduled-are-ops", "R4b-ops-before-k-scheduled", "R6-forced-start",
                                 "R8-machine-free", "R8-job-ready", "R8-job-ready-0"],
    "R8-machine-free": _SHAPE + ["R4a-scheduled-are-ops", "R8-machine-free", "R6-forced-start"],
    "R8-job-ready": _SHAPE + ["R4a-scheduled-are-ops", "R4b-ops-before-k-scheduled", "R8-job-ready",
                              "R8-job-ready-0"],
    "R8-job-ready-0": _SHAPE + ["R8-job-ready-0", "R8-job-ready"],
    "R9-count-per-machine": _SHAPE + ["R9-count-per-machine"],
    "R9-count-per-job": _SHAPE + ["R9-count-per-job"],
    "R9-count-per-job-monotone": _SHAPE + ["R9-count-per-job", "R9-count-per-job-monotone"],
    "R9-counts-agree": _SHAPE + ["R9-count-per-machine", "R9-count-per-job", "R9-counts-agree"],
    "R9-deficit-monotone": _SHAPE + ["R9-count-per-job", "R9-deficit-monotone", "inst-cum", "inst-cum-monotone"],
    "R-subscribers": _SHAPE + ["R-subscribers"],
}
_FAMILY = set(_RELEVANT)
SHAPE = list(_SHAPE)


def _base(tag):
    """`after-update:R6-forced-start` -> `R6-forced-start`"""
    return tag.split(":")[-1]


def relevance(obligation_name, contract=None):
    """-> predicate on hypothesis tags, or None (use everything)"""
    import re
    goal = re.sub(r"@\d+$", "", obligation_name).split(":")[-1]
    strict = getattr(contract, "relevant_strict", None) or {}
    stripped = re.sub(r"@\d+$", "", obligation_name)
    longer = [k_ for k_ in strict if ":" in k_ and stripped.endswith(":" + k_)]   # e.g. "loop0:inv-entry:<clause>"
    if longer:
        only = set(strict[max(longer, key=len)])
        return lambda tag: tag in only or _base(tag) in only
    if goal in strict:
        only = set(strict[goal])
        return lambda tag: tag in only or _base(tag) in only   # nothing but the named clauses (and untagged facts)
    extra = getattr(contract, "relevant", None) or {}
    if goal in extra:
        wanted = set(extra[goal])
    elif goal in _RELEVANT:
        wanted = set(_RELEVANT[goal])
    else:
        return None

    def keep(tag):
        if tag.startswith("cache-entry-current:"):
            # the cache invariant is only needed to re-establish itself / by the wrapper
            return tag in wanted or goal.startswith("cache-entry-current")
        b = _base(tag)
        return b not in _FAMILY or b in wanted
    return keep
