"""C04: dispatching-rule solvers finish and follow their rule (the deductive part):
the solver loop terminates with a complete schedule for ANY rule / machine chooser honouring
their abstract contracts; the built-in key-based rules select a best available operation; the
tie-breaker rule always returns an available operation; BaseSolver.__call__ records a
non-negative elapsed time."""
from __future__ import annotations

import z3

from pyvc.engine import Contract, Frame, LoopSpec
from pyvc.values import ANY, BOOL, CALLREF, INT, LIST, REF, Val, forall, fresh

from .core import REGISTRY, reach, register
from .filters import OPS
from .queries import cache_effect, cache_ok
from .spec import Disp, SHAPE, bv, cache_fields, imp, rng

AVAIL_HAS = "$cache_has:available_operations"
AVAIL_VAL = "$cache_val:available_operations"


def in_available(h, d, o):
    """o is an element of the list available_operations() returned in this state (it is in the
    cache after any call of the query)"""
    L = h.get(AVAIL_VAL, d)
    r = bv("ra")
    return z3.And(h.get(AVAIL_HAS, d) != 0, z3.Exists([r], z3.And(rng(r, 0, h.len(L)), h.at(L, r) == o)))


def some_job_unfinished(h, d):
    D = Disp(h, d)
    j = bv("ju")
    return z3.Exists([j], z3.And(rng(j, 0, D.it.J), D.kj(j) < D.it.L(j)))


def query_frame(c, d):
    fields = {f: [d] for f in cache_fields()}
    fields["$oidx"] = "ALL"
    return Frame(fields=fields, alloc_lists=True)


# ---------------------------------------------------------------------------
# ghost lemma (sidecar source contracts/ghost_src.py)
# ---------------------------------------------------------------------------
@register
class LemmaUnfinishedJob(Contract):
    name = "lemma_unfinished_job"
    ret = INT
    pure = True
    properties = ("C04",)
    relevant = {n: SHAPE + ["R9-count-per-job", "R9-counts-agree", "R9-deficit-monotone", "inst-cum", "inst-cum-monotone",
                            "R9-count-per-job-monotone"]
                for n in ("an-unfinished-job", "all-before-finished")}

    def requires(self, c):
        D = Disp(c.h0, c["dispatcher"])
        return reach(c.h0, c["dispatcher"]) + [("not-everything-scheduled", D.n < D.it.N)]

    def ensures(self, c):
        D = Disp(c.h0, c["dispatcher"])
        j = c.result
        return [("an-unfinished-job", z3.And(rng(j, 0, D.it.J), D.kj(j) < D.it.L(j)))]

    @property
    def loops(self):
        def inv(k):
            D = Disp(k.h0, k["dispatcher"])
            j = k.v("job_id")
            t = bv("t")
            return [("all-before-finished", z3.And(j >= 0, j <= D.it.J, D.it.cumL(j) - D.cumK(j) == 0,
                                                   forall([t], imp(rng(t, 0, j), D.kj(t) == D.it.L(t)))))]
        return {0: LoopSpec("while job_id < dispatcher.instance.num_jobs", inv,
                            decreases=lambda k: Disp(k.h0, k["dispatcher"]).it.J - k.v("job_id"))}


# ---------------------------------------------------------------------------
# abstract contracts of the callables stored in the solver
# ---------------------------------------------------------------------------
@register
class AbstractRule(Contract):
    """any dispatching rule: returns one of the currently available operations (and, like every
    client of the queries, keeps the cache invariant)"""
    name = "attr:dispatching_rule"
    abstract = True
    ret = REF("Operation")
    params = {"dispatcher": REF("Dispatcher")}

    def requires(self, c):
        h, d = c.h0, c["dispatcher"]
        return reach(h, d) + cache_ok(h, d) + [("some-operation-available", some_job_unfinished(h, d))]

    def modifies(self, c):
        return query_frame(c, c["dispatcher"])

    def ensures(self, c):
        h, d = c.h, c["dispatcher"]
        D = Disp(h, d)
        o = c.result
        return [("selects-a-ready-operation-of-the-instance", z3.And(D.it.is_op(o), D.it.pos(o) == D.kj(D.it.jid(o))))] \
            + reach(h, d) + cache_ok(h, d)


@register
class AbstractChooser(Contract):
    name = "attr:machine_chooser"
    abstract = True
    pure = True
    ret = INT
    params = {"dispatcher": REF("Dispatcher"), "operation": REF("Operation")}

    def requires(self, c):
        D = Disp(c.h0, c["dispatcher"])
        return [("operation", D.it.is_op(c["operation"]))]

    def ensures(self, c):
        h = c.h0
        q = bv("qc")
        ms = h.get("machines", c["operation"])
        return [("one-of-the-eligible-machines", z3.Exists([q], z3.And(rng(q, 0, h.len(ms)), h.at(ms, q) == c.result)))]


def solver_fields():
    from .spec import FIELD_TYPES
    FIELD_TYPES["DispatchingRuleSolver.dispatching_rule"] = CALLREF("attr:dispatching_rule")
    FIELD_TYPES["DispatchingRuleSolver.machine_chooser"] = CALLREF("attr:machine_chooser")
    FIELD_TYPES["DispatchingRuleSolver.ready_operations_filter"] = CALLREF("abstract:ready_operations_filter")


solver_fields()


def dispatch_frame(h, d):
    """everything a dispatch on d may touch (used for `step`/`solve`, whose operation is chosen
    inside)"""
    D = Disp(h, d)
    from .core import _tracking_frame
    fr = _tracking_frame(h, d, extra_fields={"$posm": "ALL", "$posi": "ALL", "$$cumS": [D.sch], "$$cumK": [d],
                                             "$ntr": [d], "$$tr_obs": [d], "$$tr_arg": [d]},
                         alloc_objects=["operation", "start_time", "_machine_id", "$mq"])
    m = bv("mf")
    own = [D.mnat, D.k, D.jnat]
    fr.lists = lambda l: z3.Or(z3.Or([l == x for x in own]), z3.Exists([m], z3.And(rng(m, 0, D.M), l == D.Sm(m))))
    fr.alloc_lists = True
    return fr


@register
class SolverStep(Contract):
    name = "DispatchingRuleSolver.step"
    properties = ("C04",)

    def requires(self, c):
        h, d = c.h0, c["dispatcher"]
        D = Disp(h, d)
        return [("solver", z3.And(c["self"] > 0, h.get("dispatching_rule", c["self"]) != 0,
                                  h.get("machine_chooser", c["self"]) != 0))] \
            + reach(h, d) + cache_ok(h, d) + [("not-complete", D.n < D.it.N)]

    def ghost_entry(self, c, st):
        # ghost call of the verified lemma: some job is unfinished (witness for the rule's pre-condition)
        con = REGISTRY["lemma_unfinished_job"]
        res = c.eng.apply_bound(con, {"dispatcher": c.val("dispatcher")}, st, None)
        st.env["$unfinished"] = res[0][1]

    def modifies(self, c):
        return dispatch_frame(c.h0, c["dispatcher"])

    def ensures(self, c):
        h0, h, d = c.h0, c.h, c["dispatcher"]
        D0, D1 = Disp(h0, d), Disp(h, d)
        return [("one-more-operation-scheduled", D1.n == D0.n + 1),
                ("same-instance", z3.And(D1.I == D0.I, D1.it.N == D0.it.N))] + reach(h, d) + cache_ok(h, d)


@register
class SolverSolve(Contract):
    name = "DispatchingRuleSolver.solve"
    ret = REF("Schedule")
    params = {"dispatcher": REF("Dispatcher")}
    properties = ("C04",)

    def requires(self, c):
        h, d = c.h0, c["dispatcher"]
        # the verified entry point: a dispatcher is supplied (the `dispatcher is None` branch only constructs one:
        # Dispatcher.__init__'s contract)
        return [("solver", z3.And(c["self"] > 0, h.get("dispatching_rule", c["self"]) != 0,
                                  h.get("machine_chooser", c["self"]) != 0)),
                ("dispatcher-given", d != 0), ("its-instance", h.get("instance", d) == c["instance"])] \
            + reach(h, d) + cache_ok(h, d)

    def modifies(self, c):
        return dispatch_frame(c.h0, c["dispatcher"])

    def ensures(self, c):
        h, d = c.h, c["dispatcher"]
        D = Disp(h, d)
        return [("returns-the-dispatcher-schedule", c.result == D.sch),
                ("complete", D.n == D.it.N)] + reach(h, d)

    @property
    def loops(self):
        def inv(k):
            h, d = k.h, k["dispatcher"]
            D, D0 = Disp(h, d), Disp(k.h0, d)
            return [("same-objects", z3.And(k.v("dispatcher") == d, D.I == D0.I, D.sch == D0.sch, D.it.N == D0.it.N,
                                            h.get("dispatching_rule", k["self"]) == k.h0.get("dispatching_rule", k["self"]),
                                            h.get("machine_chooser", k["self"]) == k.h0.get("machine_chooser", k["self"])))] \
                + reach(h, d) + cache_ok(h, d)

        def mod(k):
            return dispatch_frame(k.hl, k["dispatcher"])

        def dec(k):
            D = Disp(k.h, k["dispatcher"])
            return D.it.N - D.n
        return {0: LoopSpec("while not dispatcher.schedule.is_complete()", inv, mod, dec)}


# ---------------------------------------------------------------------------
# built-in rules
# ---------------------------------------------------------------------------
class _Rule(Contract):
    ret = REF("Operation")
    params = {"dispatcher": REF("Dispatcher")}
    properties = ("C04",)
    key = None  # criterion: function (h, o) -> Int to MINIMISE, or None (membership only)

    def requires(self, c):
        return AbstractRule().requires(c)

    def modifies(self, c):
        return query_frame(c, c["dispatcher"])

    def ensures(self, c):
        h, d, o = c.h, c["dispatcher"], c.result
        out = AbstractRule().ensures(c) + [("selected-is-available", in_available(h, d, o))]
        if self.key is not None:
            L = h.get(AVAIL_VAL, d)
            r = bv("rb")
            out.append(("selected-is-best-under-the-criterion", forall(
                [r], imp(rng(r, 0, h.len(L)), self.key(h, o) <= self.key(h, h.at(L, r))), patterns=[h.at(L, r)])))
        return out


@register
class RuleSPT(_Rule):
    name = "shortest_processing_time_rule"
    key = staticmethod(lambda h, o: h.get("duration", o))


@register
class RuleFCFS(_Rule):
    name = "first_come_first_served_rule"
    key = staticmethod(lambda h, o: h.get("position_in_job", o))


def remaining_work(h, D, j, upto=None):
    """sum of the durations of the unscheduled operations of job j (ghost prefix sums of the job's durations);
    with `upto` = i: only of those among the first i entries of unscheduled_operations()"""
    from .instance import cumD
    job = D.it.job(j)
    left = D.it.L(j) - D.kj(j)
    if upto is None:
        cnt = left
    else:
        b = D.it.cumL(j) - D.cumK(j)
        b1 = D.it.cumL(j + 1) - D.cumK(j + 1)        # = b + left (inst-cum, R9-count-per-job)
        cnt = z3.If(upto <= b, 0, z3.If(upto >= b1, left, upto - b))
    return cumD(h, job, D.kj(j) + cnt) - cumD(h, job, D.kj(j))


US_HAS = "$cache_has:unscheduled_operations"
US_VAL = "$cache_val:unscheduled_operations"


@register
class RuleMWKR(_Rule):
    """most_work_remaining_rule: returns an available operation whose job has the MOST remaining work (sum of the
    durations of its unscheduled operations) among the jobs of the available operations"""
    name = "most_work_remaining_rule"
    relevant = {n: SHAPE + ["work-accumulated-so-far", "result-list", "as-many-as-not-scheduled",
                            "each-element-sits-at-its-place", "elements-are-unscheduled-operations",
                            "def-job-duration-prefix-sums", "def-job-duration-prefix-sums-by-operation", "R9-count-per-job", "R9-deficit-monotone",
                            "R9-count-per-job-monotone", "R9-counts-agree", "inst-cum", "inst-cum-monotone",
                            "entry-is-cached-afterwards", "cached-entries-kept", "result-are-operations",
                            "result-are-ready", "non-empty-while-some-job-is-unfinished", "some-operation-available"]
                for n in ("work-accumulated-so-far", "selected-is-best-under-the-criterion", "IndexError")}
    relevant_strict = {
        "loop0:step:the-operation-met-sits-at-its-place": SHAPE + [
            "work-accumulated-so-far", "result-list", "as-many-as-not-scheduled", "each-element-sits-at-its-place",
            "elements-are-unscheduled-operations", "R9-count-per-job", "inst-cum", "entry-is-cached-afterwards",
            "cached-entries-kept"],
        "loop0:step:segments-of-other-jobs-do-not-contain-this-index": SHAPE + [
            "step-placed", "R9-deficit-monotone", "R9-count-per-job", "inst-cum"],
        "loop0:inv-entry:segments-within-the-list": SHAPE + [
            "start-nonneg", "entry-is-cached-afterwards", "cached-entries-kept", "result-list", "as-many-as-not-scheduled",
            "result-is-a-cached-list-or-new"],
        "loop0:inv-preserved:segments-within-the-list": SHAPE + ["segments-within-the-list"],
        "selected-is-best-under-the-criterion": SHAPE + [
            "work-accumulated-so-far", "segments-within-the-list", "result-are-operations", "result-list",
            "R9-count-per-job", "inst-cum",
            "entry-is-cached-afterwards", "cached-entries-kept", "cache-entry-current:available_operations"],
        "loop0:inv-preserved:work-accumulated-so-far": SHAPE + [
            "work-accumulated-so-far", "step-placed", "step-others", "def-job-duration-prefix-sums-by-operation",
            "R9-count-per-job", "inst-cum", "R9-deficit-monotone", "entry-is-cached-afterwards", "cached-entries-kept"],
    }

    def requires(self, c):
        from .instance import duration_sums_defined
        from .instance import cumD
        it = Disp(c.h0, c["dispatcher"]).it
        j, p = bv("jd"), bv("pd")
        # the same definition, flattened and triggered by the operation (the loop meets operations, not prefix sums)
        by_op = ("def-job-duration-prefix-sums-by-operation", forall([j, p], imp(
            z3.And(rng(j, 0, it.J), rng(p, 0, it.L(j))),
            cumD(c.h0, it.job(j), p + 1) == cumD(c.h0, it.job(j), p) + it.dur(it.op(j, p))), patterns=[it.op(j, p)]))
        return _Rule.requires(self, c) + duration_sums_defined(c.h0, it.I) + [by_op]

    def ensures(self, c):
        h, d, o = c.h, c["dispatcher"], c.result
        D = Disp(h, d)
        L = h.get(AVAIL_VAL, d)
        r = bv("rb")
        return _Rule.ensures(self, c) + [("selected-is-best-under-the-criterion", forall([r], imp(
            rng(r, 0, h.len(L)),
            remaining_work(h, D, D.it.jid(o)) >= remaining_work(h, D, D.it.jid(h.at(L, r)))), patterns=[h.at(L, r)]))]

    @property
    def ghost_after(self):
        def step(c, st):
            # two ghost assertions (proved, then used) that stage the preservation of the invariant: where the
            # operation just met sits in the list, and that the other jobs' segments do not contain this index
            h, d = st.heap, c["dispatcher"]
            D = Disp(h, d)
            i = c.eng.loop_stack[-1]
            o = st.env["operation"].t
            js, ps = D.it.jid(o), D.it.pos(o)
            placed = z3.And(rng(js, 0, D.it.J), D.kj(js) <= ps, ps < D.it.L(js), o == D.it.op(js, ps),
                            i == D.it.cumL(js) - D.cumK(js) + ps - D.kj(js),
                            i < D.it.cumL(js + 1) - D.cumK(js + 1))
            c.eng.oblige(st, "loop0:step:the-operation-met-sits-at-its-place", placed, "ghost-assert")
            st.assume(placed, "step-placed")
            j = bv("jo")
            others = forall([j], imp(z3.And(rng(j, 0, D.it.J), j != js), z3.Or(
                i + 1 <= D.it.cumL(j) - D.cumK(j), i >= D.it.cumL(j + 1) - D.cumK(j + 1))),
                patterns=[D.kj(j)])
            c.eng.oblige(st, "loop0:step:segments-of-other-jobs-do-not-contain-this-index", others, "ghost-assert")
            st.assume(others, "step-others")

        def start(c, st):
            h, d = st.heap, c["dispatcher"]
            D = Disp(h, d)
            j = bv("jn")
            nonneg = forall([j], imp(rng(j, 0, D.it.J + 1), z3.And(
                D.it.cumL(j) - D.cumK(j) >= 0, D.it.cumL(j) - D.cumK(j) <= D.it.N - D.n)), patterns=[D.it.cumL(j)])
            c.eng.oblige(st, "start:no-more-scheduled-than-there-are-before-any-job", nonneg, "ghost-assert")
            st.assume(nonneg, "start-nonneg")
        return {"job_remaining_work[operation.job_id] += operation.duration": step,
                "job_remaining_work = [0] * dispatcher.instance.num_jobs": start}

    @property
    def loops(self):
        def inv(k):
            h, d = k.h, k["dispatcher"]
            D = Disp(h, d)
            acc = k.v("job_remaining_work")
            U = h.get(US_VAL, d)
            j = bv("jw")
            return [("work-accumulated-so-far", z3.And(
                acc >= k.h0.alloc, acc < h.alloc, h.len(acc) == D.it.J, h.get(US_HAS, d) != 0, U != acc,
                k.n == h.len(U),
                forall([j], imp(rng(j, 0, D.it.J), h.at(acc, j) == remaining_work(h, D, j, upto=k.i)),
                       patterns=[h.at(acc, j), D.kj(j)]))),
                    ("segments-within-the-list", z3.And(h.len(U) == D.it.N - D.n, forall([j], imp(
                        rng(j, 0, D.it.J + 1), z3.And(D.it.cumL(j) - D.cumK(j) >= 0,
                                                      D.it.cumL(j) - D.cumK(j) <= D.it.N - D.n)),
                        patterns=[D.it.cumL(j)])))] + reach(h, d) + cache_ok(h, d) + cache_effect(k.h0, h, d)

        def mod(k):
            return Frame(lists=[k.v("job_remaining_work")])
        return {0: LoopSpec("for operation in dispatcher.unscheduled_operations()", inv, mod)}


# ---------------------------------------------------------------------------
# most_operations_remaining: counting the entries of uncompleted_operations() per job
# ---------------------------------------------------------------------------
UC_HAS = "$cache_has:uncompleted_operations"
UC_VAL = "$cache_val:uncompleted_operations"
_CNT = z3.Function("CountOfJob", z3.ArraySort(z3.IntSort(), z3.IntSort()), z3.ArraySort(z3.IntSort(), z3.IntSort()),
                   z3.IntSort(), z3.IntSort(), z3.IntSort())


def count_of_job(h, L, i, j):
    """spec function: how many of the first i entries of the list L are operations of job j"""
    return _CNT(h.farr("job_id"), h.elarr(L), i, j)


def count_definition():
    """the recursive definition of the spec function CountOfJob (recursion on i, for every job-id field array and
    every list content: a conservative definition, assumed at the entry of the functions that speak about it)"""
    IA = z3.ArraySort(z3.IntSort(), z3.IntSort())
    F, a = z3.Const("?cF", IA), z3.Const("?ca", IA)
    i, j = bv("ci"), bv("cj")
    return z3.And(
        forall([F, a, j], _CNT(F, a, 0, j) == 0, patterns=[_CNT(F, a, 0, j)]),
        forall([F, a, i, j], imp(i >= 0, _CNT(F, a, i + 1, j) == _CNT(F, a, i, j) + z3.If(
            z3.Select(F, z3.Select(a, i)) == j, 1, 0)), patterns=[_CNT(F, a, i + 1, j)]))


class _CountRule(Contract):
    """shared by most_operations_remaining_rule and most_operations_remaining_score: the accumulation loop leaves, for
    every job, the number of entries of uncompleted_operations() that belong to it"""
    acc = ""
    params = {"dispatcher": REF("Dispatcher")}
    properties = ("C04",)

    def ghost_entry(self, c, st):
        st.assume(count_definition(), "definition:CountOfJob")

    def loop_inv(self, k):
        h, d = k.h, k["dispatcher"]
        D = Disp(h, d)
        acc = k.v(self.acc)
        UC = h.get(UC_VAL, d)
        j = bv("jc")
        return [("counted-so-far", z3.And(
            acc >= k.h0.alloc, acc < h.alloc, h.len(acc) == D.it.J, h.get(UC_HAS, d) != 0, UC != acc, k.n == h.len(UC),
            forall([j], imp(rng(j, 0, D.it.J), h.at(acc, j) == count_of_job(h, UC, k.i, j)),
                   patterns=[h.at(acc, j)])))] + reach(h, d) + cache_ok(h, d) + cache_effect(k.h0, h, d)

    @property
    def loops(self):
        def mod(k):
            return Frame(lists=[k.v(self.acc)])
        return {0: LoopSpec("for operation in dispatcher.uncompleted_operations()", self.loop_inv, mod)}


def _uc_frame(c, d):
    fr = query_frame(c, d)
    fr.fields["$$og_idx"] = [d]
    fr.alloc_olists = True
    return fr


@register
class RuleMOR(_CountRule, _Rule):
    """most_operations_remaining_rule: returns an available operation whose job has the most entries in
    uncompleted_operations() (= unscheduled followed by ongoing: post-condition of that query's body)"""
    name = "most_operations_remaining_rule"
    acc = "job_remaining_operations"
    ret = REF("Operation")

    def requires(self, c):
        return _Rule.requires(self, c)

    def modifies(self, c):
        return _uc_frame(c, c["dispatcher"])

    def ensures(self, c):
        h, d, o = c.h, c["dispatcher"], c.result
        D = Disp(h, d)
        A, UC = h.get(AVAIL_VAL, d), h.get(UC_VAL, d)
        r = bv("rb")
        n = h.len(UC)
        return _Rule.ensures(self, c) + [("selected-is-best-under-the-criterion", z3.And(
            h.get(UC_HAS, d) != 0, forall([r], imp(
                rng(r, 0, h.len(A)),
                count_of_job(h, UC, n, D.it.jid(o)) >= count_of_job(h, UC, n, D.it.jid(h.at(A, r)))),
                patterns=[h.at(A, r)])))]


@register
class ScoreMOR(_CountRule):
    """most_operations_remaining_score: a scoring function (abstract scoring contract) whose score of job j is the
    number of entries of uncompleted_operations() that belong to job j"""
    name = "most_operations_remaining_score"
    acc = "scores"
    ret = LIST(INT)

    def requires(self, c):
        return AbstractScore().requires(c)

    def modifies(self, c):
        return _uc_frame(c, c["dispatcher"])

    def ensures(self, c):
        h, d = c.h, c["dispatcher"]
        D = Disp(h, d)
        UC = h.get(UC_VAL, d)
        j = bv("jc")
        return AbstractScore().ensures(c) + [("score-is-the-number-of-uncompleted-operations-of-the-job", z3.And(
            h.get(UC_HAS, d) != 0, forall([j], imp(
                rng(j, 0, D.it.J), h.at(c.result, j) == count_of_job(h, UC, h.len(UC), j)),
                patterns=[h.at(c.result, j)])))]


# ---------------------------------------------------------------------------
# BaseSolver.__call__
# ---------------------------------------------------------------------------
@register
class BaseSolverSolve(Contract):
    """abstract: any solver's solve() returns a schedule object"""
    name = "BaseSolver.solve"
    abstract = True
    ret = REF("Schedule")
    params = {"self": REF("BaseSolver"), "instance": REF("JobShopInstance")}

    def modifies(self, c):
        return Frame(alloc_objects=True, alloc_lists=True, olists="ALL")

    def ensures(self, c):
        return [("a-schedule", z3.And(c.result > 0, c.result < c.h.alloc, c.h.get("metadata", c.result) > 0))]


@register
class BaseSolverCall(Contract):
    name = "BaseSolver.__call__"
    ret = REF("Schedule")
    properties = ("C04",)

    def requires(self, c):
        return [("self", c["self"] > 0)]

    def modifies(self, c):
        return Frame(fields={"$item:elapsed_time": "ALL", "$item:solved_by": "ALL"}, alloc_objects=True, alloc_lists=True,
                     olists="ALL")

    def ensures(self, c):
        h = c.h
        md = h.get("metadata", c.result)
        return [("elapsed-time-non-negative", h.get("$item:elapsed_time", md) >= 0),
                ("solved-by-is-the-class-of-the-solver", h.get("$item:solved_by", md) == c.h0.get("$type", c["self"]))]


# ---------------------------------------------------------------------------
# score_based_rule_with_tie_breaker (the closure `rule`)
# ---------------------------------------------------------------------------
_MIDX = z3.Function("MemberIdx", z3.ArraySort(z3.IntSort(), z3.IntSort()), z3.IntSort(), z3.IntSort(), z3.IntSort())


def member(h, L, o):
    """o occurs in list L, witnessed by the Skolem index MemberIdx(content, length, o): a
    quantifier-free way of writing `exists r. L[r] == o` (it implies the exists form outright)"""
    i = _MIDX(h.elarr(L), h.len(L), o)
    return z3.And(rng(i, 0, h.len(L)), h.at(L, i) == o)


def member_axiom(h, L):
    """instances of the Skolem definition `(exists i. L[i] == o) => L[MemberIdx(L, o)] == o` for the
    elements of L themselves (witness: their own index) -- conservative, no proof obligation"""
    r = bv("rm")
    return forall([r], imp(rng(r, 0, h.len(L)), member(h, L, h.at(L, r))), patterns=[h.at(L, r)])


@register
class AbstractScore(Contract):
    """any scoring function: one integer score per job; may use the dispatcher's queries"""
    name = "abstract:score_function"
    abstract = True
    ret = LIST(INT)
    params = {"dispatcher": REF("Dispatcher")}

    def requires(self, c):
        return reach(c.h0, c["dispatcher"]) + cache_ok(c.h0, c["dispatcher"])

    def modifies(self, c):
        return query_frame(c, c["dispatcher"])

    def ensures(self, c):
        h, d = c.h, c["dispatcher"]
        D = Disp(h, d)
        return [("one-score-per-job", z3.And(c.result > 0, c.result < h.alloc, h.len(c.result) == D.it.J))] \
            + reach(h, d) + cache_ok(h, d) + cache_effect(c.h0, h, d)


# ghost state of one call of the tie-breaker rule (fields of the dispatcher):
#   $$tb_S[k]    the list the k-th scoring function returned,   $$tb_best[k]  the best score of round k,
#   $$tb_lvl[o]  number of rounds operation o has survived,     $tb_K         number of rounds evaluated
def _tb(h, d):
    return h.get("$$tb_S", d), h.get("$$tb_best", d), h.get("$$tb_lvl", d), h.get("$tb_K", d)


def _tb_score(h, D, S, k, o):
    """score of operation o in round k"""
    return h.at(z3.Select(S, k), D.it.jid(o))


def tb_levels(h, d, A, K, cand=None):
    """every available operation A[r] survived lvl rounds with the best score of each of them and, if it is out
    (lvl < K), lost round lvl strictly; those still in (lvl == K) are the candidates"""
    D = Disp(h, d)
    S, best, lvl, _ = _tb(h, d)
    r, k = bv("rt"), bv("kt")
    a = h.at(A, r)
    la = z3.Select(lvl, a)
    out = [("levels", forall([r], imp(rng(r, 0, h.len(A)), z3.And(
        la >= 0, la <= K, imp(la < K, _tb_score(h, D, S, la, a) < z3.Select(best, la)),
        *([imp(la == K, member(h, cand, a))] if cand is not None else []))), patterns=[h.at(A, r)])),
        ("survivors-had-the-best-score-of-every-round-they-survived", forall([r, k], imp(
            z3.And(rng(r, 0, h.len(A)), 0 <= k, k < la), _tb_score(h, D, S, k, a) == z3.Select(best, k)),
            patterns=[z3.MultiPattern(h.at(A, r), z3.Select(best, k))]))]
    return out


@register
class TieBreakerRule(_Rule):
    """score_based_rule_with_tie_breaker(fs).rule for ANY scoring functions honouring the abstract contract: returns an
    available operation that is lexicographically best under the scores the functions returned (ghost: the lists they
    returned, the best score of each round, the round in which each available operation dropped out)"""
    name = "score_based_rule_with_tie_breaker.rule"
    properties = ("C04",)
    _HYP = SHAPE + ["candidates-are-available-operations", "one-score-per-job", "cached-entries-kept",
                    "definition:MemberIdx", "result-are-operations", "result-are-ready", "result-in-job-order",
                    "non-empty-while-some-job-is-unfinished", "entry-is-cached-afterwards",
                    "some-operation-available", "scoring-functions-list-untouched", "levels",
                    "survivors-had-the-best-score-of-every-round-they-survived", "candidates-survived-every-round",
                    "rounds", "score-lists", "definition:tb-level", "cached-values-old-or-fresh",
                    "result-is-a-cached-list-or-new"]
    relevant = dict.fromkeys(
        ("candidates-are-available-operations", "selected-is-available",
         "selects-a-ready-operation-of-the-instance", "scoring-functions-list-untouched",
         "ValueError", "IndexError", "levels",
         "survivors-had-the-best-score-of-every-round-they-survived", "candidates-survived-every-round",
         "rounds", "score-lists", "selected-survived-every-round",
         "all-rounds-evaluated-or-the-selected-is-the-only-survivor"), _HYP)

    def setup(self, eng, st, args):
        lst = fresh("score_functions")
        st.assume(z3.And(lst > 0, lst < st.heap.alloc, st.heap.len(lst) >= 0))
        q = bv("qs")
        st.assume(forall([q], imp(rng(q, 0, st.heap.len(lst)), st.heap.at(lst, q) != 0)))
        self.globals = {"score_functions": Val(LIST(CALLREF("abstract:score_function")), lst)}

    def modifies(self, c):
        fr = query_frame(c, c["dispatcher"])
        for f in ("$$tb_S", "$$tb_best", "$$tb_lvl", "$tb_K"):
            fr.fields[f] = [c["dispatcher"]]
        return fr

    def ensures(self, c):
        h, d, o = c.h, c["dispatcher"], c.result
        D = Disp(h, d)
        A = h.get(AVAIL_VAL, d)
        S, best, lvl, K = _tb(h, d)
        fl = self.globals["score_functions"].t
        r = bv("rt")
        return _Rule.ensures(self, c) + [
            ("rounds", z3.And(K >= 0, K <= h.len(fl))),
            ("selected-survived-every-round", z3.Select(lvl, o) == K)] + tb_levels(h, d, A, K) + [
            # lexicographically best: with the two clauses above, every available operation either has the selected
            # one's score in every evaluated round, or has it in the rounds before some round and a smaller one there;
            # and the rounds that were not evaluated cannot matter:
            ("all-rounds-evaluated-or-the-selected-is-the-only-survivor", z3.Or(K == h.len(fl), forall(
                [r], imp(z3.And(rng(r, 0, h.len(A)), z3.Select(lvl, h.at(A, r)) == K), h.at(A, r) == o),
                patterns=[h.at(A, r)])))]

    @property
    def ghost_after(self):
        def start(c, st):
            h, d = st.heap, c["dispatcher"]
            st.assume(member_axiom(h, h.get(AVAIL_VAL, d)), "definition:MemberIdx")
            from .core import ZERO_ARR
            st.heap = h.put("$$tb_lvl", d, ZERO_ARR).put("$tb_K", d, z3.IntVal(0))

        def scored(c, st):
            h, d = st.heap, c["dispatcher"]
            i = c.eng.loop_stack[-1]
            st.heap = h.put("$$tb_S", d, z3.Store(h.get("$$tb_S", d), i, st.env["scores"].t))

        def best(c, st):
            h, d = st.heap, c["dispatcher"]
            i = c.eng.loop_stack[-1]
            st.heap = h.put("$$tb_best", d, z3.Store(h.get("$$tb_best", d), i, st.env["best_score"].t))

        def filtered(c, st):
            # the operations that were still in and have the best score of this round survive one more round
            h, d = st.heap, c["dispatcher"]
            D = Disp(h, d)
            i = c.eng.loop_stack[-1]
            S, bst, lvl, _ = _tb(h, d)
            new = fresh("tb_lvl", lvl.sort())
            a = bv("at")
            st.assume(forall([a], z3.Select(new, a) == z3.If(
                z3.And(z3.Select(lvl, a) == i, _tb_score(h, D, S, i, a) == z3.Select(bst, i)), i + 1, z3.Select(lvl, a)),
                patterns=[z3.Select(new, a)]), "definition:tb-level")
            st.heap = h.put("$$tb_lvl", d, new).put("$tb_K", d, i + 1)
            st.assume(member_axiom(st.heap, st.env["candidates"].t), "definition:MemberIdx")
        return {"candidates = dispatcher.available_operations()": start,
                "scores = scoring_function(dispatcher)": scored,
                "best_score = max((scores[operation.job_id] for operation in candidates))": best,
                "candidates = [operation for operation in candidates if scores[operation.job_id] == best_score]": filtered}

    @property
    def loops(self):
        def inv(k):
            h, d = k.h, k["dispatcher"]
            D = Disp(h, d)
            cand = k.v("candidates")
            A = h.get(AVAIL_VAL, d)
            r, q = bv("rc"), bv("kq")
            fl = self.globals["score_functions"].t
            S, best, lvl, K = _tb(h, d)
            return [("candidates-are-available-operations", z3.And(
                cand > 0, cand < h.alloc, h.len(cand) > 0, h.get(AVAIL_HAS, d) != 0, A > 0, A < h.alloc,
                forall([r], imp(rng(r, 0, h.len(cand)), z3.And(
                    D.it.is_op(h.at(cand, r)), D.it.pos(h.at(cand, r)) == D.kj(D.it.jid(h.at(cand, r))),
                    member(h, A, h.at(cand, r)))), patterns=[h.at(cand, r)]))),
                ("scoring-functions-list-untouched", z3.And(h.len(fl) == k.h0.len(fl), h.elarr(fl) == k.h0.elarr(fl))),
                ("rounds", z3.And(K == k.i, k.n == h.len(fl))),
                ("score-lists", forall([q], imp(rng(q, 0, k.i), z3.And(
                    z3.Select(S, q) > 0, z3.Select(S, q) < h.alloc, h.len(z3.Select(S, q)) == D.it.J)),
                    patterns=[z3.Select(S, q)])),
                ("candidates-survived-every-round", forall([r], imp(rng(r, 0, h.len(cand)),
                                                                    z3.Select(lvl, h.at(cand, r)) == k.i),
                                                           patterns=[h.at(cand, r)]))] \
                + tb_levels(h, d, A, k.i, cand) + reach(h, d) + cache_ok(h, d) + cache_effect(k.h0, h, d)

        def mod(k):
            fr = query_frame(k, k["dispatcher"])
            for f in ("$$tb_S", "$$tb_best", "$$tb_lvl", "$tb_K"):
                fr.fields[f] = [k["dispatcher"]]
            return fr
        return {0: LoopSpec("for scoring_function in score_functions", inv, mod)}


@register
class ScoreBasedRule(_Rule):
    """score_based_rule(f).rule for ANY scoring function f honouring the abstract contract: returns an
    available operation (that it maximises f's score is decided by the bounded run)"""
    name = "score_based_rule.rule"
    relevant = {n: SHAPE + ["one-score-per-job", "cached-entries-kept", "result-are-operations", "result-are-ready",
                            "non-empty-while-some-job-is-unfinished", "entry-is-cached-afterwards",
                            "some-operation-available"]
                for n in ("selected-is-available", "selects-a-ready-operation-of-the-instance", "ValueError", "IndexError",
                          "selected-has-a-highest-score")}

    def setup(self, eng, st, args):
        f = fresh("score_function")
        st.assume(f != 0)
        self.globals = {"score_function": Val(CALLREF("abstract:score_function"), f)}

    # ghost: the list the scoring function returned in this call (so that the post-condition can speak about it)
    @property
    def ghost_after(self):
        def returned(c, st):
            st.heap = st.heap.put("$last_scores", c["dispatcher"], st.env["scores"].t)
        return {"scores = score_function(dispatcher)": returned}

    def modifies(self, c):
        fr = query_frame(c, c["dispatcher"])
        fr.fields["$last_scores"] = [c["dispatcher"]]
        return fr

    def ensures(self, c):
        h, d, o = c.h, c["dispatcher"], c.result
        D = Disp(h, d)
        S, A = h.get("$last_scores", d), h.get(AVAIL_VAL, d)
        r = bv("rb")
        return _Rule.ensures(self, c) + [("selected-has-a-highest-score", forall([r], imp(
            rng(r, 0, h.len(A)), h.at(S, D.it.jid(o)) >= h.at(S, D.it.jid(h.at(A, r)))), patterns=[h.at(A, r)]))]


# ---------------------------------------------------------------------------
# built-in scoring functions against the abstract scoring contract
# ---------------------------------------------------------------------------
class _ScoreFn(Contract):
    """scores[job] for the job of every available operation is `val(operation)`; the function is a
    scoring function in the sense of `abstract:score_function`"""
    ret = LIST(INT)
    params = {"dispatcher": REF("Dispatcher")}
    properties = ("C04",)
    val = None
    relevant = {n: SHAPE + ["scores-so-far", "result-in-job-order", "result-are-operations", "result-are-ready",
                            "entry-is-cached-afterwards"]
                for n in ("scores-so-far", "score-of-every-available-operation", "one-score-per-job", "IndexError")}

    def requires(self, c):
        return AbstractScore().requires(c)

    def modifies(self, c):
        return query_frame(c, c["dispatcher"])

    def ensures(self, c):
        h, d = c.h, c["dispatcher"]
        A = h.get(AVAIL_VAL, d)
        r = bv("rs")
        return AbstractScore().ensures(c) + [
            ("score-of-every-available-operation", z3.And(h.get(AVAIL_HAS, d) != 0, forall(
                [r], imp(rng(r, 0, h.len(A)), h.at(c.result, h.get("job_id", h.at(A, r))) == self.val(h, h.at(A, r))),
                patterns=[h.at(A, r)])))]

    @property
    def loops(self):
        def inv(k):
            h, d = k.h, k["dispatcher"]
            D = Disp(h, d)
            S = k.v("scores")
            A = h.get(AVAIL_VAL, d)
            r = bv("rs")
            return [("scores-so-far", z3.And(
                S >= k.h0.alloc, S < h.alloc, h.len(S) == D.it.J, h.get(AVAIL_HAS, d) != 0, A != S, k.n == h.len(A),
                forall([r], imp(rng(r, 0, k.i), h.at(S, h.get("job_id", h.at(A, r))) == self.val(h, h.at(A, r))),
                       patterns=[h.at(A, r)])))] + reach(h, d) + cache_ok(h, d) \
                + cache_effect(k.h0, h, d)

        def mod(k):
            return Frame(lists=[k.v("scores")])
        return {0: LoopSpec("for operation in dispatcher.available_operations()", inv, mod)}


@register
class ScoreSPT(_ScoreFn):
    name = "shortest_processing_time_score"
    val = staticmethod(lambda h, o: -h.get("duration", o))


@register
class ScoreFCFS(_ScoreFn):
    name = "first_come_first_served_score"
    val = staticmethod(lambda h, o: h.get("operation_id", o))
