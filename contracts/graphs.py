"""C16 / C17 (deductive part): JobShopGraph, its node bookkeeping and node removal.

networkx is used through [TRUSTED] contracts (registered below): a DiGraph carries a ghost node set `$$gn`
(node id -> 0/1) and a ghost edge map `$$ge` (Pair(u, v) -> 0 for "no edge", otherwise 1 + the edge's type code),
where Pair is an injective pairing function (PairU / PairV its projections).  add_node / add_edge / remove_node /
remove_nodes_from / isolates / `in` mean what their names say; in particular remove_node(n) removes every edge
that touches n, and add_edge(u, v, type=t) on an existing edge overwrites its type.
"""
from __future__ import annotations

import z3

from pyvc.engine import Contract, Frame, LoopSpec, OutsideSubset
from pyvc.library import ext_function, ext_method
from pyvc.values import ANY, BOOL, EXT, INT, LIST, OPT, REF, TUPLE, Ty, UNION, VNONE, Val, forall, fresh, to_int, vbool, vint

from .core import register
from .spec import FIELD_TYPES, Inst, bv, imp, rng, valid_instance

I = z3.IntSort()
Pair = z3.Function("Pair", I, I, I)
PairU = z3.Function("PairU", I, I)
PairV = z3.Function("PairV", I, I)
NODE_TYPES = ["OPERATION", "MACHINE", "JOB", "GLOBAL", "SOURCE", "SINK"]
T_OP, T_MACHINE, T_JOB, T_GLOBAL, T_SOURCE, T_SINK = range(6)
UNTYPED = 100      # code of an edge added without a `type=` attribute

FIELD_TYPES.update({
    "Node.node_type": Ty("enum", "NodeType"), "Node._node_id": OPT(INT), "Node._operation": REF("Operation"),
    "Node._machine_id": OPT(INT), "Node._job_id": OPT(INT),
    "JobShopGraph.graph": EXT("DiGraph"), "JobShopGraph.instance": REF("JobShopInstance"),
    "JobShopGraph._nodes": LIST(REF("Node")), "JobShopGraph._nodes_by_type": LIST(LIST(REF("Node"))),
    "JobShopGraph._nodes_by_machine": LIST(LIST(REF("Node"))), "JobShopGraph._nodes_by_job": LIST(LIST(REF("Node"))),
    "JobShopGraph._next_node_id": INT, "JobShopGraph.removed_nodes": LIST(BOOL),
})
NODE_FIELDS = ["node_type", "_node_id", "_node_id#none", "_operation", "_machine_id", "_machine_id#none", "_job_id", "_job_id#none"]
GRAPH_FIELDS = ["graph", "instance", "_nodes", "_nodes_by_type", "_nodes_by_machine", "_nodes_by_job", "_next_node_id",
                "removed_nodes"]
NX_FIELDS = ["$$gn", "$$ge"]


def pair_axiom():
    u, v = bv("pu"), bv("pv")
    return forall([u, v], z3.And(PairU(Pair(u, v)) == u, PairV(Pair(u, v)) == v), patterns=[Pair(u, v)])


def gn(h, G, x):
    return z3.Select(h.get("$$gn", G), x) != 0


def ge(h, G, u, v):
    return z3.Select(h.get("$$ge", G), Pair(u, v))


# ---------------------------------------------------------------------------
# [TRUSTED] networkx
# ---------------------------------------------------------------------------
@ext_function("nx.DiGraph", "networkx.DiGraph() is a new graph without nodes and edges")
def _new_graph(eng, e, st):
    r = eng.alloc_ref(st)
    st.heap = st.heap.put("$$gn", r, z3.K(I, z3.IntVal(0))).put("$$ge", r, z3.K(I, z3.IntVal(0)))
    st.assume(pair_axiom(), "definition:pair")
    return [(st, Val(EXT("DiGraph"), r))]


@ext_method("DiGraph", "add_node", "G.add_node(n, **attrs) adds node n (no edge changes)")
def _g_add_node(eng, e, st, obj):
    out = []
    for s, pos, kw in eng.eval_args(e, st):
        if s.status == "run":
            s.heap = s.heap.put("$$gn", obj.t, z3.Store(s.heap.get("$$gn", obj.t), to_int(pos[0]), z3.IntVal(1)))
        out.append((s, VNONE if s.status == "run" else None))
    return out


@ext_method("DiGraph", "__contains__", "`n in G` iff n is a node of G")
def _g_contains(eng, st, coll, x):
    return gn(st.heap, coll.t, to_int(x))


@ext_method("DiGraph", "add_edge", "G.add_edge(u, v, type=t) adds the edge (u, v) with that type (overwriting the type of an "
                                   "existing edge (u, v)) and the nodes u, v if they are missing; nothing else changes")
def _g_add_edge(eng, e, st, obj):
    out = []
    for s, pos, kw in eng.eval_args(e, st):
        if s.status != "run":
            out.append((s, None))
            continue
        h, G = s.heap, obj.t
        u, v = to_int(pos[0]), to_int(pos[1])
        if set(kw) - {"type"}:
            raise OutsideSubset("add_edge with attributes other than type=")
        code = (to_int(kw["type"]) + 1) if "type" in kw else z3.IntVal(UNTYPED)
        s.assume(z3.And(PairU(Pair(u, v)) == u, PairV(Pair(u, v)) == v), "definition:pair")
        nodes = z3.Store(z3.Store(h.get("$$gn", G), u, z3.IntVal(1)), v, z3.IntVal(1))
        s.heap = h.put("$$ge", G, z3.Store(h.get("$$ge", G), Pair(u, v), code)).put("$$gn", G, nodes)
        out.append((s, VNONE))
    return out


def _remove_nodes(eng, s, G, removed_pred):
    """new node set / edge map after removing every node x with removed_pred(x) (and all edges touching one)"""
    h = s.heap
    N0, E0 = h.get("$$gn", G), h.get("$$ge", G)
    N1, E1 = fresh("gn", z3.ArraySort(I, I)), fresh("ge", z3.ArraySort(I, I))
    x, u, v = bv("rx"), bv("ru"), bv("rv")
    s.assume(forall([x], z3.Select(N1, x) == z3.If(removed_pred(x), 0, z3.Select(N0, x)), patterns=[z3.Select(N1, x)]),
             "trusted:remove-node")
    s.assume(forall([u, v], z3.Select(E1, Pair(u, v)) == z3.If(z3.Or(removed_pred(u), removed_pred(v)), 0,
                                                                z3.Select(E0, Pair(u, v))),
                    patterns=[z3.Select(E1, Pair(u, v))]), "trusted:remove-node")
    s.assume(pair_axiom(), "definition:pair")
    s.heap = h.put("$$gn", G, N1).put("$$ge", G, E1)


@ext_method("DiGraph", "remove_node", "G.remove_node(n) removes n and every edge that touches n; other nodes and edges stay")
def _g_remove_node(eng, e, st, obj):
    out = []
    for s, pos, kw in eng.eval_args(e, st):
        if s.status != "run":
            out.append((s, None))
            continue
        n = to_int(pos[0])
        okst, bad = eng.split(s, gn(s.heap, obj.t, n), "NetworkXError", e)
        out.extend((b, None) for b in bad)
        if okst is not None:
            _remove_nodes(eng, okst, obj.t, lambda x: x == n)
            out.append((okst, VNONE))
    return out


@ext_method("DiGraph", "remove_nodes_from", "G.remove_nodes_from(ns) removes the nodes of the list (those present) with their edges")
def _g_remove_nodes_from(eng, e, st, obj):
    out = []
    for s, pos, kw in eng.eval_args(e, st):
        if s.status != "run":
            out.append((s, None))
            continue
        lst = pos[0]
        h = s.heap
        q = bv("rq")
        _remove_nodes(eng, s, obj.t, lambda x: z3.Exists([q], z3.And(rng(q, 0, h.len(lst)), h.at(lst, q) == x)))
        out.append((s, VNONE))
    return out


@ext_function("nx.isolates", "networkx.isolates(G): the nodes of G without incident edges (as a duplicate-free sequence)")
def _isolates(eng, e, st):
    from pyvc.engine import IterView
    out = []
    for s, pos, kw in eng.eval_args(e, st):
        if s.status != "run":
            out.append((s, None))
            continue
        G = to_int(pos[0])
        h = s.heap
        n = fresh("niso")
        elems = fresh("iso", z3.ArraySort(I, I))
        idx = z3.Function(f"isoidx!{n}", I, I)
        q, x, y = bv("iq"), bv("ix"), bv("iy")
        iso = lambda t: z3.And(gn(h, G, t), forall([y], z3.And(ge(h, G, t, y) == 0, ge(h, G, y, t) == 0)))  # noqa: E731
        s.assume(n >= 0, "trusted:isolates")
        s.assume(forall([q], imp(rng(q, 0, n), z3.And(iso(z3.Select(elems, q)), idx(z3.Select(elems, q)) == q)),
                        patterns=[z3.Select(elems, q)]), "trusted:isolates")
        s.assume(forall([x], imp(iso(x), z3.And(rng(idx(x), 0, n), z3.Select(elems, idx(x)) == x)), patterns=[idx(x)]),
                 "trusted:isolates")
        out.append((s, Val(Ty("iter"), IterView(n, lambda hh, j, elems=elems: vint(z3.Select(elems, j))))))
    return out


# ---------------------------------------------------------------------------
# Node
# ---------------------------------------------------------------------------
def _opt(h, f, x):
    return h.get(f + "#none", x) != 0, h.get(f, x)


@register
class NodeInit(Contract):
    name = "Node.__init__"
    properties = ("C16",)
    params = {"self": REF("Node"), "node_type": Ty("enum", "NodeType"), "operation": REF("Operation"),
              "machine_id": OPT(INT), "job_id": OPT(INT)}

    def requires(self, c):
        return [("new-object", c["self"] > 0)]

    def raises(self, c):
        t = c["node_type"]
        return [("ValidationError", "required-attribute-missing", z3.Or(
            z3.And(t == T_OP, c["operation"] == 0), z3.And(t == T_MACHINE, c.val("machine_id").aux),
            z3.And(t == T_JOB, c.val("job_id").aux)))]

    def modifies(self, c):
        return Frame(fields={f: [c["self"]] for f in NODE_FIELDS})

    def ensures(self, c):
        h, x = c.h, c["self"]
        mi, ji = c.val("machine_id"), c.val("job_id")
        return [("fields", z3.And(
            h.get("node_type", x) == c["node_type"], h.get("_node_id#none", x) != 0, h.get("_operation", x) == c["operation"],
            (h.get("_machine_id#none", x) != 0) == mi.aux, imp(z3.Not(mi.aux), h.get("_machine_id", x) == mi.t.t),
            (h.get("_job_id#none", x) != 0) == ji.aux, imp(z3.Not(ji.aux), h.get("_job_id", x) == ji.t.t)))]


class _NodeGetter(Contract):
    properties = ("C16",)
    params = {"self": REF("Node")}
    pure = True
    field = ""

    def requires(self, c):
        return [("self", c["self"] > 0)]


@register
class NodeId(_NodeGetter):
    name = "Node.node_id"
    ret = INT

    def raises(self, c):
        return [("UninitializedAttributeError", "no-id-yet", c.h0.get("_node_id#none", c["self"]) != 0)]

    def ensures(self, c):
        return [("value", c.result == c.h0.get("_node_id", c["self"]))]


@register
class NodeIdSetter(Contract):
    name = "Node.node_id.setter"
    properties = ("C16",)
    params = {"self": REF("Node"), "value": INT}

    def requires(self, c):
        return [("self", c["self"] > 0)]

    def modifies(self, c):
        return Frame(fields={"_node_id": [c["self"]], "_node_id#none": [c["self"]]})

    def ensures(self, c):
        h, x = c.h, c["self"]
        return [("set", z3.And(h.get("_node_id#none", x) == 0, h.get("_node_id", x) == c["value"]))]


@register
class NodeOperation(_NodeGetter):
    name = "Node.operation"
    ret = REF("Operation")

    def raises(self, c):
        return [("UninitializedAttributeError", "no-operation", c.h0.get("_operation", c["self"]) == 0)]

    def ensures(self, c):
        return [("value", c.result == c.h0.get("_operation", c["self"]))]


@register
class NodeMachineId(_NodeGetter):
    name = "Node.machine_id"
    ret = INT

    def raises(self, c):
        return [("UninitializedAttributeError", "no-machine-id", c.h0.get("_machine_id#none", c["self"]) != 0)]

    def ensures(self, c):
        return [("value", c.result == c.h0.get("_machine_id", c["self"]))]


@register
class NodeJobId(_NodeGetter):
    name = "Node.job_id"
    ret = INT

    def raises(self, c):
        return [("UninitializedAttributeError", "no-job-id", c.h0.get("_job_id#none", c["self"]) != 0)]

    def ensures(self, c):
        return [("value", c.result == c.h0.get("_job_id", c["self"]))]


# ---------------------------------------------------------------------------
# JobShopGraph: representation invariant
# ---------------------------------------------------------------------------
class G:
    def __init__(self, h, g):
        self.h, self.g = h, g
        self.nx = h.get("graph", g)
        self.I = h.get("instance", g)
        self.nodes = h.get("_nodes", g)
        self.by_type = h.get("_nodes_by_type", g)
        self.by_machine = h.get("_nodes_by_machine", g)
        self.by_job = h.get("_nodes_by_job", g)
        self.removed = h.get("removed_nodes", g)
        self.n = h.len(self.nodes)

    def node(self, i):
        return self.h.at(self.nodes, i)

    def is_removed(self, i):
        return self.h.at(self.removed, i) != 0


def graph_ok(h, g):
    """GraphOK(g): node i of `_nodes` has id i; the flags `removed_nodes` mirror the networkx node set; edges only
    join present nodes; the id counter is the number of nodes"""
    X = G(h, g)
    i, x, u, v = bv("gi"), bv("gx"), bv("gu"), bv("gv")
    A = h.alloc
    own = [X.nodes, X.by_type, X.by_machine, X.by_job, X.removed]
    return [
        ("G-shape", z3.And(g > 0, g < A, X.nx > 0, X.nx < A, X.I > 0, X.I < g, z3.And([z3.And(l > g, l < A) for l in own]),
                           z3.Distinct(*own), X.n >= 0, h.get("_next_node_id", g) == X.n, h.len(X.removed) == X.n,
                           h.len(X.by_type) == len(NODE_TYPES))),
        ("G-node-ids", forall([i], imp(rng(i, 0, X.n), z3.And(
            X.node(i) > 0, X.node(i) < A, h.get("_node_id#none", X.node(i)) == 0, h.get("_node_id", X.node(i)) == i)),
            patterns=[h.at(X.nodes, i)])),
        ("G-flags-mirror-the-graph", z3.And(
            forall([i], imp(rng(i, 0, X.n), gn(h, X.nx, i) == z3.Not(X.is_removed(i))),
                   patterns=[h.at(X.removed, i), z3.Select(h.get("$$gn", X.nx), i)]),
            forall([x], imp(gn(h, X.nx, x), rng(x, 0, X.n)), patterns=[z3.Select(h.get("$$gn", X.nx), x)]))),
        ("G-edges-join-present-nodes", forall([u, v], imp(ge(h, X.nx, u, v) != 0, z3.And(gn(h, X.nx, u), gn(h, X.nx, v))),
                                              patterns=[z3.Select(h.get("$$ge", X.nx), Pair(u, v))])),
        ("pair-injective", pair_axiom()),
    ]


@register
class GraphRemoveNode(Contract):
    name = "JobShopGraph.remove_node"
    properties = ("C17",)
    params = {"self": REF("JobShopGraph"), "node_id": INT}

    def requires(self, c):
        h, g = c.h0, c["self"]
        X = G(h, g)
        return graph_ok(h, g) + [("a-present-node", z3.And(rng(c["node_id"], 0, X.n), z3.Not(X.is_removed(c["node_id"]))))]

    def modifies(self, c):
        X = G(c.h0, c["self"])
        return Frame(fields={"$$gn": [X.nx], "$$ge": [X.nx]}, lists=[X.removed], alloc_lists=True)

    def ensures(self, c):
        h0, h, g = c.h0, c.h, c["self"]
        X0, X = G(h0, g), G(h, g)
        i = bv("gi")
        return graph_ok(h, g) + [
            ("the-node-is-removed", X.is_removed(c["node_id"])),
            ("removals-are-permanent", forall([i], imp(z3.And(rng(i, 0, X0.n), X0.is_removed(i)), X.is_removed(i)),
                                              patterns=[h.at(X.removed, i)])),
            ("same-nodes", z3.And(X.n == X0.n, X.nodes == X0.nodes, X.nx == X0.nx, X.removed == X0.removed)),
        ]

    @property
    def loops(self):
        def inv(k):
            h0, h, g = k.h0, k.h, k["self"]
            X0, X = G(h0, g), G(h, g)
            i = bv("gi")
            iso = k.v("isolated_nodes")
            q = bv("lq")
            return [("same-lists", z3.And(X.removed == X0.removed, h.len(X.removed) == X0.n, X.nx == X0.nx)),
                    ("flagged-so-far", forall([q], imp(rng(q, 0, k.i), h.at(X.removed, h.at(iso, q)) != 0), patterns=[h.at(iso, q)])),
                    ("others-as-before", forall([i], imp(rng(i, 0, X0.n), z3.Or(
                        h.at(X.removed, i) == k.hl.at(X.removed, i),
                        z3.Exists([q], z3.And(rng(q, 0, k.i), h.at(iso, q) == i)))), patterns=[h.at(X.removed, i)]))]

        def mod(k):
            X = G(k.h0, k["self"])
            return Frame(lists=[X.removed])
        return {0: LoopSpec("for isolated_node in isolated_nodes", inv, mod)}


@register
class RemoveCompletedOperations(Contract):
    name = "remove_completed_operations"
    properties = ("C17",)
    params = {"job_shop_graph": REF("JobShopGraph"), "completed_operations": LIST(REF("Operation"))}

    def requires(self, c):
        h, g, L = c.h0, c["job_shop_graph"], c["completed_operations"]
        X = G(h, g)
        q = bv("cq")
        return graph_ok(h, g) + [
            ("operations", z3.And(L > 0, L < h.alloc, z3.And([L != l for l in (X.nodes, X.removed)]))),
            ("operation-ids-are-node-ids", forall([q], imp(rng(q, 0, h.len(L)), z3.And(
                h.at(L, q) > 0, rng(h.get("operation_id", h.at(L, q)), 0, X.n))), patterns=[h.at(L, q)]))]

    def modifies(self, c):
        X = G(c.h0, c["job_shop_graph"])
        return Frame(fields={"$$gn": [X.nx], "$$ge": [X.nx]}, lists=[X.removed], alloc_lists=True)

    def ensures(self, c):
        h0, h, g, L = c.h0, c.h, c["job_shop_graph"], c["completed_operations"]
        X0, X = G(h0, g), G(h, g)
        q, i = bv("cq"), bv("gi")
        return graph_ok(h, g) + [
            ("every-completed-operation's-node-is-removed", forall([q], imp(
                rng(q, 0, h0.len(L)), X.is_removed(h0.get("operation_id", h0.at(L, q)))), patterns=[h0.at(L, q)])),
            ("removals-are-permanent", forall([i], imp(z3.And(rng(i, 0, X0.n), X0.is_removed(i)), X.is_removed(i)),
                                              patterns=[h.at(X.removed, i)])),
            ("same-nodes", z3.And(X.n == X0.n, X.nodes == X0.nodes, X.nx == X0.nx, X.removed == X0.removed)),
        ]

    @property
    def loops(self):
        def inv(k):
            h0, h, g, L = k.h0, k.h, k["job_shop_graph"], k["completed_operations"]
            X0, X = G(h0, g), G(h, g)
            q, i = bv("cq"), bv("gi")
            return graph_ok(h, g) + [
                ("same-nodes", z3.And(X.n == X0.n, X.nodes == X0.nodes, X.nx == X0.nx, X.removed == X0.removed)),
                ("input-unchanged", z3.And(h.len(L) == h0.len(L), forall([q], imp(rng(q, 0, h0.len(L)), h.at(L, q) == h0.at(L, q)),
                                                                         patterns=[h.at(L, q)]))),
                ("removed-so-far", forall([q], imp(rng(q, 0, k.i), X.is_removed(h0.get("operation_id", h0.at(L, q)))),
                                          patterns=[h0.at(L, q)])),
                ("removals-are-permanent", forall([i], imp(z3.And(rng(i, 0, X0.n), X0.is_removed(i)), X.is_removed(i)),
                                                  patterns=[h.at(X.removed, i)])),
            ]

        def mod(k):
            X = G(k.h0, k["job_shop_graph"])
            return Frame(fields={"$$gn": [X.nx], "$$ge": [X.nx]}, lists=[X.removed], alloc_lists=True)
        return {0: LoopSpec("for operation in completed_operations", inv, mod)}


# ---------------------------------------------------------------------------
# node bookkeeping: add_node, add_operation_nodes, __init__
# ---------------------------------------------------------------------------
def tables_ok(h, g):
    """the per-type / per-job / per-machine tables are lists of pairwise distinct row lists, distinct from the other
    lists of the graph; their lengths are the number of node types / jobs / machines of the instance"""
    X = G(h, g)
    it = Inst(h, X.I)
    A = h.alloc
    t, t2 = bv("tt"), bv("tt2")
    own = [X.nodes, X.by_type, X.by_machine, X.by_job, X.removed]

    def table(T, n, tag):
        row = lambda k: h.at(T, k)  # noqa: E731
        return [
            (f"T-{tag}-rows", forall([t], imp(rng(t, 0, n), z3.And(row(t) > g, row(t) < A, h.len(row(t)) >= 0,
                                                                     z3.And([row(t) != l for l in own]))), patterns=[h.at(T, t)])),
            (f"T-{tag}-rows-distinct", forall([t, t2], imp(z3.And(rng(t, 0, n), rng(t2, 0, n), row(t) == row(t2)), t == t2),
                                              patterns=[z3.MultiPattern(h.at(T, t), h.at(T, t2))])),
        ]
    out = [("T-sizes", z3.And(h.len(X.by_type) == len(NODE_TYPES), h.len(X.by_job) == it.J, h.len(X.by_machine) == it.NM)),
           # allocation layout left by __init__: nodes, type table + rows, machine table + rows, job table + rows, flags
           ("T-layout", z3.And(
               X.nodes < X.by_type, X.by_type < X.by_machine, X.by_machine < X.by_job, X.by_job < X.removed,
               forall([t], imp(rng(t, 0, len(NODE_TYPES)), z3.And(h.at(X.by_type, t) > X.by_type, h.at(X.by_type, t) < X.by_machine)),
                      patterns=[h.at(X.by_type, t)]),
               forall([t], imp(rng(t, 0, it.NM), z3.And(h.at(X.by_machine, t) > X.by_machine, h.at(X.by_machine, t) < X.by_job)),
                      patterns=[h.at(X.by_machine, t)]),
               forall([t], imp(rng(t, 0, it.J), z3.And(h.at(X.by_job, t) > X.by_job, h.at(X.by_job, t) < X.removed)),
                      patterns=[h.at(X.by_job, t)])))]
    out += table(X.by_type, len(NODE_TYPES), "type") + table(X.by_job, it.J, "job") + table(X.by_machine, it.NM, "machine")
    # (rows of different tables are different lists: a consequence of T-layout -- each table's rows lie between that
    # table and the next one -- and no longer stated with a quantifier over pairs of rows, which instantiated
    # quadratically)
    return out


def appended(h0, h, l, x):
    """list l in h = list l in h0 followed by x"""
    q = bv("aq")
    n = h0.len(l)
    return z3.And(h.len(l) == n + 1, h.at(l, n) == x,
                  forall([q], imp(rng(q, 0, n), h.at(l, q) == h0.at(l, q)), patterns=[h.at(l, q)]))


def unchanged(h0, h, l):
    q = bv("aq")
    return z3.And(h.len(l) == h0.len(l), forall([q], imp(rng(q, 0, h0.len(l)), h.at(l, q) == h0.at(l, q)), patterns=[h.at(l, q)]))


def graph_lists_frame(h, g):
    """lists add_node may change: `_nodes`, `removed_nodes` and the rows of the three tables"""
    X = G(h, g)
    it = Inst(h, X.I)
    t = bv("ft")

    def pred(l):
        # all of them were allocated after the graph object (GraphOK / TablesOK): stated by that bound, which keeps
        # every list of the instance (older than the graph) outside the frame without any case analysis
        return z3.And(l >= X.nodes, l <= X.removed)   # (T-layout: every list of the graph lies in this range)
    return pred


@register
class GraphAddNode(Contract):
    name = "JobShopGraph.add_node"
    properties = ("C16",)
    params = {"self": REF("JobShopGraph"), "node_for_adding": REF("Node")}

    def requires(self, c):
        h, g, x = c.h0, c["self"], c["node_for_adding"]
        X = G(h, g)
        it = Inst(h, X.I)
        o = h.get("_operation", x)
        q, i = bv("mq"), bv("gi")
        return graph_ok(h, g) + tables_ok(h, g) + valid_instance(h, X.I, bound=g) + [
            ("a-node-not-in-the-graph", z3.And(x > 0, x < h.alloc, rng(h.get("node_type", x), 0, len(NODE_TYPES)),
                                               forall([i], imp(rng(i, 0, X.n), X.node(i) != x), patterns=[h.at(X.nodes, i)]))),
            ("operation-node-of-this-instance", imp(z3.And(h.get("node_type", x) == T_OP, o != 0), it.is_op(o)))]

    def raises(self, c):
        h, x = c.h0, c["node_for_adding"]
        return [("UninitializedAttributeError", "operation-node-without-operation",
                 z3.And(h.get("node_type", x) == T_OP, h.get("_operation", x) == 0))]

    def exc_modifies(self, c, exc):
        return self.modifies(c)

    def modifies(self, c):
        h, g, x = c.h0, c["self"], c["node_for_adding"]
        X = G(h, g)
        return Frame(fields={"_node_id": [x], "_node_id#none": [x], "_next_node_id": [g], "$$gn": [X.nx], "$$mpos": [g]},
                     lists=graph_lists_frame(h, g))

    @property
    def ghost_after(self):
        def placed(c, st):
            # ghost: position of the node in the machine row it was just appended to
            h, g = st.heap, c["self"]
            row = h.at(h.get("_nodes_by_machine", g), st.env["machine_id"].t)
            k = h.get("_node_id", c["node_for_adding"])
            st.heap = h.put("$$mpos", g, z3.Store(h.get("$$mpos", g), k, h.len((row, "c")) - 1))
        return {"self._nodes_by_machine[machine_id].append(node_for_adding)": placed}

    def ensures(self, c):
        h0, h, g, x = c.h0, c.h, c["self"], c["node_for_adding"]
        X0, X = G(h0, g), G(h, g)
        it = Inst(h0, X0.I)
        ty = h0.get("node_type", x)
        o = h0.get("_operation", x)
        t = bv("tt")
        return graph_ok(h, g) + tables_ok(h, g) + [
            ("gets-the-next-id-and-is-appended", z3.And(h.get("_node_id", x) == X0.n, h.get("_node_id#none", x) == 0,
                                                        appended(h0, h, X0.nodes, x), X.nodes == X0.nodes)),
            ("not-removed-no-new-edges", z3.And(z3.Not(X.is_removed(X0.n)), h.get("$$ge", X.nx) == h0.get("$$ge", X0.nx))),
            ("flags-of-earlier-nodes-kept", forall([bv("gi")], imp(rng(bv("gi"), 0, X0.n), X.is_removed(bv("gi")) == X0.is_removed(bv("gi"))),
                                                   patterns=[h.at(X.removed, bv("gi"))])),
            ("listed-under-its-type", z3.And(
                X.by_type == X0.by_type,
                forall([t], imp(rng(t, 0, len(NODE_TYPES)), z3.And(
                    h.at(X.by_type, t) == h0.at(X0.by_type, t),
                    z3.If(t == ty, appended(h0, h, h0.at(X0.by_type, t), x), unchanged(h0, h, h0.at(X0.by_type, t))))),
                    patterns=[h.at(X.by_type, t), h0.at(X0.by_type, t)]))),
            ("operation-nodes-listed-under-their-job", z3.And(
                X.by_job == X0.by_job,
                forall([t], imp(rng(t, 0, it.J), z3.And(
                    h.at(X.by_job, t) == h0.at(X0.by_job, t),
                    z3.If(z3.And(ty == T_OP, t == it.jid(o)), appended(h0, h, h0.at(X0.by_job, t), x),
                          unchanged(h0, h, h0.at(X0.by_job, t))))), patterns=[h.at(X.by_job, t), h0.at(X0.by_job, t)]))),
            ("machine-table-keeps-its-rows", z3.And(X.by_machine == X0.by_machine, forall([t], imp(
                rng(t, 0, it.NM), h.at(X.by_machine, t) == h0.at(X0.by_machine, t)), patterns=[h.at(X.by_machine, t)]))),
            ("single-machine-operation-nodes-listed-under-their-machine", z3.And(
                imp(z3.And(ty == T_OP, it.nmach(o) == 1), z3.And(
                    z3.Select(h.get("$$mpos", g), X0.n) == h0.len(h0.at(X0.by_machine, mach0(h0, o))),
                    forall([t], imp(rng(t, 0, it.NM), z3.If(t == mach0(h0, o), appended(h0, h, h0.at(X0.by_machine, t), x),
                                                            unchanged(h0, h, h0.at(X0.by_machine, t)))),
                           patterns=[h.at(X.by_machine, t), h0.at(X0.by_machine, t)]))),
                imp(ty != T_OP, z3.And(h.get("$$mpos", g) == h0.get("$$mpos", g), forall([t], imp(
                    rng(t, 0, it.NM), unchanged(h0, h, h0.at(X0.by_machine, t))),
                    patterns=[h.at(X.by_machine, t), h0.at(X0.by_machine, t)]))),
                imp(z3.Or(ty != T_OP, it.nmach(o) == 1), forall([bv("nk")], imp(
                    bv("nk") != X0.n, z3.Select(h.get("$$mpos", g), bv("nk")) == z3.Select(h0.get("$$mpos", g), bv("nk"))),
                    patterns=[z3.Select(h.get("$$mpos", g), bv("nk"))])))),
        ]

    @property
    def loops(self):
        def inv(k):
            h0, h, g, x = k.h0, k.h, k["self"], k["node_for_adding"]
            X0, X = G(h0, g), G(h, g)
            it = Inst(h0, X0.I)
            hl = k.hl
            t = bv("tt")
            return tables_ok(h, g) + [
                ("tables-are-the-same-lists", z3.And(X.by_machine == X0.by_machine, X.by_job == X0.by_job, X.by_type == X0.by_type,
                                                     X.nodes == X0.nodes, X.removed == X0.removed, X.nx == X0.nx, X.I == X0.I,
                                                     h.get("_next_node_id", g) == hl.get("_next_node_id", g))),
                ("machine-rows-kept", forall([t], imp(rng(t, 0, it.NM), h.at(X.by_machine, t) == h0.at(X0.by_machine, t)),
                                             patterns=[h.at(X.by_machine, t)])),
                ("iterating-the-machines-of-the-operation", k.n == it.nmach(k.v("operation"))),
                ("single-machine:row-gets-the-node-in-the-first-iteration", imp(k.n == 1, z3.And(
                    imp(k.i == 0, z3.And(h.get("$$mpos", g) == hl.get("$$mpos", g), forall([t], imp(
                        rng(t, 0, it.NM), unchanged(hl, h, h0.at(X0.by_machine, t))), patterns=[h0.at(X0.by_machine, t)]))),
                    imp(k.i == 1, z3.And(
                        z3.Select(h.get("$$mpos", g), hl.get("_node_id", x)) == hl.len(h0.at(X0.by_machine, mach0(h0, k.v("operation")))),
                        forall([bv("nk")], imp(bv("nk") != hl.get("_node_id", x), z3.Select(h.get("$$mpos", g), bv("nk")) ==
                                               z3.Select(hl.get("$$mpos", g), bv("nk"))),
                               patterns=[z3.Select(h.get("$$mpos", g), bv("nk"))]),
                        forall([t], imp(rng(t, 0, it.NM), z3.If(
                            t == mach0(h0, k.v("operation")), appended(hl, h, h0.at(X0.by_machine, t), x),
                            unchanged(hl, h, h0.at(X0.by_machine, t)))), patterns=[h0.at(X0.by_machine, t)])))))),
            ]

        def mod(k):
            h0, g = k.h0, k["self"]
            X0 = G(h0, g)
            it = Inst(h0, X0.I)
            t = bv("ft")
            return Frame(fields={"$$mpos": [g]},
                         lists=lambda l: z3.And(l > X0.by_machine, l < X0.by_job))    # the rows of the machine table
        return {0: LoopSpec("for machine_id in operation.machines", inv, mod)}


def op_nodes(h, g, I, upto_job=None, upto_pos=None):
    """operation (j, p) [before (upto_job, upto_pos)] is node number cumL(j) + p = its operation id, listed at position
    p of its job's row and at position cumL(j) + p of the OPERATION row"""
    X = G(h, g)
    it = Inst(h, I)
    j, p = bv("j"), bv("p")
    o = it.op(j, p)
    k = it.cumL(j) + p
    nd = X.node(k)
    dom = z3.And(rng(j, 0, it.J), rng(p, 0, it.L(j)))
    if upto_job is not None:
        dom = z3.And(dom, j < upto_job if upto_pos is None else z3.Or(j < upto_job, z3.And(j == upto_job, p < upto_pos)))
    return forall([j, p], imp(dom, z3.And(
        h.get("node_type", nd) == T_OP, h.get("_operation", nd) == o, h.get("_node_id", nd) == h.get("operation_id", o),
        h.at(h.at(X.by_job, j), p) == nd, h.at(h.at(X.by_type, T_OP), k) == nd)),
        patterns=[it.op(j, p), h.at(h.at(X.by_job, j), p)])


def op_nodes_by_index(h, g, I, upto):
    """node k < upto is the node of the operation whose id is k"""
    X = G(h, g)
    it = Inst(h, I)
    k = bv("nk")
    nd = X.node(k)
    o = h.get("_operation", nd)
    return forall([k], imp(rng(k, 0, upto), z3.And(h.get("node_type", nd) == T_OP, it.is_op(o),
                                                   it.cumL(it.jid(o)) + it.pos(o) == k)), patterns=[h.at(X.nodes, k)])


def non_flexible(h, I):
    it = Inst(h, I)
    j, p = bv("j"), bv("p")
    return forall([j, p], imp(z3.And(rng(j, 0, it.J), rng(p, 0, it.L(j))), it.nmach(it.op(j, p)) == 1), patterns=[it.op(j, p)])


def machine_rows(h, g, I, upto):
    """(non-flexible instances) the machine rows list exactly the operation nodes k < upto of that machine; ghost
    mpos: node id -> index in its machine's row"""
    X = G(h, g)
    it = Inst(h, I)
    k, m, q = bv("nk"), bv("mm"), bv("mq")
    mp = lambda t: z3.Select(h.get("$$mpos", g), t)  # noqa: E731
    o = h.get("_operation", X.node(k))
    row = lambda t: h.at(X.by_machine, t)  # noqa: E731
    nd = h.at(row(m), q)
    kk = h.get("_node_id", nd)
    return z3.And(
        forall([k], imp(rng(k, 0, upto), z3.And(rng(mp(k), 0, h.len(row(mach0(h, o)))), h.at(row(mach0(h, o)), mp(k)) == X.node(k))),
               patterns=[h.at(X.nodes, k)]),
        forall([m, q], imp(z3.And(rng(m, 0, it.NM), rng(q, 0, h.len(row(m)))), z3.And(
            rng(kk, 0, upto), X.node(kk) == nd, mach0(h, h.get("_operation", nd)) == m, mp(kk) == q)),
            patterns=[h.at(h.at(X.by_machine, m), q)]))


def other_type_rows_empty(h, g):
    X = G(h, g)
    t = bv("tt")
    return forall([t], imp(z3.And(rng(t, 0, len(NODE_TYPES)), t != T_OP), h.len(h.at(X.by_type, t)) == 0),
                  patterns=[h.at(X.by_type, t)])


def job_rows_filled(h, g, I, upto_job, upto_pos=None):
    X = G(h, g)
    it = Inst(h, I)
    j = bv("j")
    ln = h.len(h.at(X.by_job, j))
    if upto_pos is None:
        want = z3.If(j < upto_job, it.L(j), 0)
    else:
        want = z3.If(j < upto_job, it.L(j), z3.If(j == upto_job, upto_pos, 0))
    return forall([j], imp(rng(j, 0, it.J), ln == want), patterns=[h.at(X.by_job, j)])


def empty_graph(h, g):
    X = G(h, g)
    t, u, v = bv("tt"), bv("gu"), bv("gv")
    it = Inst(h, X.I)
    return [("no-nodes-yet", z3.And(X.n == 0, forall([t], imp(rng(t, 0, len(NODE_TYPES)), h.len(h.at(X.by_type, t)) == 0),
                                                    patterns=[h.at(X.by_type, t)]),
                                    forall([t], imp(rng(t, 0, it.J), h.len(h.at(X.by_job, t)) == 0), patterns=[h.at(X.by_job, t)]),
                                    forall([t], imp(rng(t, 0, it.NM), h.len(h.at(X.by_machine, t)) == 0),
                                           patterns=[h.at(X.by_machine, t)]))),
            ("no-edges-yet", forall([u, v], ge(h, X.nx, u, v) == 0, patterns=[z3.Select(h.get("$$ge", X.nx), Pair(u, v))]))]


def cum_facts(h, I):
    """consequences, by induction, of the defining equations of the prefix sums cumL (stated as pre-conditions)"""
    it = Inst(h, I)
    j, p_, j2_ = bv("j"), bv("p"), bv("j2")
    t_op, t_cum = it.op(j, p_), it.cumL(j2_)
    order_pattern = z3.MultiPattern(t_op, t_cum)
    return [("inst-index-bound", forall([j, p_], imp(z3.And(rng(j, 0, it.J), rng(p_, 0, it.L(j))), z3.And(
        it.cumL(j) + p_ < it.N, it.cumL(j) >= 0, it.cumL(j) + it.L(j) <= it.N)), patterns=[it.op(j, p_)])),
        ("inst-index-order", forall([j, p_, j2_], imp(
            z3.And(0 <= j, j < j2_, j2_ <= it.J, 0 <= p_, p_ < it.L(j)), it.cumL(j) + p_ < it.cumL(j2_)),
            patterns=[order_pattern]))]


@register
class GraphAddOperationNodes(Contract):
    name = "JobShopGraph.add_operation_nodes"
    properties = ("C16",)
    params = {"self": REF("JobShopGraph")}

    def requires(self, c):
        from .instance import numbered
        h, g = c.h0, c["self"]
        X = G(h, g)
        return graph_ok(h, g) + tables_ok(h, g) + valid_instance(h, X.I, bound=g) + cum_facts(h, X.I) + empty_graph(h, g) + [
            ("operations-numbered", numbered(h, X.I))]

    _NODES = ["nodes-so-far", "rows-so-far", "job", "same-graph-object", "inst-refs", "inst-jobs", "inst-ops", "inst-cum",
              "inst-index-bound", "inst-index-order", "operations-numbered", "fields", "gets-the-next-id-and-is-appended", "listed-under-its-type",
              "operation-nodes-listed-under-their-job", "G-shape", "G-node-ids", "T-sizes", "T-job-rows", "T-type-rows",
              "T-job-rows-distinct", "T-type-rows-distinct", "T-layout"]
    _MROWS = ["machine-rows-so-far", "nodes-so-far", "job", "same-graph-object", "inst-refs", "inst-jobs", "inst-ops",
              "inst-machines", "fields", "gets-the-next-id-and-is-appended", "machine-table-keeps-its-rows",
              "single-machine-operation-nodes-listed-under-their-machine", "G-shape", "G-node-ids", "T-sizes", "T-layout",
              "T-machine-rows", "T-machine-rows-distinct"]
    relevant_strict = {"loop1:inv-preserved:nodes-so-far": _NODES, "loop1:inv-preserved:rows-so-far": _NODES,
                       "loop1:inv-preserved:machine-rows-so-far": _MROWS}

    def modifies(self, c):
        h, g = c.h0, c["self"]
        X = G(h, g)
        return Frame(fields={"_next_node_id": [g], "$$gn": [X.nx], "$$mpos": [g]}, lists=graph_lists_frame(h, g),
                     alloc_objects=NODE_FIELDS + ["$type"])

    def ensures(self, c):
        h0, h, g = c.h0, c.h, c["self"]
        X0, X = G(h0, g), G(h, g)
        it = Inst(h0, X0.I)
        i = bv("gi")
        return graph_ok(h, g) + tables_ok(h, g) + [
            ("one-node-per-operation-with-node-id=operation-id", z3.And(X.n == it.N, op_nodes(h, g, X0.I),
                                                                        op_nodes_by_index(h, g, X0.I, it.N))),
            ("job-rows-complete", z3.And(job_rows_filled(h, g, X0.I, it.J), h.len(h.at(X.by_type, T_OP)) == it.N,
                                         other_type_rows_empty(h, g))),
            ("non-flexible:machine-rows-list-the-nodes-of-their-machine", imp(non_flexible(h0, X0.I), machine_rows(h, g, X0.I, it.N))),
            ("nothing-removed-no-edges", z3.And(
                forall([i], imp(rng(i, 0, X.n), z3.Not(X.is_removed(i))), patterns=[h.at(X.removed, i)]),
                h.get("$$ge", X.nx) == h0.get("$$ge", X0.nx))),
            ("same-graph-object", z3.And(X.nx == X0.nx, X.I == X0.I, X.nodes == X0.nodes, X.by_type == X0.by_type,
                                         X.by_job == X0.by_job, X.by_machine == X0.by_machine, X.removed == X0.removed)),
        ]

    @property
    def loops(self):
        def common(k, j, p):
            h0, h, g = k.h0, k.h, k["self"]
            X0, X = G(h0, g), G(h, g)
            it = Inst(h0, X0.I)
            done = it.cumL(j) + (p if p is not None else 0)
            i, t = bv("gi"), bv("tt")
            return graph_ok(h, g) + tables_ok(h, g) + [
                ("same-graph-object", z3.And(X.nx == X0.nx, X.I == X0.I, X.nodes == X0.nodes, X.by_type == X0.by_type,
                                             X.by_job == X0.by_job, X.by_machine == X0.by_machine, X.removed == X0.removed)),
                ("nodes-so-far", z3.And(X.n == done, op_nodes(h, g, X0.I, j, p), op_nodes_by_index(h, g, X0.I, done))),
                ("rows-so-far", z3.And(job_rows_filled(h, g, X0.I, j, p), h.len(h.at(X.by_type, T_OP)) == done,
                                       other_type_rows_empty(h, g))),
                ("machine-rows-so-far", imp(non_flexible(h0, X0.I), machine_rows(h, g, X0.I, done))),
                ("nothing-removed-no-edges", z3.And(
                    forall([i], imp(rng(i, 0, X.n), z3.Not(X.is_removed(i))), patterns=[h.at(X.removed, i)]),
                    h.get("$$ge", X.nx) == h0.get("$$ge", X0.nx))),
            ]

        def outer(k):
            return common(k, k.i, None)

        def inner(k):
            it = Inst(k.h0, G(k.h0, k["self"]).I)
            j0 = k.outer[-1]
            return [("job", z3.And(k.v("job") == it.job(j0), rng(j0, 0, it.J)))] + common(k, j0, k.i)

        def mod(k):
            h0, g = k.h0, k["self"]
            X0 = G(h0, g)
            return Frame(fields={"_next_node_id": [g], "$$gn": [X0.nx], "$$mpos": [g]}, lists=graph_lists_frame(h0, g),
                         alloc_objects=NODE_FIELDS + ["$type"])
        return {0: LoopSpec("for job in self.instance.jobs", outer, mod), 1: LoopSpec("for operation in job", inner, mod)}


@register
class GraphInit(Contract):
    name = "JobShopGraph.__init__"
    properties = ("C16",)
    params = {"self": REF("JobShopGraph"), "instance": REF("JobShopInstance"), "add_operation_nodes": BOOL}
    defaultdict_size = len(NODE_TYPES)

    def requires(self, c):
        from .instance import numbered
        h, g, I = c.h0, c["self"], c["instance"]
        return valid_instance(h, I, bound=g) + cum_facts(h, I) + [
            ("new-object", z3.And(g > 0, g < h.alloc, I < g)), ("operations-numbered", numbered(h, I))]

    def modifies(self, c):
        g = c["self"]
        f = {n: [g] for n in GRAPH_FIELDS + ["$$mpos"]}
        return Frame(fields=f, alloc_objects=NODE_FIELDS + ["$type", "$$gn", "$$ge"], alloc_lists=True)

    def ensures(self, c):
        h0, h, g, I = c.h0, c.h, c["self"], c["instance"]
        X = G(h, g)
        it = Inst(h0, I)
        flag = c["add_operation_nodes"]
        i = bv("gi")
        u, v = bv("gu"), bv("gv")
        return graph_ok(h, g) + tables_ok(h, g) + [
            ("instance-kept", X.I == I),
            ("new-networkx-graph-and-lists", z3.And(X.nx >= h0.alloc, X.nodes >= h0.alloc)),
            ("with-operation-nodes:one-node-per-operation-with-node-id=operation-id",
             imp(flag, z3.And(X.n == it.N, op_nodes(h, g, I), op_nodes_by_index(h, g, I, it.N), job_rows_filled(h, g, I, it.J),
                              h.len(h.at(X.by_type, T_OP)) == it.N, other_type_rows_empty(h, g)))),
            ("with-operation-nodes,non-flexible:machine-rows-list-the-nodes-of-their-machine",
             imp(z3.And(flag, non_flexible(h0, I)), machine_rows(h, g, I, it.N))),
            ("without:no-nodes", imp(z3.Not(flag), X.n == 0)),
            ("nothing-removed-no-edges", z3.And(
                forall([i], imp(rng(i, 0, X.n), z3.Not(X.is_removed(i))), patterns=[h.at(X.removed, i)]),
                forall([u, v], ge(h, X.nx, u, v) == 0, patterns=[z3.Select(h.get("$$ge", X.nx), Pair(u, v))]))),
        ]


# ---------------------------------------------------------------------------
# edges
# ---------------------------------------------------------------------------
E_CONJ, E_DISJ = 0, 1


def _edge_code(c):
    v = c.args.get("type")
    if v is None or v.ty.kind == "none":
        return z3.IntVal(UNTYPED)
    if v.ty.kind == "opt":
        return z3.If(v.aux, z3.IntVal(UNTYPED), v.t.t + 1)
    return v.t + 1


def _end_id(h, v):
    """node id denoted by a `Node | int` argument"""
    tag, nd, num = v.t
    return z3.If(tag, h.get("_node_id", nd.t), num.t)


def _end_has_no_id(h, v):
    tag, nd, num = v.t
    return z3.And(tag, h.get("_node_id#none", nd.t) != 0)


def edges_updated(h0, h, G0, upd):
    """edge map after = edge map before, except where upd(u, v) gives a code"""
    u, v = bv("eu"), bv("ev")
    new, old = z3.Select(h.get("$$ge", G0), Pair(u, v)), z3.Select(h0.get("$$ge", G0), Pair(u, v))
    return forall([u, v], new == upd(u, v, old), patterns=[z3.Select(h.get("$$ge", G0), Pair(u, v))])


@ext_method("DiGraph", "add_edge$kw", "(see add_edge)")
def _unused(eng, e, st, obj):   # pragma: no cover
    raise OutsideSubset("internal")


_orig_add_edge = _g_add_edge


def _g_add_edge_kw(eng, e, st, obj):
    """self.graph.add_edge(u, v, **attr): the `type` keyword travels through **attr"""
    import ast as _ast
    if any(k.arg is None for k in e.keywords) and "type" in st.env and not any(k.arg == "type" for k in e.keywords):
        e2 = _ast.copy_location(_ast.Call(func=e.func, args=e.args, keywords=[k for k in e.keywords if k.arg is not None] + [
            _ast.keyword(arg="type", value=_ast.copy_location(_ast.Name(id="type", ctx=_ast.Load()), e))]), e)
        _ast.fix_missing_locations(e2)
        tv = st.env["type"]
        if tv.ty.kind == "opt":
            # forwarded only when the caller gave it: two cases
            out = []
            s_no = st.copy()
            s_no.assume(tv.aux)
            e3 = _ast.copy_location(_ast.Call(func=e.func, args=e.args, keywords=[]), e)
            _ast.fix_missing_locations(e3)
            if eng.feasible(s_no):
                out.extend(_orig_add_edge(eng, e3, s_no, obj))
            st.assume(z3.Not(tv.aux))
            if eng.feasible(st):
                saved = st.env["type"]
                st.env["type"] = tv.t
                res = _orig_add_edge(eng, e2, st, obj)
                for s2, _ in res:
                    s2.env["type"] = saved
                out.extend(res)
            return out
        return _orig_add_edge(eng, e2, st, obj)
    return _orig_add_edge(eng, e, st, obj)


from pyvc.library import EXT_MODELS as _EM  # noqa: E402
_EM[("DiGraph", "add_edge")] = _g_add_edge_kw
del _EM[("DiGraph", "add_edge$kw")]


@register
class GraphAddEdge(Contract):
    name = "JobShopGraph.add_edge"
    properties = ("C16",)
    params = {"self": REF("JobShopGraph"), "u_of_edge": UNION(REF("Node"), INT), "v_of_edge": UNION(REF("Node"), INT)}
    extra_params = {"type": OPT(Ty("enum", "EdgeType"))}

    def requires(self, c):
        h = c.h0
        u, v = c.val("u_of_edge"), c.val("v_of_edge")
        return graph_ok(h, c["self"]) + [("nodes-given", z3.And(imp(u.t[0], u.t[1].t > 0), imp(v.t[0], v.t[1].t > 0)))]

    def raises(self, c):
        h = c.h0
        X = G(h, c["self"])
        u, v = c.val("u_of_edge"), c.val("v_of_edge")
        noid = z3.Or(_end_has_no_id(h, u), _end_has_no_id(h, v))
        return [("UninitializedAttributeError", "node-without-id", noid),
                ("ValidationError", "end-not-in-the-graph", z3.And(z3.Not(noid), z3.Or(
                    z3.Not(gn(h, X.nx, _end_id(h, u))), z3.Not(gn(h, X.nx, _end_id(h, v))))))]

    def modifies(self, c):
        X = G(c.h0, c["self"])
        return Frame(fields={"$$ge": [X.nx], "$$gn": [X.nx]})

    def ensures(self, c):
        h0, h, g = c.h0, c.h, c["self"]
        X0 = G(h0, g)
        a, b = _end_id(h0, c.val("u_of_edge")), _end_id(h0, c.val("v_of_edge"))
        code = _edge_code(c)
        x = bv("gx")
        return graph_ok(h, g) + [
            ("exactly-this-edge-set-to-the-given-type", edges_updated(
                h0, h, X0.nx, lambda u, v, old: z3.If(z3.And(u == a, v == b), code, old))),
            ("node-set-unchanged", forall([x], gn(h, X0.nx, x) == gn(h0, X0.nx, x), patterns=[z3.Select(h.get("$$gn", X0.nx), x)]))]


# ---------------------------------------------------------------------------
# builders of the disjunctive graph
# ---------------------------------------------------------------------------
def op_graph(h, g):
    """what the builders rely on: a well-formed graph whose first N nodes are the operation nodes, nothing removed"""
    from .instance import numbered
    X = G(h, g)
    it = Inst(h, X.I)
    i = bv("gi")
    return graph_ok(h, g) + tables_ok(h, g) + valid_instance(h, X.I, bound=g) + cum_facts(h, X.I) + [
        ("operations-numbered", numbered(h, X.I)),
        ("operation-nodes-first", z3.And(X.n >= it.N, op_nodes(h, g, X.I), op_nodes_by_index(h, g, X.I, it.N),
                                         job_rows_filled(h, g, X.I, it.J), h.len(h.at(X.by_type, T_OP)) == it.N)),
        ("nothing-removed", forall([i], imp(rng(i, 0, X.n), z3.Not(X.is_removed(i))), patterns=[h.at(X.removed, i)]))]


def mach0(h, o):
    return h.at(h.get("machines", o), 0)


def op_of(h, g, k):
    return h.get("_operation", G(h, g).node(k))


def conj_pair(h, g, u, v):
    """u, v are the nodes of successive operations of one job"""
    X = G(h, g)
    it = Inst(h, X.I)
    return z3.And(rng(u, 0, it.N), v == u + 1, v < it.N, it.jid(op_of(h, g, u)) == it.jid(op_of(h, g, v)))


def same_graph(h0, h, g):
    X0, X = G(h0, g), G(h, g)
    return z3.And(X.nx == X0.nx, X.I == X0.I, X.nodes == X0.nodes, X.by_type == X0.by_type, X.by_job == X0.by_job,
                  X.by_machine == X0.by_machine, X.removed == X0.removed)


class _Builder(Contract):
    properties = ("C16",)
    params = {"graph": REF("JobShopGraph")}

    def requires(self, c):
        return op_graph(c.h0, c["graph"])

    def modifies(self, c):
        X = G(c.h0, c["graph"])
        return Frame(fields={"$$ge": [X.nx], "$$gn": [X.nx]})

    def kept(self, c):
        h0, h, g = c.h0, c.h, c["graph"]
        x = bv("gx")
        X0 = G(h0, g)
        return [("same-graph-object", same_graph(h0, h, g)),
                ("node-set-unchanged", forall([x], gn(h, X0.nx, x) == gn(h0, X0.nx, x), patterns=[z3.Select(h.get("$$gn", X0.nx), x)]))]


@register
class AddConjunctiveEdges(_Builder):
    name = "add_conjunctive_edges"

    def upd(self, c_h0, g, limit=None):
        X = G(c_h0, g)
        it = Inst(c_h0, X.I)

        def f(u, v, old):
            cond = conj_pair(c_h0, g, u, v)
            if limit is not None:
                cond = z3.And(cond, limit(it.jid(op_of(c_h0, g, v)), it.pos(op_of(c_h0, g, v))))
            return z3.If(cond, z3.IntVal(E_CONJ + 1), old)
        return f

    def ensures(self, c):
        h0, h, g = c.h0, c.h, c["graph"]
        return graph_ok(h, g) + self.kept(c) + [
            ("exactly-the-job-chain-edges-added-typed-conjunctive", edges_updated(h0, h, G(h0, g).nx, self.upd(h0, g)))]

    @property
    def loops(self):
        def common(k, lim):
            h0, h, g = k.h0, k.h, k["graph"]
            x = bv("gx")
            X0 = G(h0, g)
            return graph_ok(h, g) + [
                ("same-graph-object", same_graph(h0, h, g)),
                ("node-set-unchanged", forall([x], gn(h, X0.nx, x) == gn(h0, X0.nx, x), patterns=[z3.Select(h.get("$$gn", X0.nx), x)])),
                ("edges-so-far", edges_updated(h0, h, X0.nx, self.upd(h0, g, lim)))]

        def outer(k):
            return common(k, lambda j, p: j < k.i)

        def inner(k):
            h0, g = k.h0, k["graph"]
            X0 = G(h0, g)
            it = Inst(h0, X0.I)
            j0 = k.outer[-1]
            return [("row", z3.And(k.v("job_operations") == h0.at(X0.by_job, j0), rng(j0, 0, it.J), k.n == it.L(j0) - 1))] + \
                common(k, lambda j, p: z3.Or(j < j0, z3.And(j == j0, p <= k.i)))

        def mod(k):
            X = G(k.h0, k["graph"])
            return Frame(fields={"$$ge": [X.nx], "$$gn": [X.nx]})
        return {0: LoopSpec("for job_operations in graph.nodes_by_job", outer, mod),
                1: LoopSpec("for i in range(1, len(job_operations))", inner, mod)}


for _n in ("nodes", "nodes_by_type", "nodes_by_machine", "nodes_by_job"):
    class _P(Contract):
        name = f"JobShopGraph.{_n}"
        properties = ("C16",)
        params = {"self": REF("JobShopGraph")}
        ret = LIST(REF("Node")) if _n == "nodes" else LIST(LIST(REF("Node")))
        pure = True
        field = "_" + _n

        def requires(self, c):
            return [("self", c["self"] > 0)]

        def ensures(self, c):
            return [("value", c.result == c.h0.get(self.field, c["self"]))]
    register(_P)


def source_sink(h, g):
    """nodes N and N+1 are the source and the sink, the only entries of their type rows"""
    X = G(h, g)
    it = Inst(h, X.I)
    S, T = X.node(it.N), X.node(it.N + 1)
    rs, rt = h.at(X.by_type, T_SOURCE), h.at(X.by_type, T_SINK)
    return z3.And(X.n == it.N + 2, h.get("node_type", S) == T_SOURCE, h.get("node_type", T) == T_SINK,
                  h.len(rs) == 1, h.at(rs, 0) == S, h.len(rt) == 1, h.at(rt, 0) == T)


@register
class AddSourceSinkNodes(_Builder):
    name = "add_source_sink_nodes"

    def requires(self, c):
        h, g = c.h0, c["graph"]
        X = G(h, g)
        it = Inst(h, X.I)
        return op_graph(h, g) + [("only-operation-nodes-so-far", z3.And(
            X.n == it.N, h.len(h.at(X.by_type, T_SOURCE)) == 0, h.len(h.at(X.by_type, T_SINK)) == 0))]

    def modifies(self, c):
        h, g = c.h0, c["graph"]
        X = G(h, g)
        return Frame(fields={"_next_node_id": [g], "$$gn": [X.nx]}, lists=graph_lists_frame(h, g),
                     alloc_objects=NODE_FIELDS + ["$type"])

    def ensures(self, c):
        h0, h, g = c.h0, c.h, c["graph"]
        X0, X = G(h0, g), G(h, g)
        return op_graph(h, g) + [("same-graph-object", same_graph(h0, h, g)),
                                 ("source-then-sink-appended", source_sink(h, g)),
                                 ("no-edge-changes", h.get("$$ge", X.nx) == h0.get("$$ge", X0.nx))]


@register
class AddSourceSinkEdges(_Builder):
    name = "add_source_sink_edges"

    def requires(self, c):
        return op_graph(c.h0, c["graph"]) + [("source-and-sink-present", source_sink(c.h0, c["graph"]))]

    def upd(self, h0, g, upto=None):
        X = G(h0, g)
        it = Inst(h0, X.I)
        S, T = it.N, it.N + 1

        def f(u, v, old):
            ou, ov = op_of(h0, g, u), op_of(h0, g, v)
            first = z3.And(u == S, rng(v, 0, it.N), it.pos(ov) == 0)
            last = z3.And(v == T, rng(u, 0, it.N), it.pos(ou) == it.L(it.jid(ou)) - 1)
            if upto is not None:
                first = z3.And(first, it.jid(ov) < upto)
                last = z3.And(last, it.jid(ou) < upto)
            return z3.If(z3.Or(first, last), z3.IntVal(E_CONJ + 1), old)
        return f

    def ensures(self, c):
        h0, h, g = c.h0, c.h, c["graph"]
        return graph_ok(h, g) + self.kept(c) + [
            ("exactly-source->first-and-last->sink-edges-added-typed-conjunctive",
             edges_updated(h0, h, G(h0, g).nx, self.upd(h0, g)))]

    @property
    def loops(self):
        def inv(k):
            h0, h, g = k.h0, k.h, k["graph"]
            x = bv("gx")
            X0 = G(h0, g)
            it = Inst(h0, X0.I)
            return graph_ok(h, g) + [
                ("same-graph-object", same_graph(h0, h, g)),
                ("node-set-unchanged", forall([x], gn(h, X0.nx, x) == gn(h0, X0.nx, x), patterns=[z3.Select(h.get("$$gn", X0.nx), x)])),
                ("source-and-sink", z3.And(k.v("source") == X0.node(it.N), k.v("sink") == X0.node(it.N + 1), k.n == it.J)),
                ("edges-so-far", edges_updated(h0, h, X0.nx, self.upd(h0, g, k.i)))]

        def mod(k):
            X = G(k.h0, k["graph"])
            return Frame(fields={"$$ge": [X.nx], "$$gn": [X.nx]})
        return {0: LoopSpec("for job_operations in graph.nodes_by_job", inv, mod)}


from pyvc.library import CombA, CombB, CombK, CombN  # noqa: E402


@register
class AddDisjunctiveEdges(_Builder):
    """(non-flexible instances) both directions between every two operations that share their machine"""
    name = "add_disjunctive_edges"

    def requires(self, c):
        h, g = c.h0, c["graph"]
        X = G(h, g)
        it = Inst(h, X.I)
        return op_graph(h, g) + [("non-flexible-instance", non_flexible(h, X.I)),
                                 ("machine-rows", machine_rows(h, g, X.I, it.N))]

    def upd(self, h0, g, limit=None):
        X = G(h0, g)
        it = Inst(h0, X.I)

        def f(u, v, old):
            mu, mv = mach0(h0, op_of(h0, g, u)), mach0(h0, op_of(h0, g, v))
            cond = z3.And(rng(u, 0, it.N), rng(v, 0, it.N), u != v, mu == mv)
            if limit is not None:
                cond = z3.And(cond, limit(u, v, mu))
            return z3.If(cond, z3.IntVal(E_DISJ + 1), old)
        return f

    def ensures(self, c):
        h0, h, g = c.h0, c.h, c["graph"]
        return graph_ok(h, g) + self.kept(c) + [
            ("exactly-both-directions-between-operations-sharing-a-machine-typed-disjunctive",
             edges_updated(h0, h, G(h0, g).nx, self.upd(h0, g)))]

    @property
    def loops(self):
        def common(k, lim):
            h0, h, g = k.h0, k.h, k["graph"]
            x = bv("gx")
            X0 = G(h0, g)
            return graph_ok(h, g) + [
                ("same-graph-object", same_graph(h0, h, g)),
                ("node-set-unchanged", forall([x], gn(h, X0.nx, x) == gn(h0, X0.nx, x), patterns=[z3.Select(h.get("$$gn", X0.nx), x)])),
                ("edges-so-far", edges_updated(h0, h, X0.nx, self.upd(h0, g, lim)))]

        def outer(k):
            return common(k, lambda u, v, m: m < k.i)

        def inner(k):
            h0, g = k.h0, k["graph"]
            X0 = G(h0, g)
            it = Inst(h0, X0.I)
            m0 = k.outer[-1]
            row = h0.at(X0.by_machine, m0)
            n = h0.len(row)
            mp = lambda t: z3.Select(h0.get("$$mpos", g), t)  # noqa: E731

            def lim(u, v, m):
                lo = z3.If(mp(u) < mp(v), mp(u), mp(v))
                hi = z3.If(mp(u) < mp(v), mp(v), mp(u))
                return z3.Or(m < m0, z3.And(m == m0, CombK(n, lo, hi) < k.i))
            return [("row", z3.And(k.v("machine") == row, rng(m0, 0, it.NM), k.n == CombN(n)))] + common(k, lim)

        def mod(k):
            X = G(k.h0, k["graph"])
            return Frame(fields={"$$ge": [X.nx], "$$gn": [X.nx]})
        return {0: LoopSpec("for machine in graph.nodes_by_machine", outer, mod),
                1: LoopSpec("for (node1, node2) in itertools.combinations(machine, 2)", inner, mod)}


@register
class BuildDisjunctiveGraph(Contract):
    name = "build_disjunctive_graph"
    properties = ("C16",)
    params = {"instance": REF("JobShopInstance")}
    ret = REF("JobShopGraph")
    defaultdict_size = len(NODE_TYPES)

    def requires(self, c):
        from .instance import numbered
        h, I = c.h0, c["instance"]
        return valid_instance(h, I) + cum_facts(h, I) + [("operations-numbered", numbered(h, I)),
                                                         ("non-flexible-instance", non_flexible(h, I))]

    def modifies(self, c):
        return Frame(alloc_objects=NODE_FIELDS + GRAPH_FIELDS + ["$type", "$$gn", "$$ge", "$$mpos"], alloc_lists=True)

    def ensures(self, c):
        h0, h, I, g = c.h0, c.h, c["instance"], c.result
        X = G(h, g)
        it = Inst(h0, I)
        u, v = bv("eu"), bv("ev")
        S, T = it.N, it.N + 1
        ou, ov = op_of(h, g, u), op_of(h, g, v)
        first = z3.And(u == S, rng(v, 0, it.N), it.pos(ov) == 0)
        last = z3.And(v == T, rng(u, 0, it.N), it.pos(ou) == it.L(it.jid(ou)) - 1)
        chain = z3.And(rng(u, 0, it.N), v == u + 1, v < it.N, it.jid(ou) == it.jid(ov))
        share = z3.And(rng(u, 0, it.N), rng(v, 0, it.N), u != v, mach0(h0, ou) == mach0(h0, ov))
        want = z3.If(z3.Or(first, last, chain), z3.IntVal(E_CONJ + 1), z3.If(share, z3.IntVal(E_DISJ + 1), z3.IntVal(0)))
        return [
            ("a-new-graph-of-this-instance", z3.And(g >= h0.alloc, g < h.alloc, X.I == I)),
            ("one-node-per-operation-then-source-then-sink", z3.And(
                X.n == it.N + 2, op_nodes(h, g, I), op_nodes_by_index(h, g, I, it.N),
                h.get("node_type", X.node(S)) == T_SOURCE, h.get("node_type", X.node(T)) == T_SINK)),
            ("exactly-the-prescribed-edges-correctly-typed", forall([u, v], ge(h, X.nx, u, v) == want,
                                                                     patterns=[z3.Select(h.get("$$ge", X.nx), Pair(u, v))])),
        ] + graph_ok(h, g)


# ---------------------------------------------------------------------------
# agent-task graph: machine nodes and their edges, same-job edges
# ---------------------------------------------------------------------------
def machine_nodes(h, g, upto=None):
    """nodes N .. N+upto-1 are the machine nodes of machines 0 .. upto-1, listed in that order in the MACHINE row"""
    X = G(h, g)
    it = Inst(h, X.I)
    m = bv("mm")
    n = it.NM if upto is None else upto
    nd = X.node(it.N + m)
    row = h.at(X.by_type, T_MACHINE)
    return z3.And(
        h.len(row) == n,
        forall([m], imp(rng(m, 0, n), z3.And(h.get("node_type", nd) == T_MACHINE, h.get("_machine_id#none", nd) == 0,
                                             h.get("_machine_id", nd) == m, h.at(row, m) == nd)),
               patterns=[h.at(X.nodes, it.N + m), h.at(h.at(X.by_type, T_MACHINE), m)]))


def machine_rows_kept(h0, h, g):
    X0 = G(h0, g)
    it = Inst(h0, X0.I)
    t = bv("tt")
    return z3.And(h.get("$$mpos", g) == h0.get("$$mpos", g),
                  forall([t], imp(rng(t, 0, it.NM), unchanged(h0, h, h0.at(X0.by_machine, t))), patterns=[h0.at(X0.by_machine, t)]))


def machine_rows_hyp(h, g):
    X = G(h, g)
    it = Inst(h, X.I)
    return [("non-flexible-instance", non_flexible(h, X.I)), ("machine-rows", machine_rows(h, g, X.I, it.N))]


@register
class AddMachineNodes(_Builder):
    name = "add_machine_nodes"

    def requires(self, c):
        h, g = c.h0, c["graph"]
        X = G(h, g)
        it = Inst(h, X.I)
        return op_graph(h, g) + machine_rows_hyp(h, g) + [
            ("only-operation-nodes-so-far", z3.And(X.n == it.N, h.len(h.at(X.by_type, T_MACHINE)) == 0))]

    def modifies(self, c):
        h, g = c.h0, c["graph"]
        X = G(h, g)
        return Frame(fields={"_next_node_id": [g], "$$gn": [X.nx], "$$mpos": [g]}, lists=graph_lists_frame(h, g),
                     alloc_objects=NODE_FIELDS + ["$type"])

    def ensures(self, c):
        h0, h, g = c.h0, c.h, c["graph"]
        X0, X = G(h0, g), G(h, g)
        it = Inst(h0, X0.I)
        return op_graph(h, g) + machine_rows_hyp(h, g) + [
            ("same-graph-object", same_graph(h0, h, g)),
            ("one-node-per-machine-after-the-operation-nodes", z3.And(X.n == it.N + it.NM, machine_nodes(h, g))),
            ("job-and-global-type-rows-kept", z3.And(unchanged(h0, h, h0.at(X0.by_type, T_JOB)),
                                                     unchanged(h0, h, h0.at(X0.by_type, T_GLOBAL)))),
            ("tables-kept", tables_kept(h0, h, g)),
            ("no-edge-changes", h.get("$$ge", X.nx) == h0.get("$$ge", X0.nx))]

    @property
    def loops(self):
        def inv(k):
            h0, h, g = k.h0, k.h, k["graph"]
            X0, X = G(h0, g), G(h, g)
            it = Inst(h0, X0.I)
            return op_graph(h, g) + machine_rows_hyp(h, g) + [
                ("same-graph-object", same_graph(h0, h, g)),
                ("machine-nodes-so-far", z3.And(X.n == it.N + k.i, machine_nodes(h, g, k.i), k.n == it.NM)),
                ("job-and-global-type-rows-kept", z3.And(unchanged(h0, h, h0.at(X0.by_type, T_JOB)),
                                                         unchanged(h0, h, h0.at(X0.by_type, T_GLOBAL)))),
                ("tables-kept", tables_kept(h0, h, g)),
                ("no-edge-changes", h.get("$$ge", X.nx) == h0.get("$$ge", X0.nx))]

        def mod(k):
            h0, g = k.h0, k["graph"]
            X0 = G(h0, g)
            return Frame(fields={"_next_node_id": [g], "$$gn": [X0.nx], "$$mpos": [g]}, lists=graph_lists_frame(h0, g),
                         alloc_objects=NODE_FIELDS + ["$type"])
        return {0: LoopSpec("for machine_id in range(graph.instance.num_machines)", inv, mod)}


def with_machine_nodes(h, g):
    X = G(h, g)
    it = Inst(h, X.I)
    return [("machine-nodes-present", z3.And(X.n >= it.N + it.NM, machine_nodes(h, g)))]


def _loop_common(self, k, lim):
    h0, h, g = k.h0, k.h, k["graph"]
    x = bv("gx")
    X0 = G(h0, g)
    return graph_ok(h, g) + [
        ("same-graph-object", same_graph(h0, h, g)),
        ("node-set-unchanged", forall([x], gn(h, X0.nx, x) == gn(h0, X0.nx, x), patterns=[z3.Select(h.get("$$gn", X0.nx), x)])),
        ("edges-so-far", edges_updated(h0, h, X0.nx, self.upd(h0, g, lim)))]


def _edge_mod(k):
    X = G(k.h0, k["graph"])
    return Frame(fields={"$$ge": [X.nx], "$$gn": [X.nx]})


@register
class AddOperationMachineEdges(_Builder):
    """(non-flexible instances) both directions between every operation node and the node of its machine"""
    name = "add_operation_machine_edges"

    def requires(self, c):
        h, g = c.h0, c["graph"]
        return op_graph(h, g) + machine_rows_hyp(h, g) + with_machine_nodes(h, g)

    def upd(self, h0, g, limit=None):
        X = G(h0, g)
        it = Inst(h0, X.I)

        def f(u, v, old):
            def om(o, m):      # o an operation node, m the node of its machine
                cond = z3.And(rng(o, 0, it.N), rng(m - it.N, 0, it.NM), mach0(h0, op_of(h0, g, o)) == m - it.N)
                if limit is not None:
                    cond = z3.And(cond, limit(o, m - it.N))
                return cond
            return z3.If(z3.Or(om(u, v), om(v, u)), z3.IntVal(UNTYPED), old)
        return f

    def ensures(self, c):
        h0, h, g = c.h0, c.h, c["graph"]
        return graph_ok(h, g) + self.kept(c) + [
            ("exactly-both-directions-between-each-operation-and-its-machine-node",
             edges_updated(h0, h, G(h0, g).nx, self.upd(h0, g)))]

    @property
    def loops(self):
        def outer(k):
            it = Inst(k.h0, G(k.h0, k["graph"]).I)
            return [("all-machines", k.n == it.NM)] + _loop_common(self, k, lambda o, m: m < k.i)

        def inner(k):
            h0, g = k.h0, k["graph"]
            X0 = G(h0, g)
            it = Inst(h0, X0.I)
            m0 = k.outer[-1]
            mp = lambda t: z3.Select(h0.get("$$mpos", g), t)  # noqa: E731
            return [("row", z3.And(k.v("machine_node") == X0.node(it.N + m0), rng(m0, 0, it.NM),
                                   k.v("operation_nodes_in_machine") == h0.at(X0.by_machine, m0),
                                   k.n == h0.len(h0.at(X0.by_machine, m0))))] + \
                _loop_common(self, k, lambda o, m: z3.Or(m < m0, z3.And(m == m0, mp(o) < k.i)))
        return {0: LoopSpec("for machine_node in graph.nodes_by_type[NodeType.MACHINE]", outer, _edge_mod),
                1: LoopSpec("for operation_node in operation_nodes_in_machine", inner, _edge_mod)}


@register
class AddMachineMachineEdges(_Builder):
    name = "add_machine_machine_edges"

    def requires(self, c):
        h, g = c.h0, c["graph"]
        return op_graph(h, g) + with_machine_nodes(h, g)

    def upd(self, h0, g, limit=None):
        X = G(h0, g)
        it = Inst(h0, X.I)

        def f(u, v, old):
            a, b = u - it.N, v - it.N
            cond = z3.And(rng(a, 0, it.NM), rng(b, 0, it.NM), a != b)
            if limit is not None:
                cond = z3.And(cond, limit(z3.If(a < b, a, b), z3.If(a < b, b, a)))
            return z3.If(cond, z3.IntVal(UNTYPED), old)
        return f

    def ensures(self, c):
        h0, h, g = c.h0, c.h, c["graph"]
        return graph_ok(h, g) + self.kept(c) + [
            ("exactly-both-directions-between-every-two-machine-nodes", edges_updated(h0, h, G(h0, g).nx, self.upd(h0, g)))]

    @property
    def loops(self):
        def inv(k):
            it = Inst(k.h0, G(k.h0, k["graph"]).I)
            return [("all-pairs", k.n == CombN(it.NM))] + _loop_common(self, k, lambda lo, hi: CombK(it.NM, lo, hi) < k.i)
        return {0: LoopSpec("for (machine1, machine2) in itertools.combinations(graph.nodes_by_type[NodeType.MACHINE], 2)",
                            inv, _edge_mod)}


@register
class AddSameJobOperationsEdges(_Builder):
    name = "add_same_job_operations_edges"

    def upd(self, h0, g, limit=None):
        X = G(h0, g)
        it = Inst(h0, X.I)

        def f(u, v, old):
            ou, ov = op_of(h0, g, u), op_of(h0, g, v)
            cond = z3.And(rng(u, 0, it.N), rng(v, 0, it.N), u != v, it.jid(ou) == it.jid(ov))
            if limit is not None:
                pu, pv = it.pos(ou), it.pos(ov)
                cond = z3.And(cond, limit(it.jid(ou), z3.If(pu < pv, pu, pv), z3.If(pu < pv, pv, pu)))
            return z3.If(cond, z3.IntVal(UNTYPED), old)
        return f

    def ensures(self, c):
        h0, h, g = c.h0, c.h, c["graph"]
        return graph_ok(h, g) + self.kept(c) + [
            ("exactly-both-directions-between-every-two-operations-of-a-job", edges_updated(h0, h, G(h0, g).nx, self.upd(h0, g)))]

    @property
    def loops(self):
        def outer(k):
            return _loop_common(self, k, lambda j, lo, hi: j < k.i)

        def inner(k):
            h0, g = k.h0, k["graph"]
            X0 = G(h0, g)
            it = Inst(h0, X0.I)
            j0 = k.outer[-1]
            n = it.L(j0)
            return [("row", z3.And(k.v("job") == h0.at(X0.by_job, j0), rng(j0, 0, it.J), k.n == CombN(n)))] + \
                _loop_common(self, k, lambda j, lo, hi: z3.Or(j < j0, z3.And(j == j0, CombK(n, lo, hi) < k.i)))
        return {0: LoopSpec("for job in graph.nodes_by_job", outer, _edge_mod),
                1: LoopSpec("for (operation1, operation2) in itertools.combinations(job, 2)", inner, _edge_mod)}


# ---------------------------------------------------------------------------
# job nodes, global node
# ---------------------------------------------------------------------------
def job_nodes(h, g, base, upto=None):
    """nodes base .. base+upto-1 are the job nodes of jobs 0 .. upto-1, listed in that order in the JOB row"""
    X = G(h, g)
    it = Inst(h, X.I)
    j = bv("jj")
    n = it.J if upto is None else upto
    nd = X.node(base + j)
    row = h.at(X.by_type, T_JOB)
    return z3.And(
        h.len(row) == n,
        forall([j], imp(rng(j, 0, n), z3.And(h.get("node_type", nd) == T_JOB, h.get("_job_id#none", nd) == 0,
                                             h.get("_job_id", nd) == j, h.at(row, j) == nd)),
               patterns=[h.at(X.nodes, base + j), h.at(h.at(X.by_type, T_JOB), j)]))


def tables_kept(h0, h, g):
    """the three tables still hold the same row lists (the rows' contents may have grown)"""
    X0, X = G(h0, g), G(h, g)
    it = Inst(h0, X0.I)
    t = bv("kt")
    return z3.And(
        forall([t], imp(rng(t, 0, len(NODE_TYPES)), h.at(X.by_type, t) == h0.at(X0.by_type, t)),
               patterns=[h.at(X.by_type, t), h0.at(X0.by_type, t)]),
        forall([t], imp(rng(t, 0, it.NM), h.at(X.by_machine, t) == h0.at(X0.by_machine, t)),
               patterns=[h.at(X.by_machine, t), h0.at(X0.by_machine, t)]),
        forall([t], imp(rng(t, 0, it.J), h.at(X.by_job, t) == h0.at(X0.by_job, t)),
               patterns=[h.at(X.by_job, t), h0.at(X0.by_job, t)]))


def jbase(h, g):
    """id of the first job node: recorded by ghost code when the job nodes are added"""
    return h.get("$jbase", g)


@register
class AddJobNodes(_Builder):
    name = "add_job_nodes"

    def requires(self, c):
        h, g = c.h0, c["graph"]
        X = G(h, g)
        return op_graph(h, g) + [("no-job-nodes-yet", h.len(h.at(X.by_type, T_JOB)) == 0)]

    def modifies(self, c):
        h, g = c.h0, c["graph"]
        X = G(h, g)
        return Frame(fields={"_next_node_id": [g], "$$gn": [X.nx], "$$mpos": [g], "$jbase": [g]}, lists=graph_lists_frame(h, g),
                     alloc_objects=NODE_FIELDS + ["$type"])

    def ghost(self, c, st):
        st.heap = st.heap.put("$jbase", c["graph"], G(c.h0, c["graph"]).n)

    def ensures(self, c):
        h0, h, g = c.h0, c.h, c["graph"]
        X0, X = G(h0, g), G(h, g)
        it = Inst(h0, X0.I)
        i = bv("gi")
        return op_graph(h, g) + [
            ("same-graph-object", same_graph(h0, h, g)),
            ("one-node-per-job-appended", z3.And(X.n == X0.n + it.J, jbase(h, g) == X0.n, job_nodes(h, g, X0.n))),
            ("earlier-nodes-kept", forall([i], imp(rng(i, 0, X0.n), X.node(i) == X0.node(i)), patterns=[h.at(X.nodes, i)])),
            ("tables-kept", tables_kept(h0, h, g)),
            ("machine-rows-kept", machine_rows_kept(h0, h, g)),
            ("machine-and-global-type-rows-kept", z3.And(unchanged(h0, h, h0.at(X0.by_type, T_MACHINE)),
                                                         unchanged(h0, h, h0.at(X0.by_type, T_GLOBAL)))),
            ("no-edge-changes", h.get("$$ge", X.nx) == h0.get("$$ge", X0.nx))]

    _K = ["same-graph-object", "job-nodes-so-far", "earlier-nodes-kept", "tables-kept", "operation-nodes-listed-under-their-job",
          "machine-rows-kept", "machine-and-global-type-rows-kept",
          "fields", "gets-the-next-id-and-is-appended", "listed-under-its-type", "machine-table-keeps-its-rows",
          "single-machine-operation-nodes-listed-under-their-machine", "G-shape", "T-sizes", "T-layout", "T-type-rows",
          "T-type-rows-distinct", "T-machine-rows", "inst-refs"]
    relevant_strict = {"loop0:inv-preserved:earlier-nodes-kept": _K, "loop0:inv-preserved:machine-rows-kept": _K,
                       "loop0:inv-preserved:tables-kept": _K,
                       "loop0:inv-preserved:machine-and-global-type-rows-kept": _K}

    @property
    def loops(self):
        def inv(k):
            h0, h, g = k.h0, k.h, k["graph"]
            X0, X = G(h0, g), G(h, g)
            it = Inst(h0, X0.I)
            i = bv("gi")
            return op_graph(h, g) + [
                ("same-graph-object", same_graph(h0, h, g)),
                ("job-nodes-so-far", z3.And(X.n == X0.n + k.i, job_nodes(h, g, X0.n, k.i), k.n == it.J)),
                ("earlier-nodes-kept", forall([i], imp(rng(i, 0, X0.n), X.node(i) == X0.node(i)), patterns=[h.at(X.nodes, i)])),
                ("tables-kept", tables_kept(h0, h, g)),
                ("machine-rows-kept", machine_rows_kept(h0, h, g)),
                ("machine-and-global-type-rows-kept", z3.And(unchanged(h0, h, h0.at(X0.by_type, T_MACHINE)),
                                                             unchanged(h0, h, h0.at(X0.by_type, T_GLOBAL)))),
                ("no-edge-changes", h.get("$$ge", X.nx) == h0.get("$$ge", X0.nx))]

        def mod(k):
            h0, g = k.h0, k["graph"]
            X0 = G(h0, g)
            return Frame(fields={"_next_node_id": [g], "$$gn": [X0.nx], "$$mpos": [g]}, lists=graph_lists_frame(h0, g),
                         alloc_objects=NODE_FIELDS + ["$type"])
        return {0: LoopSpec("for job_id in range(graph.instance.num_jobs)", inv, mod)}


def with_job_nodes(h, g):
    X = G(h, g)
    it = Inst(h, X.I)
    b = jbase(h, g)
    return [("job-nodes-present", z3.And(b >= it.N, X.n >= b + it.J, job_nodes(h, g, b)))]


@register
class AddOperationJobEdges(_Builder):
    name = "add_operation_job_edges"

    def requires(self, c):
        h, g = c.h0, c["graph"]
        return op_graph(h, g) + with_job_nodes(h, g)

    def upd(self, h0, g, limit=None):
        X = G(h0, g)
        it = Inst(h0, X.I)
        b = jbase(h0, g)

        def f(u, v, old):
            def oj(o, jn):
                cond = z3.And(rng(o, 0, it.N), rng(jn - b, 0, it.J), it.jid(op_of(h0, g, o)) == jn - b)
                if limit is not None:
                    cond = z3.And(cond, limit(jn - b, it.pos(op_of(h0, g, o))))
                return cond
            return z3.If(z3.Or(oj(u, v), oj(v, u)), z3.IntVal(UNTYPED), old)
        return f

    def ensures(self, c):
        h0, h, g = c.h0, c.h, c["graph"]
        return graph_ok(h, g) + self.kept(c) + [
            ("exactly-both-directions-between-each-operation-and-its-job-node", edges_updated(h0, h, G(h0, g).nx, self.upd(h0, g)))]

    @property
    def loops(self):
        def outer(k):
            it = Inst(k.h0, G(k.h0, k["graph"]).I)
            return [("all-jobs", k.n == it.J)] + _loop_common(self, k, lambda j, p: j < k.i)

        def inner(k):
            h0, g = k.h0, k["graph"]
            X0 = G(h0, g)
            it = Inst(h0, X0.I)
            j0 = k.outer[-1]
            return [("row", z3.And(k.v("job_node") == X0.node(jbase(h0, g) + j0), rng(j0, 0, it.J),
                                   k.v("operation_nodes_in_job") == h0.at(X0.by_job, j0), k.n == it.L(j0)))] + \
                _loop_common(self, k, lambda j, p: z3.Or(j < j0, z3.And(j == j0, p < k.i)))
        return {0: LoopSpec("for job_node in graph.nodes_by_type[NodeType.JOB]", outer, _edge_mod),
                1: LoopSpec("for operation_node in operation_nodes_in_job", inner, _edge_mod)}


@register
class AddJobJobEdges(_Builder):
    name = "add_job_job_edges"

    def requires(self, c):
        h, g = c.h0, c["graph"]
        return op_graph(h, g) + with_job_nodes(h, g)

    def upd(self, h0, g, limit=None):
        X = G(h0, g)
        it = Inst(h0, X.I)
        base = jbase(h0, g)

        def f(u, v, old):
            a, b = u - base, v - base
            cond = z3.And(rng(a, 0, it.J), rng(b, 0, it.J), a != b)
            if limit is not None:
                cond = z3.And(cond, limit(z3.If(a < b, a, b), z3.If(a < b, b, a)))
            return z3.If(cond, z3.IntVal(UNTYPED), old)
        return f

    def ensures(self, c):
        h0, h, g = c.h0, c.h, c["graph"]
        return graph_ok(h, g) + self.kept(c) + [
            ("exactly-both-directions-between-every-two-job-nodes", edges_updated(h0, h, G(h0, g).nx, self.upd(h0, g)))]

    @property
    def loops(self):
        def inv(k):
            it = Inst(k.h0, G(k.h0, k["graph"]).I)
            return [("all-pairs", k.n == CombN(it.J))] + _loop_common(self, k, lambda lo, hi: CombK(it.J, lo, hi) < k.i)
        return {0: LoopSpec("for (job1, job2) in itertools.combinations(graph.nodes_by_type[NodeType.JOB], 2)", inv, _edge_mod)}


def gid(h, g):
    """id of the global node (recorded by ghost code when it is added)"""
    return h.get("$gid", g)


def global_node(h, g):
    X = G(h, g)
    it = Inst(h, X.I)
    k = gid(h, g)
    row = h.at(X.by_type, T_GLOBAL)
    return z3.And(rng(k, it.N, X.n), h.get("node_type", X.node(k)) == T_GLOBAL, h.len(row) == 1, h.at(row, 0) == X.node(k))


@register
class AddGlobalNode(_Builder):
    name = "add_global_node"

    def requires(self, c):
        h, g = c.h0, c["graph"]
        X = G(h, g)
        return op_graph(h, g) + [("no-global-node-yet", h.len(h.at(X.by_type, T_GLOBAL)) == 0)]

    def modifies(self, c):
        h, g = c.h0, c["graph"]
        X = G(h, g)
        return Frame(fields={"_next_node_id": [g], "$$gn": [X.nx], "$$mpos": [g], "$gid": [g]}, lists=graph_lists_frame(h, g),
                     alloc_objects=NODE_FIELDS + ["$type"])

    def ghost(self, c, st):
        st.heap = st.heap.put("$gid", c["graph"], G(c.h0, c["graph"]).n)

    def ensures(self, c):
        h0, h, g = c.h0, c.h, c["graph"]
        X0, X = G(h0, g), G(h, g)
        i = bv("gi")
        return op_graph(h, g) + [
            ("same-graph-object", same_graph(h0, h, g)),
            ("one-global-node-appended", z3.And(X.n == X0.n + 1, gid(h, g) == X0.n, global_node(h, g))),
            ("earlier-nodes-kept", forall([i], imp(rng(i, 0, X0.n), X.node(i) == X0.node(i)), patterns=[h.at(X.nodes, i)])),
            ("tables-kept", tables_kept(h0, h, g)),
            ("machine-rows-kept", machine_rows_kept(h0, h, g)),
            ("machine-and-job-type-rows-kept", z3.And(unchanged(h0, h, h0.at(X0.by_type, T_MACHINE)),
                                                      unchanged(h0, h, h0.at(X0.by_type, T_JOB)))),
            ("no-edge-changes", h.get("$$ge", X.nx) == h0.get("$$ge", X0.nx))]


class _GlobalEdges(_Builder):
    kind = ""

    def base(self, h, g):
        X = G(h, g)
        it = Inst(h, X.I)
        return (it.N, it.NM) if self.kind == "machine" else (jbase(h, g), it.J)

    def requires(self, c):
        h, g = c.h0, c["graph"]
        pre = with_machine_nodes(h, g) if self.kind == "machine" else with_job_nodes(h, g)
        return op_graph(h, g) + pre + [("global-node-present", global_node(h, g))]

    def upd(self, h0, g, limit=None):
        b, n = self.base(h0, g)
        k = gid(h0, g)

        def f(u, v, old):
            def ge_(x, y):
                cond = z3.And(x == k, rng(y - b, 0, n))
                if limit is not None:
                    cond = z3.And(cond, limit(y - b))
                return cond
            return z3.If(z3.Or(ge_(u, v), ge_(v, u)), z3.IntVal(UNTYPED), old)
        return f

    def ensures(self, c):
        h0, h, g = c.h0, c.h, c["graph"]
        return graph_ok(h, g) + self.kept(c) + [
            (f"exactly-both-directions-between-the-global-node-and-every-{self.kind}-node",
             edges_updated(h0, h, G(h0, g).nx, self.upd(h0, g)))]

    @property
    def loops(self):
        def inv(k):
            h0, g = k.h0, k["graph"]
            X0 = G(h0, g)
            b, n = self.base(h0, g)
            return [("global-node", z3.And(k.v("global_node") == X0.node(gid(h0, g)), k.n == n))] + \
                _loop_common(self, k, lambda t: t < k.i)
        row = "MACHINE" if self.kind == "machine" else "JOB"
        return {0: LoopSpec(f"for {self.kind}_node in graph.nodes_by_type[NodeType.{row}]", inv, _edge_mod)}


@register
class AddMachineGlobalEdges(_GlobalEdges):
    name = "add_machine_global_edges"
    kind = "machine"


@register
class AddJobGlobalEdges(_GlobalEdges):
    name = "add_job_global_edges"
    kind = "job"


# ---------------------------------------------------------------------------
# the three agent-task graphs
# ---------------------------------------------------------------------------
class _BuildAgentTask(Contract):
    properties = ("C16",)
    params = {"instance": REF("JobShopInstance")}
    ret = REF("JobShopGraph")
    defaultdict_size = len(NODE_TYPES)
    with_jobs = False
    with_global = False
    machine_machine = False
    same_job = False
    job_job = False

    def requires(self, c):
        from .instance import numbered
        h, I = c.h0, c["instance"]
        return valid_instance(h, I) + cum_facts(h, I) + [("operations-numbered", numbered(h, I)),
                                                         ("non-flexible-instance", non_flexible(h, I))]

    def modifies(self, c):
        return Frame(alloc_objects=NODE_FIELDS + GRAPH_FIELDS + ["$type", "$$gn", "$$ge", "$$mpos", "$jbase", "$gid"],
                     alloc_lists=True)

    _NODES = ["one-node-per-machine-after-the-operation-nodes", "one-node-per-job-appended", "one-global-node-appended",
              "earlier-nodes-kept", "tables-kept", "machine-and-global-type-rows-kept", "machine-and-job-type-rows-kept",
              "job-and-global-type-rows-kept", "same-graph-object", "instance-kept", "operation-nodes-first",
              "with-operation-nodes:one-node-per-operation-with-node-id=operation-id", "new-networkx-graph-and-lists",
              "G-shape", "G-node-ids", "T-sizes", "T-layout", "T-type-rows", "T-type-rows-distinct", "inst-refs", "inst-jobs",
              "inst-ops", "inst-index-bound", "operations-numbered"]
    relevant_strict = {
        "count": _NODES, "operation-nodes-first-by-id": _NODES, "then-machine-nodes": _NODES, "then-job-nodes": _NODES,
        "then-the-global-node": _NODES,
        "machine-nodes-present": _NODES, "job-nodes-present": _NODES, "global-node-present": _NODES,
        "no-job-nodes-yet": _NODES + ["with-operation-nodes:one-node-per-operation-with-node-id=operation-id"],
        "no-global-node-yet": _NODES}

    def ensures(self, c):
        h0, h, I, g = c.h0, c.h, c["instance"], c.result
        X = G(h, g)
        it = Inst(h0, I)
        N, NM, J = it.N, it.NM, it.J
        u, v = bv("eu"), bv("ev")
        ou, ov = op_of(h, g, u), op_of(h, g, v)
        total = N + NM + (J if self.with_jobs else 0) + (1 if self.with_global else 0)
        jb, gk = N + NM, N + NM + J

        def om(o, m):
            return z3.And(rng(o, 0, N), rng(m - N, 0, NM), mach0(h0, op_of(h, g, o)) == m - N)

        def oj(o, jn):
            return z3.And(rng(o, 0, N), rng(jn - jb, 0, J), it.jid(op_of(h, g, o)) == jn - jb)
        conds = [om(u, v), om(v, u)]
        if self.machine_machine:
            conds.append(z3.And(rng(u - N, 0, NM), rng(v - N, 0, NM), u != v))
        if self.same_job:
            conds.append(z3.And(rng(u, 0, N), rng(v, 0, N), u != v, it.jid(ou) == it.jid(ov)))
        if self.with_jobs:
            conds += [oj(u, v), oj(v, u)]
        if self.job_job:
            conds.append(z3.And(rng(u - jb, 0, J), rng(v - jb, 0, J), u != v))
        if self.with_global:
            conds += [z3.And(u == gk, rng(v - N, 0, NM + J)), z3.And(v == gk, rng(u - N, 0, NM + J))]
        want = z3.If(z3.Or(conds), z3.IntVal(UNTYPED), z3.IntVal(0))
        out = [
            ("a-new-graph-of-this-instance", z3.And(g >= h0.alloc, g < h.alloc, X.I == I)),
            ("one-node-per-entity:count", X.n == total),
            ("one-node-per-entity:operation-nodes-first-by-id", z3.And(op_nodes(h, g, I), op_nodes_by_index(h, g, I, N))),
            ("one-node-per-entity:then-machine-nodes", machine_nodes(h, g)),
            ("one-node-per-entity:then-job-nodes", job_nodes(h, g, jb) if self.with_jobs else z3.BoolVal(True)),
            ("one-node-per-entity:then-the-global-node",
             z3.And(gid(h, g) == gk, global_node(h, g)) if self.with_global else z3.BoolVal(True)),
            ("exactly-the-prescribed-edges", forall([u, v], ge(h, X.nx, u, v) == want,
                                                    patterns=[z3.Select(h.get("$$ge", X.nx), Pair(u, v))])),
        ]
        return out + graph_ok(h, g)


@register
class BuildAgentTaskGraph(_BuildAgentTask):
    name = "build_agent_task_graph"
    machine_machine = True
    same_job = True


@register
class BuildAgentTaskGraphWithJobs(_BuildAgentTask):
    name = "build_agent_task_graph_with_jobs"
    with_jobs = True
    machine_machine = True
    job_job = True


@register
class BuildCompleteAgentTaskGraph(_BuildAgentTask):
    name = "build_complete_agent_task_graph"
    with_jobs = True
    with_global = True
