"""C14 (deductive part): the derived views of JobShopInstance against their definitions.

`RawInstance(I)` is the input shape of JobShopInstance.__init__ BEFORE the operation attributes are
set: a list of job lists of pairwise distinct Operation objects.  Distinctness is stated with two
ghost inverse maps ($gj, $gp: operation -> its job index and position), which makes every
"is an operation of I" test quantifier free.
"""
from __future__ import annotations

import z3

from pyvc.engine import Contract, Frame, LoopSpec
from pyvc.values import ANY, BOOL, INT, LIST, REF, forall

from .core import register
from .spec import Inst, bv, imp, rng

ATTRS = ("job_id", "position_in_job", "operation_id")


def gj(h, o):
    return h.get("$gj", o)


def gp(h, o):
    return h.get("$gp", o)


def is_raw_op(h, I, x):
    it = Inst(h, I)
    return z3.And(rng(gj(h, x), 0, it.J), rng(gp(h, x), 0, it.L(gj(h, x))), it.op(gj(h, x), gp(h, x)) == x)


def raw_instance(h, I):
    it = Inst(h, I)
    j, p = bv("j"), bv("p")
    o = it.op(j, p)
    A = h.alloc
    return [
        ("raw-refs", z3.And(I > 0, I < A, it.jobs > 0, it.jobs < A)),
        ("raw-jobs", forall([j], imp(rng(j, 0, it.J), z3.And(it.job(j) > 0, it.job(j) < A, it.job(j) != it.jobs)),
                            patterns=[it.job(j)])),
        ("raw-ops-distinct", forall([j, p], imp(z3.And(rng(j, 0, it.J), rng(p, 0, it.L(j))),
                                                z3.And(o > 0, o < A, gj(h, o) == j, gp(h, o) == p)),
                                    patterns=[it.op(j, p)])),
        ("inst-cum", z3.And(it.cumL(0) == 0, forall([j], imp(rng(j, 0, it.J), it.cumL(j + 1) == it.cumL(j) + it.L(j))))),
    ]


def numbered(h, I, upto_job=None, upto_pos=None):
    """job_id / position_in_job / operation_id of operation (j, p) are j, p and cumL(j) + p, for all
    (j, p) lexicographically before (upto_job, upto_pos) (all operations if None)"""
    it = Inst(h, I)
    j, p = bv("j"), bv("p")
    o = it.op(j, p)
    dom = z3.And(rng(j, 0, it.J), rng(p, 0, it.L(j)))
    if upto_job is not None:
        before = j < upto_job if upto_pos is None else z3.Or(j < upto_job, z3.And(j == upto_job, p < upto_pos))
        dom = z3.And(dom, before)
    return forall([j, p], imp(dom, z3.And(it.jid(o) == j, it.pos(o) == p, h.get("operation_id", o) == it.cumL(j) + p)),
                  patterns=[it.op(j, p)])


def others_untouched(h0, h, I):
    x = bv("x")
    return forall([x], imp(z3.Not(is_raw_op(h0, I, x)),
                           z3.And([h.get(f, x) == h0.get(f, x) for f in ATTRS])),
                  patterns=[h.get(ATTRS[0], x)])


@register
class SetOperationAttributes(Contract):
    name = "JobShopInstance.set_operation_attributes"
    properties = ("C14",)

    def requires(self, c):
        return raw_instance(c.h0, c["self"])

    def modifies(self, c):
        h0, I = c.h0, c["self"]
        return Frame(fields={f: (lambda x: is_raw_op(h0, I, x)) for f in ATTRS})

    def ensures(self, c):
        return [("operations-numbered-densely-in-job-major-order", numbered(c.h, c["self"]))]

    @property
    def loops(self):
        def outer(k):
            it = Inst(k.h0, k["self"])
            return [("numbered-before-this-job", z3.And(k.v("operation_id") == it.cumL(k.i),
                                                        numbered(k.h, k["self"], k.i)))]

        def inner(k):
            it = Inst(k.h0, k["self"])
            j0 = k.outer[-1]
            return [("job-is-current", z3.And(k.v("job") == it.job(j0), k.v("job_id") == j0, rng(j0, 0, it.J))),
                    ("numbered-before-this-operation", z3.And(k.v("operation_id") == it.cumL(j0) + k.i,
                                                              numbered(k.h, k["self"], j0, k.i)))]

        def mod(k):
            h0, I = k.h0, k["self"]
            return Frame(fields={f: (lambda x: is_raw_op(h0, I, x)) for f in ATTRS})
        return {0: LoopSpec("for (job_id, job) in enumerate(self.jobs)", outer, mod),
                1: LoopSpec("for (position, operation) in enumerate(job)", inner, mod)}


# ---------------------------------------------------------------------------
# cached views (each is a functools.cached_property: the body runs once per instance; the instance
# is never modified afterwards -- frames of every function under contract -- so the stored value
# stays the value of the body)
# ---------------------------------------------------------------------------
from .spec import valid_instance  # noqa: E402


class _View(Contract):
    params = {"self": REF("JobShopInstance")}
    properties = ("C14",)

    def requires(self, c):
        return valid_instance(c.h0, c["self"])


@register
class IsFlexible(_View):
    name = "JobShopInstance.is_flexible"
    ret = BOOL
    pure = True

    def ensures(self, c):
        it = Inst(c.h0, c["self"])
        j, p = bv("j"), bv("p")
        return [("some-operation-has-several-machines", c.result == z3.Exists(
            [j, p], z3.And(rng(j, 0, it.J), rng(p, 0, it.L(j)), it.nmach(it.op(j, p)) > 1)))]


@register
class DurationsMatrix(_View):
    name = "JobShopInstance.durations_matrix"
    ret = LIST(LIST(INT))

    def modifies(self, c):
        return Frame(alloc_lists=True)

    def ensures(self, c):
        h, h0, R = c.h, c.h0, c.result
        it = Inst(h0, c["self"])
        j, p = bv("j"), bv("p")
        row = h.at(R, j)
        return [("one-row-per-job", z3.And(R >= h0.alloc, R < h.alloc, h.len(R) == it.J)),
                ("row-j-holds-the-durations-of-job-j", forall([j], imp(rng(j, 0, it.J), z3.And(
                    row >= h0.alloc, row < h.alloc, h.len(row) == it.L(j),
                    forall([p], imp(rng(p, 0, it.L(j)), h.at(row, p) == it.dur(it.op(j, p))), patterns=[h.at(row, p)]))),
                    patterns=[h.at(R, j)]))]


@register
class MaxDurationPerJob(_View):
    name = "JobShopInstance.max_duration_per_job"
    ret = LIST(INT)

    def modifies(self, c):
        return Frame(alloc_lists=True)

    def ensures(self, c):
        h, h0, R = c.h, c.h0, c.result
        it = Inst(h0, c["self"])
        j, p = bv("j"), bv("p")
        v = h.at(R, j)
        return [("one-entry-per-job", z3.And(R >= h0.alloc, R < h.alloc, h.len(R) == it.J)),
                ("entry-j-is-the-maximum-duration-of-job-j", forall([j], imp(rng(j, 0, it.J), z3.And(
                    forall([p], imp(rng(p, 0, it.L(j)), it.dur(it.op(j, p)) <= v), patterns=[it.op(j, p)]),
                    z3.Exists([p], z3.And(rng(p, 0, it.L(j)), it.dur(it.op(j, p)) == v)))), patterns=[h.at(R, j)]))]


# ---- sums: spec-level prefix sums as ghost arrays, defined by their recursion -------------------
def cumD(h, job, t):
    """ghost: sum of the durations of the first t operations of the job list `job`"""
    return z3.Select(h.get("$$cumD", job), t)


def cumT(h, I, t):
    """ghost: sum of the total durations of the first t jobs"""
    return z3.Select(h.get("$$cumT", I), t)


def duration_sums_defined(h, I):
    it = Inst(h, I)
    j, p = bv("j"), bv("p")
    return [("def-job-duration-prefix-sums", forall([j], imp(rng(j, 0, it.J), z3.And(
        cumD(h, it.job(j), 0) == 0,
        forall([p], imp(rng(p, 0, it.L(j)), cumD(h, it.job(j), p + 1) == cumD(h, it.job(j), p) + it.dur(it.op(j, p))),
               patterns=[cumD(h, it.job(j), p + 1)]))), patterns=[it.job(j)])),
        ("def-total-duration-prefix-sums", z3.And(cumT(h, I, 0) == 0, forall([j], imp(
            rng(j, 0, it.J), cumT(h, I, j + 1) == cumT(h, I, j) + cumD(h, it.job(j), it.L(j))),
            patterns=[cumT(h, I, j + 1)])))]


@register
class JobDurations(_View):
    name = "JobShopInstance.job_durations"
    ret = LIST(INT)

    def requires(self, c):
        return valid_instance(c.h0, c["self"]) + duration_sums_defined(c.h0, c["self"])

    def modifies(self, c):
        return Frame(alloc_lists=True)

    def ensures(self, c):
        h, h0, R = c.h, c.h0, c.result
        it = Inst(h0, c["self"])
        j = bv("j")
        return [("one-entry-per-job", z3.And(R >= h0.alloc, R < h.alloc, h.len(R) == it.J)),
                ("entry-j-is-the-sum-of-the-durations-of-job-j", forall([j], imp(
                    rng(j, 0, it.J), h.at(R, j) == cumD(h0, it.job(j), it.L(j))), patterns=[h.at(R, j)]))]

    @property
    def sum_specs(self):
        def G(c, st):
            it = Inst(c.h0, c["self"])
            j = st.qstack[-1]   # index of the enclosing comprehension clause `for job in self.jobs`
            return lambda t: cumD(c.h0, it.job(j), t)
        return {"sum((op.duration for op in job))": G}


@register
class TotalDuration(_View):
    name = "JobShopInstance.total_duration"
    ret = INT

    def requires(self, c):
        return valid_instance(c.h0, c["self"]) + duration_sums_defined(c.h0, c["self"])

    def modifies(self, c):
        return Frame(alloc_lists=True)

    def ensures(self, c):
        it = Inst(c.h0, c["self"])
        return [("sum-of-all-durations", c.result == cumT(c.h0, c["self"], it.J))]

    @property
    def sum_specs(self):
        def G(c, st):
            return lambda t: cumT(c.h0, c["self"], t)
        return {"sum(self.job_durations)": G}


@register
class MaxDuration(_View):
    name = "JobShopInstance.max_duration"
    ret = INT
    pure = True

    def ensures(self, c):
        it = Inst(c.h0, c["self"])
        j, p = bv("j"), bv("p")
        dom = z3.And(rng(j, 0, it.J), rng(p, 0, it.L(j)))
        return [("no-duration-is-larger", forall([j, p], imp(dom, it.dur(it.op(j, p)) <= c.result), patterns=[it.op(j, p)])),
                ("some-operation-attains-it", z3.Exists([j, p], z3.And(dom, it.dur(it.op(j, p)) == c.result)))]


def machine_bound(h, I, r, upto_job=None, upto_pos=None):
    """r - 1 is the largest machine id among the operations before (upto_job, upto_pos) (all if None);
    r == 0 if there is none"""
    it = Inst(h, I)
    j, p, q = bv("j"), bv("p"), bv("q")
    o = it.op(j, p)
    dom = z3.And(rng(j, 0, it.J), rng(p, 0, it.L(j)), rng(q, 0, it.nmach(o)))
    if upto_job is not None:
        before = j < upto_job if upto_pos is None else z3.Or(j < upto_job, z3.And(j == upto_job, p < upto_pos))
        dom = z3.And(dom, before)
    return z3.And(forall([j, p, q], imp(dom, it.mach(o, q) < r), patterns=[it.mach(o, q)]),
                  z3.Or(r == 0, z3.Exists([j, p, q], z3.And(dom, it.mach(o, q) == r - 1))))


@register
class NumMachinesBody(_View):
    """the real body of the cached property num_machines against `largest machine id + 1` (the rest of
    the proofs use num_machines through the ghost $num_machines, characterised by ValidInstance)"""
    name = "JobShopInstance.num_machines$body"
    source = "JobShopInstance.num_machines"
    ret = INT
    pure = True

    def ensures(self, c):
        return [("largest-machine-id-plus-one", machine_bound(c.h0, c["self"], c.result))]

    @property
    def loops(self):
        def outer(k):
            return [("bound-before-this-job", machine_bound(k.h0, k["self"], k.v("max_machine_id") + 1, k.i))]

        def inner(k):
            it = Inst(k.h0, k["self"])
            j0 = k.outer[-1]
            return [("job-is-current", z3.And(k.v("job") == it.job(j0), rng(j0, 0, it.J))),
                    ("bound-before-this-operation", machine_bound(k.h0, k["self"], k.v("max_machine_id") + 1, j0, k.i))]
        return {0: LoopSpec("for job in self.jobs", outer), 1: LoopSpec("for operation in job", inner)}


@register
class MachinesMatrix(_View):
    name = "JobShopInstance.machines_matrix"
    ret = LIST(LIST(INT))   # rows of machine ids (non-flexible) or of machine-id lists (flexible): both are Ints here

    def modifies(self, c):
        return Frame(alloc_lists=True)

    def ensures(self, c):
        h, h0, R = c.h, c.h0, c.result
        it = Inst(h0, c["self"])
        j, p = bv("j"), bv("p")
        jf, pf = bv("jf"), bv("pf")
        flexible = z3.Exists([jf, pf], z3.And(rng(jf, 0, it.J), rng(pf, 0, it.L(jf)), it.nmach(it.op(jf, pf)) > 1))
        row = h.at(R, j)
        o = it.op(j, p)
        return [("one-row-per-job", z3.And(R >= h0.alloc, R < h.alloc, h.len(R) == it.J)),
                ("row-j-holds-the-machines-of-job-j", forall([j], imp(rng(j, 0, it.J), z3.And(
                    row >= h0.alloc, row < h.alloc, h.len(row) == it.L(j),
                    forall([p], imp(rng(p, 0, it.L(j)),
                                    h.at(row, p) == z3.If(flexible, it.machines(o), it.mach(o, 0))),
                           patterns=[h.at(row, p)]))), patterns=[h.at(R, j)]))]


def _before(j, p, q, upto):
    """(j, p, q) lexicographically before the triple `upto` (missing components: whole sub-range)"""
    if upto is None:
        return z3.BoolVal(True)
    uj, up, uq = (list(upto) + [None, None])[:3]
    alts = [j < uj]
    if up is not None:
        alts.append(z3.And(j == uj, p < up))
        if uq is not None:
            alts.append(z3.And(j == uj, p == up, q < uq))
    return z3.Or(alts)


def max_per_machine(h0, h, I, R, upto=None):
    """R[m] = max(0, durations of the operations before `upto` that can run on m)"""
    it = Inst(h0, I)
    j, p, q, m = bv("j"), bv("p"), bv("q"), bv("m")
    o = it.op(j, p)
    dom = z3.And(rng(j, 0, it.J), rng(p, 0, it.L(j)), rng(q, 0, it.nmach(o)), _before(j, p, q, upto))
    return z3.And(
        forall([j, p, q], imp(dom, it.dur(o) <= h.at(R, it.mach(o, q))), patterns=[it.mach(o, q)]),
        forall([m], imp(rng(m, 0, it.NM), z3.Or(h.at(R, m) == 0, z3.Exists(
            [j, p, q], z3.And(dom, it.mach(o, q) == m, it.dur(o) == h.at(R, m))))), patterns=[h.at(R, m)]))


@register
class MaxDurationPerMachine(_View):
    name = "JobShopInstance.max_duration_per_machine"
    ret = LIST(INT)

    def modifies(self, c):
        return Frame(alloc_lists=True)

    def ensures(self, c):
        h, h0, R = c.h, c.h0, c.result
        it = Inst(h0, c["self"])
        return [("one-entry-per-machine", z3.And(R >= h0.alloc, R < h.alloc, h.len(R) == it.NM)),
                ("entry-m-is-the-largest-duration-on-machine-m", max_per_machine(h0, h, c["self"], R))]

    @property
    def loops(self):
        def common(k):
            R = k.v("max_duration_per_machine")
            it = Inst(k.h0, k["self"])
            return R, z3.And(R >= k.h0.alloc, R < k.h.alloc, k.h.len(R) == it.NM)

        def l0(k):
            R, wf = common(k)
            return [("so-far", z3.And(wf, max_per_machine(k.h0, k.h, k["self"], R, (k.i,))))]

        def l1(k):
            R, wf = common(k)
            it = Inst(k.h0, k["self"])
            j0 = k.outer[-1]
            return [("job-is-current", z3.And(k.v("job") == it.job(j0), rng(j0, 0, it.J))),
                    ("so-far-1", z3.And(wf, max_per_machine(k.h0, k.h, k["self"], R, (j0, k.i))))]

        def l2(k):
            R, wf = common(k)
            it = Inst(k.h0, k["self"])
            j0, p0 = k.outer[-2], k.outer[-1]
            return [("operation-is-current", z3.And(k.v("job") == it.job(j0), rng(j0, 0, it.J),
                                                    k.v("operation") == it.op(j0, p0), rng(p0, 0, it.L(j0)))),
                    ("so-far-2", z3.And(wf, max_per_machine(k.h0, k.h, k["self"], R, (j0, p0, k.i))))]

        def mod(k):
            return Frame(lists=[k.v("max_duration_per_machine")])
        return {0: LoopSpec("for job in self.jobs", l0, mod), 1: LoopSpec("for operation in job", l1, mod),
                2: LoopSpec("for machine_id in operation.machines", l2, mod)}


@register
class InstanceInit(Contract):
    name = "JobShopInstance.__init__"
    properties = ("C14",)
    params = {"self": REF("JobShopInstance"), "jobs": LIST(LIST(REF("Operation"))), "set_operation_attributes": BOOL}

    def _pre_shape(self, h, I, jobs):
        """RawInstance with `jobs` in place of I.jobs (the field is assigned by the constructor)"""
        h1 = h.put("jobs", I, jobs)
        return h1

    def requires(self, c):
        h, I = c.h0, c["self"]
        h1 = self._pre_shape(h, I, c["jobs"])
        return [(n, p) for n, p in raw_instance(h1, I)] + [("new-object", z3.And(I > 0, I < h.alloc))]

    def modifies(self, c):
        h0, I = c.h0, c["self"]
        h1 = self._pre_shape(h0, I, c["jobs"])
        f = {a: (lambda x: is_raw_op(h1, I, x)) for a in ATTRS}
        f.update({"jobs": [I], "name": [I], "metadata": [I]})
        return Frame(fields=f)

    def ensures(self, c):
        h, I = c.h, c["self"]
        return [("stores-the-jobs", h.get("jobs", I) == c["jobs"]),
                ("operations-numbered-when-requested", imp(c["set_operation_attributes"], numbered(h, I)))]


# ---------------------------------------------------------------------------
# JobShopInstance.from_matrices (two argument shapes: machine ids / lists of machine ids)
# ---------------------------------------------------------------------------
class _FromMatrices(Contract):
    properties = ("C14",)
    source = "JobShopInstance.from_matrices"
    ret = REF("JobShopInstance")
    flexible = False

    def _shape(self, h, dm, mm):
        j, p = bv("j"), bv("p")
        dr, mr = h.at(dm, j), h.at(mm, j)
        A = h.alloc
        return [("matrices", z3.And(dm > 0, dm < A, mm > 0, mm < A, dm != mm, h.len(dm) >= 0, h.len(mm) >= h.len(dm))),
                ("rows", forall([j], imp(rng(j, 0, h.len(dm)), z3.And(dr > 0, dr < A, mr > 0, mr < A, h.len(dr) >= 0,
                                                                     h.len(mr) >= h.len(dr))),
                                patterns=[h.at(dm, j), h.at(mm, j)]))] + (
            [("machine-lists", forall([j, p], imp(z3.And(rng(j, 0, h.len(dm)), rng(p, 0, h.len(dr))),
                                                  z3.And(h.at(mr, p) > 0, h.at(mr, p) < A)), patterns=[h.at(h.at(mm, j), p)]))]
            if self.flexible else [])

    def requires(self, c):
        return self._shape(c.h0, c["duration_matrix"], c["machines_matrix"])

    def modifies(self, c):
        return Frame(fields={"$gj": "ALL", "$gp": "ALL", "$$cumL": "ALL"}, alloc_objects=True, alloc_lists=True)

    def _built(self, h0, h, dm, mm, jobs, upto_job=None, upto_pos=None):
        """jobs[j][p] is a new operation with duration dm[j][p] and machines mm[j][p] (wrapped in a new one-element list
        when it is a machine id)"""
        j, p = bv("j"), bv("p")
        o = h.at(h.at(jobs, j), p)
        dom = z3.And(rng(j, 0, h0.len(dm)), rng(p, 0, h0.len(h0.at(dm, j))))
        if upto_job is not None:
            dom = z3.And(dom, j < upto_job if upto_pos is None else z3.Or(j < upto_job, z3.And(j == upto_job, p < upto_pos)))
        ml = h.get("machines", o)
        given = h0.at(h0.at(mm, j), p)
        top = jobs + h0.len(dm)       # the job rows are the block of lists allocated right after `jobs`
        mach = (ml == given) if self.flexible else z3.And(ml > top, ml < h.alloc, h.len(ml) == 1, h.at(ml, 0) == given)
        return forall([j, p], imp(dom, z3.And(o > top, o < h.alloc, gj(h, o) == j, gp(h, o) == p,
                                              h.get("duration", o) == h0.at(h0.at(dm, j), p), mach)),
                      patterns=[h.at(h.at(jobs, j), p)])

    def ensures(self, c):
        h0, h, I = c.h0, c.h, c.result
        dm, mm = c["duration_matrix"], c["machines_matrix"]
        it = Inst(h, I)
        j = bv("j")
        return [("a-new-instance", z3.And(I >= h0.alloc, I < h.alloc)),
                ("one-job-per-row-one-operation-per-entry", z3.And(it.J == h0.len(dm), forall([j], imp(
                    rng(j, 0, it.J), it.L(j) == h0.len(h0.at(dm, j))), patterns=[it.job(j)]))),
                ("operation-(j,p)-has-duration-and-machines-of-entry-(j,p)", self._built(h0, h, dm, mm, it.jobs)),
                ("operations-numbered", numbered(h, I))]

    @property
    def ghost_after(self):
        def appended(c, st):
            h = st.heap
            jobs, jid = st.env["jobs"], st.env["job_id"].t
            row = h.at(jobs, jid)
            n = h.len((row, "c"))
            o = h.at((row, "c"), n - 1)
            st.heap = h.put("$gj", o, jid).put("$gp", o, n - 1)
        return {"jobs[job_id].append(Operation(duration=duration, machines=machines))": appended}

    @property
    def loops(self):
        def common(k, j, p):
            h0, h = k.h0, k.h
            dm, mm = k["duration_matrix"], k["machines_matrix"]
            jobs = k.v("jobs")
            t = bv("jt")
            row = h.at(jobs, t)
            if p is None:
                ln = z3.If(t < j, h0.len(h0.at(dm, t)), 0)
            else:
                ln = z3.If(t < j, h0.len(h0.at(dm, t)), z3.If(t == j, p, 0))
            return [("jobs-list", z3.And(jobs >= h0.alloc, jobs < h.alloc, h.len(jobs) == h0.len(dm), k.v("num_jobs") == h0.len(dm))),
                    ("job-rows", forall([t], imp(rng(t, 0, h0.len(dm)), z3.And(row > jobs, row <= jobs + h0.len(dm), row < h.alloc,
                                                                               h.len(row) == ln)),
                                        patterns=[h.at(jobs, t)])),
                    ("job-rows-distinct", forall([t, bv("jt2")], imp(z3.And(rng(t, 0, h0.len(dm)), rng(bv("jt2"), 0, h0.len(dm)),
                                                                            h.at(jobs, t) == h.at(jobs, bv("jt2"))), t == bv("jt2")),
                                                 patterns=[z3.MultiPattern(h.at(jobs, t), h.at(jobs, bv("jt2")))])),
                    ("built-so-far", self._built(h0, h, dm, mm, jobs, j, p))]

        def outer(k):
            return common(k, k.i, None)

        def inner(k):
            j0 = k.outer[-1]
            return [("row", z3.And(k.v("job_id") == j0, rng(j0, 0, k.h0.len(k["duration_matrix"])),
                                   k.n == k.h0.len(k.h0.at(k["duration_matrix"], j0)), k.v("num_operations") == k.n))] + common(k, j0, k.i)

        def mod(k):
            A0 = k.h0.alloc
            return Frame(fields={"$gj": "ALL", "$gp": "ALL"}, lists=lambda l: l >= A0, alloc_objects=True, alloc_lists=True)
        return {0: LoopSpec("for job_id in range(num_jobs)", outer, mod),
                1: LoopSpec("for position_in_job in range(num_operations)", inner, mod)}


@register
class FromMatrices(_FromMatrices):
    name = "JobShopInstance.from_matrices"
    params = {"duration_matrix": LIST(LIST(INT)), "machines_matrix": LIST(LIST(INT)), "name": ANY, "metadata": ANY}


@register
class FromMatricesFlexible(_FromMatrices):
    name = "JobShopInstance.from_matrices$flexible"
    params = {"duration_matrix": LIST(LIST(INT)), "machines_matrix": LIST(LIST(LIST(INT))), "name": ANY, "metadata": ANY}
    flexible = True


# ---------------------------------------------------------------------------
# round trip through the matrices (ghost lemma contracts/ghost_src.py::lemma_matrices_round_trip)
# ---------------------------------------------------------------------------
@register
class LemmaMatricesRoundTrip(Contract):
    """from_matrices(I.durations_matrix, I.machines_matrix) has the same jobs as the non-flexible instance I: as many
    jobs, as many operations per job, the same duration and the same machine for every operation (what to_dict stores
    and Schedule.from_dict / the benchmark loader read back)"""
    name = "lemma_matrices_round_trip"
    ret = REF("JobShopInstance")
    properties = ("C14",)
    params = {"instance": REF("JobShopInstance")}

    def requires(self, c):
        h, I = c.h0, c["instance"]
        it = Inst(h, I)
        j, p = bv("j"), bv("p")
        return valid_instance(h, I) + [("non-flexible", forall([j, p], imp(
            z3.And(rng(j, 0, it.J), rng(p, 0, it.L(j))), it.nmach(it.op(j, p)) == 1), patterns=[it.op(j, p)]))]

    def modifies(self, c):
        return Frame(fields={"$gj": "ALL", "$gp": "ALL", "$$cumL": "ALL"}, alloc_objects=True, alloc_lists=True)

    def ensures(self, c):
        h0, h, I, R = c.h0, c.h, c["instance"], c.result
        a, b = Inst(h0, I), Inst(h, R)
        j, p = bv("j"), bv("p")
        oa, ob = a.op(j, p), b.op(j, p)
        return [("a-new-instance", z3.And(R >= h0.alloc, R < h.alloc)),
                ("same-job-structure", z3.And(b.J == a.J, forall([j], imp(rng(j, 0, a.J), b.L(j) == a.L(j)),
                                                                 patterns=[b.job(j)]))),
                ("same-durations-and-machines", forall([j, p], imp(z3.And(rng(j, 0, a.J), rng(p, 0, a.L(j))), z3.And(
                    b.dur(ob) == a.dur(oa), b.nmach(ob) == 1, b.mach(ob, 0) == a.mach(oa, 0))),
                    patterns=[b.op(j, p)]))]


@register
class InstanceToDict(Contract):
    """to_dict(): the dictionary literal holds the name, the two matrices (as the views compute them) and the metadata"""
    name = "JobShopInstance.to_dict"
    properties = ("C14",)
    params = {"self": REF("JobShopInstance")}
    # shape of the returned dictionary display (what a caller sees)
    ret_dict = {"name": ANY, "duration_matrix": LIST(LIST(INT)), "machines_matrix": LIST(LIST(INT)), "metadata": ANY}

    def requires(self, c):
        return valid_instance(c.h0, c["self"])

    def modifies(self, c):
        return Frame(alloc_lists=True)

    def ensures(self, c):
        h0, h, I = c.h0, c.h, c["self"]
        it = Inst(h0, I)
        d = c.res.t
        dm, mm = d["duration_matrix"].t, d["machines_matrix"].t
        j, p = bv("j"), bv("p")
        row = h.at(dm, j)
        return [("keys", z3.BoolVal(sorted(d) == ["duration_matrix", "machines_matrix", "metadata", "name"])),
                ("name-and-metadata-are-the-fields", z3.And(d["name"].t == h0.get("name", I),
                                                            d["metadata"].t == h0.get("metadata", I))),
                ("duration-matrix-holds-the-durations", z3.And(h.len(dm) == it.J, forall([j], imp(rng(j, 0, it.J), z3.And(
                    h.len(row) == it.L(j),
                    forall([p], imp(rng(p, 0, it.L(j)), h.at(row, p) == it.dur(it.op(j, p))), patterns=[h.at(row, p)]))),
                    patterns=[h.at(dm, j)]))),
                ("machines-matrix-has-one-row-per-job", h.len(mm) == it.J)]


@register
class ScheduleToDict(Contract):
    """Schedule.to_dict(): "job_sequences" has one row per machine list, row m holding the job ids of that machine's
    scheduled operations in order; "instance" is the instance's dictionary, "metadata" the metadata field"""
    name = "Schedule.to_dict"
    properties = ("C14",)
    params = {"self": REF("Schedule")}

    def requires(self, c):
        from .core import sched_wf
        h, s = c.h0, c["self"]
        return valid_instance(h, h.get("instance", s)) + [("self", s > 0)] + sched_wf(h, h.get("_schedule", s)) + [
            ("schedule-lists-exist", z3.And(h.get("_schedule", s) < h.alloc, forall(
                [bv("m")], imp(rng(bv("m"), 0, h.len(h.get("_schedule", s))), h.at(h.get("_schedule", s), bv("m")) < h.alloc),
                patterns=[h.at(h.get("_schedule", s), bv("m"))])))]

    def modifies(self, c):
        return Frame(alloc_lists=True)

    def _rows(self, h0, h, S, R, upto):
        m, i = bv("m"), bv("i")
        row, src = h.at(R, m), h0.at(S, m)
        return forall([m], imp(rng(m, 0, upto), z3.And(
            row > R, row < h.alloc, h.len(row) == h0.len(src),
            forall([i], imp(rng(i, 0, h0.len(src)), h.at(row, i) == h0.get("job_id", h0.get("operation", h0.at(src, i)))),
                   patterns=[h.at(row, i)]))), patterns=[h.at(R, m)])

    def ensures(self, c):
        h0, h, s = c.h0, c.h, c["self"]
        S = h0.get("_schedule", s)
        d = c.res.t
        R = d["job_sequences"].t
        return [("keys", z3.BoolVal(sorted(d) == ["instance", "job_sequences", "metadata"])),
                ("metadata-is-the-field", d["metadata"].t == h0.get("metadata", s)),
                ("instance-is-the-instance's-dictionary", z3.BoolVal(
                    sorted(d["instance"].t) == ["duration_matrix", "machines_matrix", "metadata", "name"])),
                ("one-row-per-machine-with-the-job-ids-in-order", z3.And(
                    R >= h0.alloc, R < h.alloc, h.len(R) == h0.len(S), self._rows(h0, h, S, R, h0.len(S))))]

    @property
    def loops(self):
        def inv(k):
            h0, h, s = k.h0, k.h, k["self"]
            S = h0.get("_schedule", s)
            R = k.v("job_sequences")
            return [("rows-so-far", z3.And(R >= h0.alloc, R < h.alloc, h.len(R) == k.i, k.n == h0.len(S),
                                           self._rows(h0, h, S, R, k.i)))]

        def mod(k):
            A0 = k.h0.alloc
            return Frame(lists=lambda l: l >= A0, alloc_lists=True)
        return {0: LoopSpec("for machine_schedule in self.schedule", inv, mod)}


@register
class LemmaMatricesRoundTripFlexible(Contract):
    """the flexible case: some operation has several machines, the machines matrix then holds the operations' machine
    lists and from_matrices (contract for that argument shape) hands each list to the new operation"""
    name = "lemma_matrices_round_trip_flexible"
    ret = REF("JobShopInstance")
    properties = ("C14",)
    params = {"instance": REF("JobShopInstance")}
    call_variants = {"JobShopInstance.from_matrices": "JobShopInstance.from_matrices$flexible"}

    def requires(self, c):
        h, I = c.h0, c["instance"]
        it = Inst(h, I)
        j, p = bv("jf"), bv("pf")
        return valid_instance(h, I) + [("flexible", z3.Exists([j, p], z3.And(
            rng(j, 0, it.J), rng(p, 0, it.L(j)), it.nmach(it.op(j, p)) > 1)))]

    def modifies(self, c):
        return Frame(fields={"$gj": "ALL", "$gp": "ALL", "$$cumL": "ALL"}, alloc_objects=True, alloc_lists=True)

    def ensures(self, c):
        h0, h, I, R = c.h0, c.h, c["instance"], c.result
        a, b = Inst(h0, I), Inst(h, R)
        j, p, q = bv("j"), bv("p"), bv("q")
        oa, ob = a.op(j, p), b.op(j, p)
        return [("a-new-instance", z3.And(R >= h0.alloc, R < h.alloc)),
                ("same-job-structure", z3.And(b.J == a.J, forall([j], imp(rng(j, 0, a.J), b.L(j) == a.L(j)),
                                                                 patterns=[b.job(j)]))),
                ("same-durations-and-machines", forall([j, p], imp(z3.And(rng(j, 0, a.J), rng(p, 0, a.L(j))), z3.And(
                    b.dur(ob) == a.dur(oa), b.nmach(ob) == a.nmach(oa),
                    forall([q], imp(rng(q, 0, a.nmach(oa)), b.mach(ob, q) == a.mach(oa, q)), patterns=[b.mach(ob, q)]))),
                    patterns=[b.op(j, p)]))]
