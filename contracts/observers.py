"""C10 (and the history part of C02): observer registration, the singleton guard,
create-or-get, HistoryObserver, and the ghost notification trace of the dispatcher."""
from __future__ import annotations

import ast

import z3

from pyvc.engine import Contract, Frame, LoopSpec
from pyvc.values import BOOL, CALLREF, INT, LIST, REF, Ty, forall, fresh

from .core import REGISTRY, ZERO_ARR, obs_frame, register, reach, empty_state, last_dispatched
from .spec import Disp, OBS_FIELDS, bv, imp, rng

OBSERVER = "DispatcherObserver"


# ---------------------------------------------------------------------------
# dynamic class facts read from the class statements of the program
# ---------------------------------------------------------------------------
def tag(h, o):
    return h.get("$type", o)


def subtype(eng, ta, tb):
    return eng.dyn_subtype(None, ta, tb)


def is_singleton(eng, h, o):
    """value of the class attribute `_is_singleton` for the dynamic class of o"""
    t = tag(h, o)
    res = z3.BoolVal(True)
    for c in sorted(eng.prog.classes):
        if not eng.prog.is_subclass(c, OBSERVER):
            continue
        node = eng.prog.find_class_attr(c, "_is_singleton")
        val = bool(node.value) if isinstance(node, ast.Constant) else True
        res = z3.If(t == eng.class_id(c), z3.BoolVal(val), res)
    return res


def some_subscriber_of_type(eng, h, d, type_tag):
    D = Disp(h, d)
    s = bv("s")
    return z3.Exists([s], z3.And(rng(s, 0, h.len(D.subs)), subtype(eng, tag(h, h.at(D.subs, s)), type_tag)))


# ---------------------------------------------------------------------------
# ghost notification trace: what the dispatcher code calls, in order
# ---------------------------------------------------------------------------
def ntr(h, d):
    return h.get("$ntr", d)


def tr_obs(h, d, t):
    return z3.Select(h.get("$$tr_obs", d), t)


def tr_arg(h, d, t):
    return z3.Select(h.get("$$tr_arg", d), t)


def trace_append(st, d, observer, arg):
    h = st.heap
    n = ntr(h, d)
    st.heap = h.put("$$tr_obs", d, z3.Store(h.get("$$tr_obs", d), n, observer)) \
        .put("$$tr_arg", d, z3.Store(h.get("$$tr_arg", d), n, arg)).put("$ntr", d, n + 1)


def notified_all(h0, h1, d, arg):
    """the trace grew by exactly one entry per subscriber, in subscription order, each with
    `arg` (the scheduled operation; 0 for a reset); the earlier entries are unchanged"""
    D = Disp(h0, d)
    n0 = ntr(h0, d)
    cnt = h0.len(D.subs)
    s, t = bv("s"), bv("t")
    return z3.And(
        ntr(h1, d) == n0 + cnt,
        forall([t], imp(rng(t, n0, n0 + cnt), z3.And(tr_obs(h1, d, t) == h0.at(D.subs, t - n0),
                                                     tr_arg(h1, d, t) == arg)),
               patterns=[tr_obs(h1, d, t), tr_arg(h1, d, t)]),
        forall([t], imp(rng(t, 0, n0), z3.And(tr_obs(h1, d, t) == tr_obs(h0, d, t),
                                              tr_arg(h1, d, t) == tr_arg(h0, d, t))),
               patterns=[tr_obs(h1, d, t), tr_arg(h1, d, t)]))


TRACE_FIELDS = ["$ntr", "$$tr_obs", "$$tr_arg"]


def install_trace_contracts():
    """extends the contracts of `_update_tracking_attributes`, `dispatch` and `reset` with
    the notification trace (C10)"""
    upd = REGISTRY["Dispatcher._update_tracking_attributes"]
    dis = REGISTRY["Dispatcher.dispatch"]
    rst = REGISTRY["Dispatcher.reset"]

    def wrap_modifies(con):
        old = con.modifies

        def modifies(c):
            fr = old(c)
            for f in TRACE_FIELDS:
                fr.fields[f] = [c["self"]]
            return fr
        con.modifies = modifies

    for con in (upd, dis, rst):
        wrap_modifies(con)
        if con is dis:
            continue
        rel = dict(getattr(con, "relevant", None) or {})
        for nm in ("notified-prefix-in-subscription-order", "every-subscriber-notified-once-in-order",
                   "every-subscriber-reset-once-in-order"):
            rel[nm] = ["R1-shape"]
        con.relevant = rel

    # --- _update_tracking_attributes
    old_loops_upd = type(upd).loops.fget(upd)
    spec0 = old_loops_upd[0]

    def inv_upd(k):
        d, x = k["self"], k["scheduled_operation"]
        D = Disp(k.hl, d)
        n0 = ntr(k.hl, d)
        s, t = bv("s"), bv("t")
        return spec0.invariant(k) + [
            ("notified-prefix-in-subscription-order", z3.And(
                ntr(k.h, d) == n0 + k.i,
                forall([t], imp(rng(t, n0, n0 + k.i), z3.And(tr_obs(k.h, d, t) == k.hl.at(D.subs, t - n0),
                                                             tr_arg(k.h, d, t) == x)),
                       patterns=[tr_obs(k.h, d, t), tr_arg(k.h, d, t)]),
                forall([t], imp(rng(t, 0, n0), z3.And(tr_obs(k.h, d, t) == tr_obs(k.hl, d, t),
                                                      tr_arg(k.h, d, t) == tr_arg(k.hl, d, t))),
                       patterns=[tr_obs(k.h, d, t), tr_arg(k.h, d, t)])))]

    def mod_upd(k):
        fr = spec0.modifies(k)
        for f in TRACE_FIELDS:
            fr.fields[f] = [k["self"]]
        return fr
    type(upd).loops = property(lambda self: {0: LoopSpec(spec0.header, inv_upd, mod_upd)})
    type(upd).ghost_after = property(lambda self: {
        "subscriber.update(scheduled_operation)":
            lambda c, st: trace_append(st, c["self"], st.env["subscriber"].t, c["scheduled_operation"])})
    old_ens_upd = upd.ensures
    upd.ensures = lambda c: old_ens_upd(c) + [
        ("every-subscriber-notified-once-in-order", notified_all(c.h0, c.h, c["self"], c["scheduled_operation"]))]

    # --- dispatch
    old_ens_dis = dis.ensures

    def ens_dis(c):
        from .core import _eff_machine
        h0, h, d = c.h0, c.h, c["self"]
        D0, D1 = Disp(h0, d), Disp(h, d)
        m = _eff_machine(c)
        x = D1.x(m, D0.nS(m))
        return old_ens_dis(c) + [("every-subscriber-notified-once-in-order", notified_all(h0, h, d, x))]
    dis.ensures = ens_dis

    # --- reset
    old_loops_rst = type(rst).loops.fget(rst)
    r0 = old_loops_rst[0]

    def inv_rst(k):
        d = k["self"]
        D = Disp(k.hl, d)
        n0 = ntr(k.hl, d)
        s, t = bv("s"), bv("t")
        return r0.invariant(k) + [
            ("notified-prefix-in-subscription-order", z3.And(
                ntr(k.h, d) == n0 + k.i,
                forall([t], imp(rng(t, n0, n0 + k.i), z3.And(tr_obs(k.h, d, t) == k.hl.at(D.subs, t - n0),
                                                             tr_arg(k.h, d, t) == 0)),
                       patterns=[tr_obs(k.h, d, t), tr_arg(k.h, d, t)]),
                forall([t], imp(rng(t, 0, n0), z3.And(tr_obs(k.h, d, t) == tr_obs(k.hl, d, t),
                                                      tr_arg(k.h, d, t) == tr_arg(k.hl, d, t))),
                       patterns=[tr_obs(k.h, d, t), tr_arg(k.h, d, t)])))]

    def mod_rst(k):
        fr = r0.modifies(k)
        for f in TRACE_FIELDS:
            fr.fields[f] = [k["self"]]
        return fr
    type(rst).loops = property(lambda self: {0: LoopSpec(r0.header, inv_rst, mod_rst)})
    old_anchor = type(rst).ghost_after.fget(rst)
    anchors = dict(old_anchor)
    anchors["subscriber.reset()"] = lambda c, st: trace_append(st, c["self"], st.env["subscriber"].t, z3.IntVal(0))
    type(rst).ghost_after = property(lambda self: anchors)
    old_ens_rst = rst.ensures
    rst.ensures = lambda c: old_ens_rst(c) + [
        ("every-subscriber-reset-once-in-order", notified_all(c.h0, c.h, c["self"], z3.IntVal(0)))]


install_trace_contracts()


# ---------------------------------------------------------------------------
# DispatcherObserver.__init__  (singleton guard + self-subscription)
# ---------------------------------------------------------------------------
@register
class ObserverInit(Contract):
    name = "DispatcherObserver.__init__"
    properties = ("C10",)

    def requires(self, c):
        return [("self", z3.And(c["self"] > 0, c["dispatcher"] > 0))] + reach(c.h0, c["dispatcher"])

    def raises(self, c):
        h, s, d = c.h0, c["self"], c["dispatcher"]
        return [("ValidationError", "singleton-type-already-subscribed",
                 z3.And(is_singleton(c.eng, h, s), some_subscriber_of_type(c.eng, h, d, tag(h, s))))]

    def modifies(self, c):
        return Frame(fields={"dispatcher": [c["self"]]}, lists=[c.h0.get("subscribers", c["dispatcher"])])

    def ensures(self, c):
        h0, h, s, d = c.h0, c.h, c["self"], c["dispatcher"]
        subs = h0.get("subscribers", d)
        n = h0.len(subs)
        sub = c.val("subscribe").t
        appended = z3.And(h.len(subs) == n + 1, z3.Select(h.El, subs) == z3.Store(z3.Select(h0.El, subs), n, s))
        same = z3.And(h.len(subs) == n, z3.Select(h.El, subs) == z3.Select(h0.El, subs))
        return [("dispatcher-stored", h.get("dispatcher", s) == d),
                ("subscribed-last-iff-requested", z3.If(sub, appended, same))] + reach(h, d)


@register
class ConditionParam(Contract):
    """abstract contract of the `condition` callable of create_or_get_observer: a pure
    predicate on the observer"""
    name = "param:condition"
    abstract = True
    pure = True
    ret = BOOL
    params = {"observer": REF(OBSERVER)}

    def ensures(self, c):
        F = z3.Function("condition_holds", z3.IntSort(), z3.IntSort(), z3.BoolSort())
        return [("pure-predicate", c.result == F(c.extra.get("callee", z3.IntVal(0)), c["observer"]))]


@register
class ClassValCall(Contract):
    """abstract contract of calling an observer class held in a variable:
    `observer(self, **kwargs)` in create_or_get_observer (DispatcherObserver.__init__'s
    contract lifted to an unknown subclass; the subclass may or may not subscribe)"""
    name = "classval:__call__"
    abstract = True
    ret = REF(OBSERVER)
    params = {"cls": Ty("classval"), "dispatcher": REF("Dispatcher")}

    def requires(self, c):
        return reach(c.h0, c["dispatcher"])

    def raises(self, c):
        h, d = c.h0, c["dispatcher"]
        S = z3.Function("singleton_class", z3.IntSort(), z3.BoolSort())
        return [("ValidationError", "singleton-type-already-subscribed",
                 z3.And(S(c["cls"]), some_subscriber_of_type(c.eng, h, d, c["cls"])))]

    def modifies(self, c):
        fields = {f: "ALL" for f in OBS_FIELDS}
        return Frame(fields=fields, lists=[c.h0.get("subscribers", c["dispatcher"])], olists="ALL",
                     alloc_objects=["dispatcher", "$type"] + OBS_FIELDS)

    def ensures(self, c):
        h0, h, d, r = c.h0, c.h, c["dispatcher"], c.result
        subs = h0.get("subscribers", d)
        n = h0.len(subs)
        appended = z3.And(h.len(subs) == n + 1, z3.Select(h.El, subs) == z3.Store(z3.Select(h0.El, subs), n, r))
        same = z3.And(h.len(subs) == n, z3.Select(h.El, subs) == z3.Select(h0.El, subs))
        return [("fresh-observer-of-the-class", z3.And(r >= h0.alloc, r < h.alloc, tag(h, r) == c["cls"],
                                                       h.get("dispatcher", r) == d)),
                ("subscribed-last-or-not", z3.Or(appended, same))] + reach(h, d)


@register
class CreateOrGet(Contract):
    name = "Dispatcher.create_or_get_observer"
    ret = REF(OBSERVER)
    properties = ("C10",)

    def requires(self, c):
        return [("condition-given", c["condition"] != 0)] + reach(c.h0, c["self"])

    def _match(self, c, o):
        h = c.h0
        F = z3.Function("condition_holds", z3.IntSort(), z3.IntSort(), z3.BoolSort())
        return z3.And(subtype(c.eng, tag(h, o), c["observer"]), F(c["condition"], o))

    def _first(self, c, w):
        h, d = c.h0, c["self"]
        D = Disp(h, d)
        s = bv("s")
        return z3.And(rng(w, 0, h.len(D.subs)), self._match(c, h.at(D.subs, w)),
                      forall([s], imp(rng(s, 0, w), z3.Not(self._match(c, h.at(D.subs, s))))))

    def _exists(self, c):
        w = bv("w")
        return z3.Exists([w], self._first(c, w))

    def raises(self, c):
        h, d = c.h0, c["self"]
        S = z3.Function("singleton_class", z3.IntSort(), z3.BoolSort())
        return [("ValidationError", "singleton-type-already-subscribed-but-condition-rejects-it",
                 z3.And(z3.Not(self._exists(c)), S(c["observer"]),
                        some_subscriber_of_type(c.eng, h, d, c["observer"])))]

    def modifies(self, c):
        fields = {f: "ALL" for f in OBS_FIELDS}
        return Frame(fields=fields, lists=[c.h0.get("subscribers", c["self"])], olists="ALL",
                     alloc_objects=["dispatcher", "$type"] + OBS_FIELDS)

    def ensures(self, c):
        h0, h, d, r = c.h0, c.h, c["self"], c.result
        D = Disp(h0, d)
        w = bv("w")
        found = self._exists(c)
        return [
            ("returns-first-matching-subscriber", imp(found, z3.Exists([w], z3.And(self._first(c, w),
                                                                                   r == h0.at(D.subs, w))))),
            ("nothing-created-when-found", imp(found, z3.And(h.len(D.subs) == h0.len(D.subs),
                                                             z3.Select(h.El, D.subs) == z3.Select(h0.El, D.subs)))),
            ("creates-an-observer-of-the-class-otherwise", imp(z3.Not(found), z3.And(
                r >= h0.alloc, tag(h, r) == c["observer"], h.get("dispatcher", r) == d))),
        ] + reach(h, d)

    @property
    def loops(self):
        def inv(k):
            h, d = k.h0, k["self"]
            D = Disp(h, d)
            s = bv("s")
            c = k
            return [("no-match-so-far", forall([s], imp(rng(s, 0, k.i), z3.Not(self._match(c, h.at(D.subs, s))))))]
        return {0: LoopSpec("for existing_observer in self.subscribers", inv)}


# ---------------------------------------------------------------------------
# HistoryObserver
# ---------------------------------------------------------------------------
def hist_list(h, o):
    return (h.get("history", o), "o")


@register
class HistoryInit(Contract):
    name = "HistoryObserver.__init__"
    properties = ("C02", "C10")

    def requires(self, c):
        return ObserverInit().requires(c)

    def raises(self, c):
        return ObserverInit().raises(c)

    def modifies(self, c):
        s = c["self"]
        return Frame(fields={"dispatcher": [s], "history": [s]}, lists=[c.h0.get("subscribers", c["dispatcher"])],
                     alloc_olists=True)

    def ensures(self, c):
        h = c.h
        return ObserverInit().ensures(c) + [("empty-history", z3.And(h.get("history", c["self"]) >= c.h0.alloc,
                                                                   h.len(hist_list(h, c["self"])) == 0))]


@register
class HistoryUpdate(Contract):
    """HistoryObserver.update against the abstract observer contract (behavioural
    subtyping) plus its own post-condition: the dispatched operation is appended"""
    name = "HistoryObserver.update"
    properties = ("C02", "C10")

    def requires(self, c):
        return REGISTRY["DispatcherObserver.update"].requires(c) + \
            [("history-list", c.h0.get("history", c["self"]) > 0)]

    def modifies(self, c):
        return Frame(olists=[c.h0.get("history", c["self"])])

    def ensures(self, c):
        h0, h, s = c.h0, c.h, c["self"]
        l0 = hist_list(h0, s)
        n = h0.len(l0)
        return [("operation-appended", z3.And(h.len(l0) == n + 1,
                                              h.elarr(l0) == z3.Store(h0.elarr(l0), n, c["scheduled_operation"])))]


@register
class HistoryReset(Contract):
    name = "HistoryObserver.reset"
    properties = ("C10", "C12")

    def requires(self, c):
        return [("self", c["self"] > 0)]

    def modifies(self, c):
        return Frame(fields={"history": [c["self"]]}, alloc_olists=True)

    def ensures(self, c):
        h = c.h
        return [("fresh-empty-history", z3.And(h.get("history", c["self"]) >= c.h0.alloc,
                                               h.len(hist_list(h, c["self"])) == 0))]
