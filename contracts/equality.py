"""C15: equality means same content.  Contracts `__eq__ <=> Content(a) = Content(b)` on
the real methods, plus reflexivity / symmetry / transitivity / hash lemmas over them."""
from __future__ import annotations

import z3

from pyvc.engine import Contract
from pyvc.values import BOOL, INT, LIST, REF, Heap, forall, fresh

from .core import REGISTRY, register
from .spec import bv, imp, rng


def int_list_eq(h, la, lb, depth="m"):
    # the bound name differs from the ones of enclosing list comparisons (?eq0, ?eq1)
    q = z3.Int(f"?eq{depth}")
    return z3.And(h.len(la) == h.len(lb), forall([q], imp(rng(q, 0, h.len(la)), h.at(la, q) == h.at(lb, q))))


def op_content_eq(h, a, b):
    """Content(a) = Content(b) for operations: machines, duration, job, position, id"""
    f = lambda n, x: h.get(n, x)
    return z3.And(int_list_eq(h, f("machines", a), f("machines", b)),
                  f("duration", a) == f("duration", b), f("job_id", a) == f("job_id", b),
                  f("position_in_job", a) == f("position_in_job", b),
                  f("operation_id", a) == f("operation_id", b))


def so_content_eq(h, a, b):
    f = lambda n, x: h.get(n, x)
    return z3.And(op_content_eq(h, f("operation", a), f("operation", b)),
                  f("start_time", a) == f("start_time", b), f("_machine_id", a) == f("_machine_id", b))


def list_eq(h, la, lb, elem_eq, depth):
    q = z3.Int(f"?eq{depth}")
    return z3.And(h.len(la) == h.len(lb),
                  forall([q], imp(rng(q, 0, h.len(la)), elem_eq(h.at(la, q), h.at(lb, q)))))


def schedule_content_eq(h, a, b):
    inner = lambda x, y: list_eq(h, x, y, lambda u, v: so_content_eq(h, u, v), 1)
    return list_eq(h, h.get("_schedule", a), h.get("_schedule", b), inner, 0)


def instance_content_eq(h, a, b):
    inner = lambda x, y: list_eq(h, x, y, lambda u, v: op_content_eq(h, u, v), 1)
    return list_eq(h, h.get("jobs", a), h.get("jobs", b), inner, 0)


class _Eq(Contract):
    ret = BOOL
    pure = True
    properties = ("C15",)
    cls = ""
    other = "value"

    def content_eq(self, h, a, b):
        raise NotImplementedError

    def spec_eq(self, h, a, b):
        return z3.And(b != 0, self.content_eq(h, a, b))

    def requires(self, c):
        return [("self", c["self"] > 0)] + self.wf(c.h0, c["self"]) + \
               [(n, imp(c[self.other] != 0, p)) for n, p in self.wf(c.h0, c[self.other])]

    def wf(self, h, x):
        return []

    def ensures(self, c):
        return [("equal-iff-same-content", c.result == self.spec_eq(c.h0, c["self"], c[self.other]))]


def _op_wf(h, o, tag=""):
    return [("operation-wf" + tag, z3.And(o > 0, h.get("machines", o) > 0))]


@register
class OperationEq(_Eq):
    name = "Operation.__eq__"
    params = {"value": REF("Operation")}

    def content_eq(self, h, a, b):
        return op_content_eq(h, a, b)

    def wf(self, h, x):
        return _op_wf(h, x)


@register
class OperationHash(Contract):
    name = "Operation.__hash__"
    ret = INT
    pure = True
    properties = ("C15",)

    def requires(self, c):
        return [("self", c["self"] > 0)]

    def ensures(self, c):
        H = z3.Function("pyhash_int", z3.IntSort(), z3.IntSort())
        return [("hash-of-operation-id", c.result == H(c.h0.get("operation_id", c["self"])))]


@register
class ScheduledOperationEq(_Eq):
    name = "ScheduledOperation.__eq__"
    params = {"value": REF("ScheduledOperation")}

    def content_eq(self, h, a, b):
        return so_content_eq(h, a, b)

    def wf(self, h, x):
        return [("scheduled-operation-wf", z3.And(x > 0, h.get("operation", x) > 0,
                                                  h.get("machines", h.get("operation", x)) > 0))]


def _lists_wf(h, outer, elem_wf):
    m, i = bv("m"), bv("i")
    inner = h.at(outer, m)
    return [("outer", outer > 0),
            ("inner", forall([m], imp(rng(m, 0, h.len(outer)), inner > 0))),
            ("elements", forall([m, i], imp(z3.And(rng(m, 0, h.len(outer)), rng(i, 0, h.len(inner))),
                                            elem_wf(h.at(inner, i)))))]


@register
class ScheduleEq(_Eq):
    name = "Schedule.__eq__"
    params = {"value": REF("Schedule")}

    def content_eq(self, h, a, b):
        return schedule_content_eq(h, a, b)

    def wf(self, h, x):
        so_ok = lambda s: z3.And(s > 0, h.get("operation", s) > 0, h.get("machines", h.get("operation", s)) > 0)
        return [("schedule", x > 0)] + _lists_wf(h, h.get("_schedule", x), so_ok)


@register
class InstanceEq(_Eq):
    name = "JobShopInstance.__eq__"
    params = {"other": REF("JobShopInstance")}
    other = "other"

    def content_eq(self, h, a, b):
        return instance_content_eq(h, a, b)

    def wf(self, h, x):
        op_ok = lambda o: z3.And(o > 0, h.get("machines", o) > 0)
        return [("instance", x > 0)] + _lists_wf(h, h.get("jobs", x), op_ok)


# ---------------------------------------------------------------------------
# lemmas over the contracts: equivalence relation, hash consistency
# ---------------------------------------------------------------------------
def equivalence_lemmas():
    from .lemmas import lemma

    def make(name, eq):
        @lemma(f"equality-is-an-equivalence:{name}", ("C15",))
        def _l():
            h = Heap(tag="E")
            a, b, c = fresh("a"), fresh("b"), fresh("c")
            nz = [a > 0, b > 0, c > 0]
            return [("reflexive", nz, eq(h, a, a)),
                    ("symmetric", nz + [eq(h, a, b)], eq(h, b, a)),
                    ("transitive", nz + [eq(h, a, b), eq(h, b, c)], eq(h, a, c))]
        return _l
    make("Operation", op_content_eq)
    make("ScheduledOperation", so_content_eq)
    make("Schedule", schedule_content_eq)
    make("JobShopInstance", instance_content_eq)

    @lemma("equal-operations-hash-equally", ("C15",))
    def _h():
        h = Heap(tag="E")
        a, b = fresh("a"), fresh("b")
        H = z3.Function("pyhash_int", z3.IntSort(), z3.IntSort())
        return [("same-hash", [a > 0, b > 0, op_content_eq(h, a, b)],
                 H(h.get("operation_id", a)) == H(h.get("operation_id", b)))]


equivalence_lemmas()
