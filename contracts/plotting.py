"""C20 (deductive part): the Gantt chart against the schedule.

matplotlib is used through [TRUSTED] contracts (registered below with pyvc.library): an Axes object carries a
ghost list of bars -- (x, width, y, height, colour) in drawing order --, its x-limits, its x-ticks and its legend;
`broken_barh([(x, w)], (y, h), facecolors=c)` appends exactly one bar, `set_xlim`, `set_xticks`, `legend` record
their arguments, and the other calls the code makes (labels, grid, y-axis, title) do not touch that state.
Colours: `cmap(norm(j))` is an uninterpreted function of the colormap object, the normaliser and j -- "coloured by
job consistently with the legend" then reads: the bar of an operation of job j and the legend patch of job j carry
the SAME colour term.
"""
from __future__ import annotations

import ast

import z3

from pyvc.engine import Contract, Frame, LoopSpec, OutsideSubset
from pyvc.library import ext_function, ext_method
from pyvc.values import ANY, BOOL, DICT, EXT, INT, LIST, OPT, REF, STR, TUPLE, VNONE, Val, forall, fresh, to_int, vint

from .core import register, sched_wf, so_end
from .spec import FIELD_TYPES, bv, imp, rng

I = z3.IntSort()
NormVal = z3.Function("NormVal", I, I, I)       # (normaliser object, value) -> normalised value (opaque)
ColorOf = z3.Function("ColorOf", I, I, I)       # (colormap object, normalised value) -> colour (opaque)

BAR_FIELDS = ["$nbars", "$$bar_x", "$$bar_w", "$$bar_y", "$$bar_h", "$$bar_c"]
AX_FIELDS = BAR_FIELDS + ["$xlim_lo", "$xlim_hi", "$xticks", "$legend", "$cmap", "$norm", "$$lpos"]
BASE_Y, INC_Y = 1, 10


class Ax:
    def __init__(self, h, ax):
        self.h, self.ax = h, ax
        self.n = h.get("$nbars", ax)

    def bar(self, k):
        h, ax = self.h, self.ax
        return tuple(z3.Select(h.get(f, ax), k) for f in BAR_FIELDS[1:])


def _noop(eng, e, st, obj):
    out = []
    for s, pos, kw in eng.eval_args(e, st):
        out.append((s, VNONE if s.status == "run" else None))
    return out


for _m in ("set_xlabel", "set_ylabel", "grid", "set_ylim", "set_yticks", "set_yticklabels"):
    ext_method("Axes", _m, f"Axes.{_m} does not add bars and does not change the x-limits, x-ticks or legend")(_noop)
ext_method("YAxis", "grid", "YAxis.grid does not touch the tracked state")(_noop)


@ext_method("Axes", ".yaxis", "Axes.yaxis is the y-axis object")
def _ax_yaxis(eng, node, st, obj):
    return [(st, Val(EXT("YAxis"), fresh("yaxis")))]


@ext_function("plt.title", "pyplot.title does not touch the tracked state of the axes")
def _plt_title(eng, e, st):
    return [(s, VNONE if s.status == "run" else None) for s, pos, kw in eng.eval_args(e, st)]


@ext_function("plt.subplots", "pyplot.subplots() returns a new figure and a new, empty Axes (no bars)")
def _plt_subplots(eng, e, st):
    if e.args or e.keywords:
        raise OutsideSubset("plt.subplots with arguments")
    fig = eng.alloc_ref(st)
    ax = eng.alloc_ref(st)
    st.heap = st.heap.put("$nbars", ax, z3.IntVal(0))
    return [(st, Val(TUPLE(EXT("Figure"), EXT("Axes")), [Val(EXT("Figure"), fig), Val(EXT("Axes"), ax)]))]


@ext_function("plt.get_cmap", "pyplot.get_cmap returns a colormap object; calling it is a function of (object, argument)")
def _plt_get_cmap(eng, e, st):
    out = []
    for s, pos, kw in eng.eval_args(e, st):
        out.append((s, Val(EXT("Colormap"), eng.alloc_ref(s)) if s.status == "run" else None))
    return out


@ext_function("Normalize", "matplotlib.colors.Normalize(...) returns a normaliser; calling it is a function of (object, "
                           "argument)")
def _normalize(eng, e, st):
    out = []
    for s, pos, kw in eng.eval_args(e, st):
        out.append((s, Val(EXT("Normalize"), eng.alloc_ref(s)) if s.status == "run" else None))
    return out


def _call1(fn, res_ty=INT):
    def model(eng, e, st, obj):
        out = []
        for s, pos, kw in eng.eval_args(e, st):
            if s.status != "run":
                out.append((s, None))
                continue
            out.append((s, Val(res_ty, fn(obj.t, to_int(pos[0])))))
        return out
    return model


ext_method("Normalize", "__call__", "norm(x) is a function of the normaliser object and x")(_call1(NormVal))
ext_method("Colormap", "__call__", "cmap(v) is a function of the colormap object and v")(_call1(ColorOf))


@ext_function("Patch", "matplotlib.patches.Patch(facecolor=c, label=l) is a new patch with that face colour and label")
def _patch(eng, e, st):
    out = []
    for s, pos, kw in eng.eval_args(e, st):
        if s.status != "run":
            out.append((s, None))
            continue
        if pos or "facecolor" not in kw:
            raise OutsideSubset("Patch(...) without facecolor= keyword")
        r = eng.alloc_ref(s)
        s.heap = s.heap.put("$facecolor", r, to_int(kw["facecolor"]))
        out.append((s, Val(EXT("Patch"), r)))
    return out


@ext_method("Axes", "broken_barh", "Axes.broken_barh([(x, w)], (y, h), facecolors=c) draws exactly one bar spanning x .. x+w "
                                   "in the row y .. y+h with colour c and nothing else")
def _broken_barh(eng, e, st, obj):
    if len(e.args) != 2 or not isinstance(e.args[0], ast.List) or len(e.args[0].elts) != 1 \
            or not isinstance(e.args[0].elts[0], ast.Tuple) or len(e.args[0].elts[0].elts) != 2 \
            or not isinstance(e.args[1], ast.Tuple) or len(e.args[1].elts) != 2 \
            or [k.arg for k in e.keywords] != ["facecolors"]:
        raise OutsideSubset("broken_barh call shape not covered by the trusted contract (one (x, w) pair, a (y, h) pair, "
                            "facecolors=)")
    exprs = list(e.args[0].elts[0].elts) + list(e.args[1].elts) + [e.keywords[0].value]
    out = []
    for s, vs in eng.ev_many(exprs, st):
        if s.status != "run":
            out.append((s, None))
            continue
        h, ax = s.heap, obj.t
        n = h.get("$nbars", ax)
        for f, v in zip(BAR_FIELDS[1:], vs):
            h = h.put(f, ax, z3.Store(h.get(f, ax), n, to_int(v)))
        s.heap = h.put("$nbars", ax, n + 1)
        out.append((s, VNONE))
    return out


@ext_method("Axes", "set_xlim", "Axes.set_xlim(lo, hi) sets the x-axis limits")
def _set_xlim(eng, e, st, obj):
    out = []
    for s, pos, kw in eng.eval_args(e, st):
        if s.status == "run":
            s.heap = s.heap.put("$xlim_lo", obj.t, to_int(pos[0])).put("$xlim_hi", obj.t, to_int(pos[1]))
        out.append((s, VNONE if s.status == "run" else None))
    return out


@ext_method("Axes", "set_xticks", "Axes.set_xticks(ticks) sets the x-axis tick positions to the given list")
def _set_xticks(eng, e, st, obj):
    out = []
    for s, pos, kw in eng.eval_args(e, st):
        if s.status == "run":
            s.heap = s.heap.put("$xticks", obj.t, to_int(pos[0]))
        out.append((s, VNONE if s.status == "run" else None))
    return out


@ext_method("Axes", "legend", "Axes.legend(handles=hs, ...) shows exactly the given handles, in order")
def _legend(eng, e, st, obj):
    out = []
    for s, pos, kw in eng.eval_args(e, st):
        if s.status == "run":
            if "handles" not in kw:
                raise OutsideSubset("legend() without handles=")
            s.heap = s.heap.put("$legend", obj.t, to_int(kw["handles"]))
        out.append((s, VNONE if s.status == "run" else None))
    return out


# ---------------------------------------------------------------------------
# contracts of the plotting functions
# ---------------------------------------------------------------------------
def _sched_pre(h, s):
    S = h.get("_schedule", s)
    m = bv("m")
    cum = lambda t: z3.Select(h.get("$$cumS", s), t)  # noqa: E731
    return [("schedule", z3.And(s > 0, s < h.alloc, S > 0, S < h.alloc)),
            ("count-ghost", z3.And(cum(0) == 0, forall([m], imp(rng(m, 0, h.len(S)), cum(m + 1) == cum(m) + h.len(h.at(S, m)))))),
            ("count-ghost-monotone", forall([m, bv("m2")], imp(z3.And(0 <= m, m <= bv("m2"), bv("m2") <= h.len(S)),
                                                               cum(m) <= cum(bv("m2"))))),
            ("sched-refs", z3.And(
                forall([m], imp(rng(m, 0, h.len(S)), h.at(S, m) < h.alloc), patterns=[h.at(S, m)]),
                forall([m, bv("i")], imp(z3.And(rng(m, 0, h.len(S)), rng(bv("i"), 0, h.len(h.at(S, m)))),
                                         z3.And(h.at(h.at(S, m), bv("i")) < h.alloc,
                                                h.get("operation", h.at(h.at(S, m), bv("i"))) < h.alloc)),
                       patterns=[h.at(h.at(S, m), bv("i"))])))] + sched_wf(h, S)


_SCHED_PRE_NAMES = ["schedule", "sched-refs", "count-ghost", "count-ghost-monotone", "sched-outer", "sched-lists", "sched-lists-distinct",
                    "sched-elements"]


def color_of(h, ax, job):
    return ColorOf(h.get("$cmap", ax), NormVal(h.get("$norm", ax), job))


def bars_of_rows(h0, h, s, ax, n0, upto, partial=None):
    """the bars n0 .. are the scheduled operations of machine rows < upto, row by row (plus the first `partial`
    operations of row `upto`): bar n0 + cumS(m) + i is operation i of machine m"""
    S = h0.get("_schedule", s)
    m, i = bv("m"), bv("i")
    x = h0.at(h0.at(S, m), i)
    cum = lambda t: z3.Select(h0.get("$$cumS", s), t)  # noqa: E731
    A = Ax(h, ax)
    dom = z3.And(rng(m, 0, upto), rng(i, 0, h0.len(h0.at(S, m))))
    if partial is not None:
        dom = z3.Or(dom, z3.And(m == upto, rng(i, 0, partial)))
    bx, bw, by, bh, bc = A.bar(n0 + cum(m) + i)
    o = h0.get("operation", x)
    return forall([m, i], imp(dom, z3.And(
        bx == h0.get("start_time", x), bw == h0.get("duration", o), by == BASE_Y + INC_Y * m, bh == 9,
        bc == color_of(h, ax, h0.get("job_id", o)))), patterns=[h0.at(h0.at(S, m), i)])


def bars_before_unchanged(h0, h, ax):
    k = bv("k")
    return z3.And([forall([k], imp(rng(k, 0, h0.get("$nbars", ax)),
                                   z3.Select(h.get(f, ax), k) == z3.Select(h0.get(f, ax), k)),
                          patterns=[z3.Select(h.get(f, ax), k)]) for f in BAR_FIELDS[1:]])


def ax_frame(ax, fields=AX_FIELDS):
    return {f: [ax] for f in fields}


@register
class PlotScheduledOperation(Contract):
    name = "_plot_scheduled_operation"
    properties = ("C20",)
    params = {"ax": EXT("Axes"), "scheduled_op": REF("ScheduledOperation"), "y_position_for_machines": INT, "color": INT}

    def requires(self, c):
        x = c["scheduled_op"]
        return [("wf", z3.And(c["ax"] > 0, x > 0, c.h0.get("operation", x) > 0))]

    def modifies(self, c):
        return Frame(fields=ax_frame(c["ax"], BAR_FIELDS))

    def ensures(self, c):
        h0, h, ax, x = c.h0, c.h, c["ax"], c["scheduled_op"]
        n0 = h0.get("$nbars", ax)
        bx, bw, by, bh, bc = Ax(h, ax).bar(n0)
        return [("exactly-one-more-bar", h.get("$nbars", ax) == n0 + 1),
                ("bar-spans-start-to-end-in-the-given-row", z3.And(
                    bx == h0.get("start_time", x), bx + bw == so_end(h0, x), by == c["y_position_for_machines"],
                    bh == 9, bc == c["color"])),
                ("earlier-bars-untouched", bars_before_unchanged(h0, h, ax))]


@register
class GetJobLabel(Contract):
    name = "_get_job_label"
    properties = ("C20",)
    params = {"job_labels": LIST(ANY), "job_id": INT}
    ret = ANY
    pure = True

    def raises(self, c):
        h, l, j = c.h0, c["job_labels"], c["job_id"]
        return [("IndexError", "label-list-too-short", z3.And(l != 0, z3.Not(z3.And(j >= -h.len(l), j < h.len(l)))))]


def legend_consistent(h0, h, s, ax, has, val, upto, partial=None):
    """every plotted operation's job has a legend entry; every entry's patch has the colour of that job's bars"""
    S = h0.get("_schedule", s)
    m, i, j = bv("m"), bv("i"), bv("lj")
    x = h0.at(h0.at(S, m), i)
    dom = z3.And(rng(m, 0, upto), rng(i, 0, h0.len(h0.at(S, m))))
    if partial is not None:
        dom = z3.Or(dom, z3.And(m == upto, rng(i, 0, partial)))
    job = h0.get("job_id", h0.get("operation", x))
    return z3.And(
        forall([m, i], imp(dom, z3.Select(has, job)), patterns=[h0.at(h0.at(S, m), i)]),
        forall([j], imp(z3.Select(has, j), h.get("$facecolor", z3.Select(val, j)) == color_of(h, ax, j)),
               patterns=[z3.Select(val, j), z3.Select(has, j)]))


@register
class PlotMachineSchedules(Contract):
    name = "_plot_machine_schedules"
    properties = ("C20",)
    params = {"schedule": REF("Schedule"), "ax": EXT("Axes"), "cmap_name": ANY, "job_labels": LIST(ANY)}
    ret = DICT(INT, EXT("Patch"))

    def requires(self, c):
        h, s = c.h0, c["schedule"]
        inst = h.get("instance", s)
        l = c["job_labels"]
        S = h.get("_schedule", s)
        m, i = bv("m"), bv("i")
        job = h.get("job_id", h.get("operation", h.at(h.at(S, m), i)))
        return _sched_pre(h, s) + [
            ("axes", z3.And(c["ax"] > 0, c["ax"] < h.alloc)),
            ("instance", z3.And(inst > 0, h.get("jobs", inst) > 0)),
            ("labels-cover-the-jobs", imp(l != 0, forall([m, i], imp(
                z3.And(rng(m, 0, h.len(S)), rng(i, 0, h.len(h.at(S, m)))), z3.And(job >= -h.len(l), job < h.len(l))),
                patterns=[h.at(h.at(S, m), i)])))]

    def modifies(self, c):
        return Frame(fields=ax_frame(c["ax"], BAR_FIELDS + ["$cmap", "$norm"]), alloc_objects=["$facecolor", "$nbars"])

    @property
    def ghost_after(self):
        def cm(c, st):
            st.heap = st.heap.put("$cmap", c["ax"], st.env["cmap"].t)

        def nm(c, st):
            st.heap = st.heap.put("$norm", c["ax"], st.env["norm"].t)
        return {"cmap = plt.get_cmap(cmap_name, max_job_id + 1)": cm, "norm = Normalize(vmin=0, vmax=max_job_id)": nm}

    def ensures(self, c):
        h0, h, s, ax = c.h0, c.h, c["schedule"], c["ax"]
        S = h0.get("_schedule", s)
        n0 = h0.get("$nbars", ax)
        total = z3.Select(h0.get("$$cumS", s), h0.len(S))
        has, val = c.result
        return [("exactly-one-bar-per-scheduled-operation", h.get("$nbars", ax) == n0 + total),
                ("each-bar-spans-start-to-end-in-its-machine-row-coloured-by-job", bars_of_rows(h0, h, s, ax, n0, h0.len(S))),
                ("legend-consistent-with-bar-colours", legend_consistent(h0, h, s, ax, has, val, h0.len(S))),
                ("earlier-bars-untouched", bars_before_unchanged(h0, h, ax))]

    @property
    def loops(self):
        def common(k):
            h0, h, s, ax = k.h0, k.h, k["schedule"], k["ax"]
            return [("colour-objects", z3.And(h.get("$cmap", ax) == k.v("cmap"), h.get("$norm", ax) == k.v("norm"),
                                              k.v("cmap") >= h0.alloc, k.v("norm") >= h0.alloc)),
                    ("earlier-bars-untouched", bars_before_unchanged(h0, h, ax))]

        def outer(k):
            h0, h, s, ax = k.h0, k.h, k["schedule"], k["ax"]
            n0 = h0.get("$nbars", ax)
            cum = lambda t: z3.Select(h0.get("$$cumS", s), t)  # noqa: E731
            has, val = k.env["legend_handles"].t if k.env["legend_handles"].ty.kind == "dict" else \
                k.eng.as_dict(k.env["legend_handles"]).t
            return common(k) + [
                ("bars-so-far", z3.And(h.get("$nbars", ax) == n0 + cum(k.i), bars_of_rows(h0, h, s, ax, n0, k.i))),
                ("legend-so-far", legend_consistent(h0, h, s, ax, has, val, k.i))]

        def inner(k):
            h0, h, s, ax = k.h0, k.h, k["schedule"], k["ax"]
            m0 = k.outer[-1]
            n0 = h0.get("$nbars", ax)
            cum = lambda t: z3.Select(h0.get("$$cumS", s), t)  # noqa: E731
            has, val = k.eng.as_dict(k.env["legend_handles"]).t
            S = h0.get("_schedule", s)
            return common(k) + [
                ("row", z3.And(k.v("machine_schedule") == h0.at(S, m0), k.v("machine_index") == m0, rng(m0, 0, h0.len(S)),
                               k.v("y_position_for_machines") == BASE_Y + INC_Y * m0)),
                ("bars-so-far", z3.And(h.get("$nbars", ax) == n0 + cum(m0) + k.i,
                                       bars_of_rows(h0, h, s, ax, n0, m0, k.i))),
                ("legend-so-far", legend_consistent(h0, h, s, ax, has, val, m0, k.i))]

        def mod(k):
            return Frame(fields=ax_frame(k["ax"], BAR_FIELDS), alloc_objects=["$facecolor", "$nbars"])
        return {0: LoopSpec("for (machine_index, machine_schedule) in enumerate(schedule.schedule)", outer, mod),
                1: LoopSpec("for scheduled_op in machine_schedule", inner, mod)}


@register
class ConfigureLegend(Contract):
    name = "_configure_legend"
    properties = ("C20",)
    params = {"ax": EXT("Axes"), "legend_handles": DICT(INT, EXT("Patch")), "legend_title": ANY}

    def requires(self, c):
        return [("axes", c["ax"] > 0)]

    def modifies(self, c):
        return Frame(fields=ax_frame(c["ax"], ["$legend", "$$lpos"]), alloc_lists=True)

    @property
    def ghost_after(self):
        def rec(c, st):
            idx = st.aux.get("last_sorted_index")
            if idx is not None:
                A = fresh("lpos", z3.ArraySort(I, I))
                x = bv("lx")
                st.assume(forall([x], z3.Select(A, x) == idx(x), patterns=[z3.Select(A, x)]), "ghost:legend-position")
                st.heap = st.heap.put("$$lpos", c["ax"], A)
        return {"sorted_legend_handles = [legend_handles[job_id] for job_id in sorted(legend_handles)]": rec}

    def ensures(self, c):
        h, ax = c.h, c["ax"]
        has, val = c.val("legend_handles").t
        L = h.get("$legend", ax)
        pos = lambda j: z3.Select(h.get("$$lpos", ax), j)  # noqa: E731
        j, j2 = bv("lj"), bv("lj2")
        return [("legend-is-a-list", z3.And(L > 0, L < h.alloc)),
                ("every-job-with-a-handle-is-in-the-legend", forall([j], imp(z3.Select(has, j), z3.And(
            rng(pos(j), 0, h.len(L)), h.at(L, pos(j)) == z3.Select(val, j))),
            patterns=[z3.Select(val, j), z3.Select(has, j)])),
            ("legend-sorted-by-job-id", forall([j, j2], imp(z3.And(z3.Select(has, j), z3.Select(has, j2), j < j2),
                                                            pos(j) < pos(j2))))]


@register
class ConfigureAxes(Contract):
    name = "_configure_axes"
    properties = ("C20",)
    params = {"schedule": REF("Schedule"), "ax": EXT("Axes"), "xlim": OPT(INT), "number_of_x_ticks": INT,
              "machine_labels": LIST(ANY)}

    def requires(self, c):
        h, s = c.h0, c["schedule"]
        return [("axes", z3.And(c["ax"] > 0, c["ax"] < h.alloc))] + _sched_pre(h, s)

    def raises(self, c):
        xl = c.val("xlim")
        return [("ZeroDivisionError", "no-ticks-requested", c["number_of_x_ticks"] == 0),
                ("IndexError", "negative-limit-requested", z3.And(c["number_of_x_ticks"] != 0, z3.Not(xl.aux), xl.t.t < 0))]

    def modifies(self, c):
        return Frame(fields=ax_frame(c["ax"], ["$xlim_lo", "$xlim_hi", "$xticks"]), alloc_lists=True)

    def exc_modifies(self, c, exc):
        return self.modifies(c)    # (the limits are set before the ticks are computed)

    def ensures(self, c):
        from .core import ScheduleMakespan
        h0, h, s, ax = c.h0, c.h, c["schedule"], c["ax"]
        S = h0.get("_schedule", s)
        xl = c.val("xlim")
        hi = h.get("$xlim_hi", ax)
        T = h.get("$xticks", ax)
        return [("time-axis-from-0-to-the-makespan-or-the-requested-limit", z3.And(
            h.get("$xlim_lo", ax) == 0, imp(z3.Not(xl.aux), hi == xl.t.t),
            imp(xl.aux, ScheduleMakespan.spec(h0, S, h0.len(S), hi)))),
            ("last-tick-is-the-axis-end", z3.And(h.len(T) >= 1, h.at(T, h.len(T) - 1) == hi))]


@register
class InitializePlot(Contract):
    name = "_initialize_plot"
    properties = ("C20",)
    params = {"schedule": REF("Schedule"), "title": ANY, "x_label": ANY, "y_label": ANY}
    ret = TUPLE(EXT("Figure"), EXT("Axes"))

    def requires(self, c):
        return [("schedule", c["schedule"] > 0)]

    def modifies(self, c):
        return Frame(alloc_objects=["$nbars"])

    def ensures(self, c):
        fig, ax = c.result
        return [("a-new-empty-axes", z3.And(ax.t >= c.h0.alloc, ax.t < c.h.alloc, c.h.get("$nbars", ax.t) == 0))]


@register
class PlotGanttChart(Contract):
    name = "plot_gantt_chart"
    properties = ("C20",)
    params = {"schedule": REF("Schedule"), "title": ANY, "cmap_name": ANY, "xlim": OPT(INT), "number_of_x_ticks": INT,
              "job_labels": LIST(ANY), "machine_labels": LIST(ANY), "legend_title": ANY, "x_label": ANY, "y_label": ANY}
    ret = TUPLE(EXT("Figure"), EXT("Axes"))

    def requires(self, c):
        pre = PlotMachineSchedules().requires
        h, s = c.h0, c["schedule"]
        inst = h.get("instance", s)
        l = c["job_labels"]
        S = h.get("_schedule", s)
        m, i = bv("m"), bv("i")
        job = h.get("job_id", h.get("operation", h.at(h.at(S, m), i)))
        return _sched_pre(h, s) + [
            ("instance", z3.And(inst > 0, h.get("jobs", inst) > 0)),
            ("labels-cover-the-jobs", imp(l != 0, forall([m, i], imp(
                z3.And(rng(m, 0, h.len(S)), rng(i, 0, h.len(h.at(S, m)))), z3.And(job >= -h.len(l), job < h.len(l))),
                patterns=[h.at(h.at(S, m), i)])))]

    def raises(self, c):
        xl = c.val("xlim")
        return [("ZeroDivisionError", "no-ticks-requested", c["number_of_x_ticks"] == 0),
                ("IndexError", "negative-limit-requested", z3.And(c["number_of_x_ticks"] != 0, z3.Not(xl.aux), xl.t.t < 0))]

    def exc_modifies(self, c, exc):
        return Frame(alloc_objects=True, alloc_lists=True)

    relevant_strict = dict.fromkeys(_SCHED_PRE_NAMES, _SCHED_PRE_NAMES)

    def modifies(self, c):
        return Frame(alloc_objects=True, alloc_lists=True)

    def ensures(self, c):
        from .core import ScheduleMakespan
        h0, h, s = c.h0, c.h, c["schedule"]
        fig, axv = c.result
        ax = axv.t
        S = h0.get("_schedule", s)
        total = z3.Select(h0.get("$$cumS", s), h0.len(S))
        xl = c.val("xlim")
        hi = h.get("$xlim_hi", ax)
        T = h.get("$xticks", ax)
        L = h.get("$legend", ax)
        j = bv("lj")
        pos = lambda t: z3.Select(h.get("$$lpos", ax), t)  # noqa: E731
        m, i = bv("m"), bv("i")
        job = h0.get("job_id", h0.get("operation", h0.at(h0.at(S, m), i)))
        return [
            ("a-new-axes", z3.And(ax >= h0.alloc, ax < h.alloc)),
            ("exactly-one-bar-per-scheduled-operation", h.get("$nbars", ax) == total),
            ("each-bar-spans-start-to-end-in-its-machine-row-coloured-by-job", bars_of_rows(h0, h, s, ax, 0, h0.len(S))),
            ("every-plotted-job-is-in-the-legend-with-the-colour-of-its-bars", forall([m, i], imp(
                z3.And(rng(m, 0, h0.len(S)), rng(i, 0, h0.len(h0.at(S, m)))),
                z3.And(rng(pos(job), 0, h.len(L)), h.get("$facecolor", h.at(L, pos(job))) == color_of(h, ax, job))),
                patterns=[h0.at(h0.at(S, m), i)])),
            ("time-axis-from-0-to-the-makespan-or-the-requested-limit", z3.And(
                h.get("$xlim_lo", ax) == 0, imp(z3.Not(xl.aux), hi == xl.t.t),
                imp(xl.aux, ScheduleMakespan.spec(h0, S, h0.len(S), hi)))),
            ("last-tick-is-the-axis-end", z3.And(h.len(T) >= 1, h.at(T, h.len(T) - 1) == hi)),
        ]
