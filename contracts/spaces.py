"""C18 (deductive part, extracted statement): every legal decision belongs to the declared action space.

Extracted from the real source of SingleJobShopGraphEnv.__init__ on every run: the statement
`self.action_space = gym.spaces.MultiDiscrete([e1, e2], start=[s1, s2])`, whose four entries are evaluated symbolically
over J = self.instance.num_jobs and M = self.instance.num_machines.  [TRUSTED] gymnasium: MultiDiscrete(nvec, start)
contains x iff start[k] <= x[k] < start[k] + nvec[k] for every component.  Obligation (for all J, M >= 1): every
(job, machine) with 0 <= job < J and -1 <= machine < M is contained (machine -1 = "the operation's only machine").
A statement of another shape is drift.
"""
from __future__ import annotations

import ast
import os

import z3

from pyvc.engine import OutsideSubset
from pyvc.frontend import REPO

from .lemmas import lemma

FILE = "job_shop_lib/reinforcement_learning/_single_job_shop_graph_env.py"


def _int_expr(e, env):
    if isinstance(e, ast.Constant) and isinstance(e.value, int) and not isinstance(e.value, bool):
        return z3.IntVal(e.value)
    if isinstance(e, ast.UnaryOp) and isinstance(e.op, ast.USub):
        return -_int_expr(e.operand, env)
    if isinstance(e, ast.BinOp) and isinstance(e.op, (ast.Add, ast.Sub)):
        a, b = _int_expr(e.left, env), _int_expr(e.right, env)
        return a + b if isinstance(e.op, ast.Add) else a - b
    txt = ast.unparse(e)
    if txt in env:
        return env[txt]
    raise OutsideSubset(f"drift: action-space entry not modelled: {txt}")


def action_space_steps(repo=None):
    path = os.path.join(repo or os.environ.get("PYVC_REPO", REPO), FILE)
    with open(path, encoding="utf-8") as f:
        tree = ast.parse(f.read())
    cls = next((n for n in tree.body if isinstance(n, ast.ClassDef) and n.name == "SingleJobShopGraphEnv"), None)
    init = next((n for n in (cls.body if cls else []) if isinstance(n, ast.FunctionDef) and n.name == "__init__"), None)
    if init is None:
        raise OutsideSubset("drift: SingleJobShopGraphEnv.__init__ not found")
    assigns = [n for n in ast.walk(init) if isinstance(n, ast.Assign) and len(n.targets) == 1
               and ast.unparse(n.targets[0]) == "self.action_space"]
    if len(assigns) != 1 or not isinstance(assigns[0].value, ast.Call) \
            or not ast.unparse(assigns[0].value.func).endswith("MultiDiscrete"):
        raise OutsideSubset("drift: self.action_space is not assigned a MultiDiscrete exactly once")
    call = assigns[0].value
    kws = {k.arg: k.value for k in call.keywords}
    if len(call.args) != 1 or not isinstance(call.args[0], ast.List) or len(call.args[0].elts) != 2 or set(kws) - {"start"}:
        raise OutsideSubset("drift: MultiDiscrete(...) is not called with one list of two entries (and start=)")
    J, M = z3.Int("J"), z3.Int("M")
    env = {"self.instance.num_jobs": J, "self.instance.num_machines": M}
    nvec = [_int_expr(e, env) for e in call.args[0].elts]
    if "start" in kws:
        if not isinstance(kws["start"], ast.List) or len(kws["start"].elts) != 2:
            raise OutsideSubset("drift: start= is not a list of two entries")
        start = [_int_expr(e, env) for e in kws["start"].elts]
    else:
        start = [z3.IntVal(0), z3.IntVal(0)]
    job, mach = z3.Int("job"), z3.Int("machine")
    hyp = [J >= 1, M >= 1, job >= 0, job < J, mach >= -1, mach < M]
    goal = z3.And(start[0] <= job, job < start[0] + nvec[0], start[1] <= mach, mach < start[1] + nvec[1])
    cands = [[(J, a), (M, b), (job, c), (mach, d)] for a in (1, 2, 3) for b in (1, 2, 3) for c in (0, a - 1) for d in (-1, 0, b - 1)]
    return [("every-legal-decision-is-in-the-action-space", hyp, goal, cands)]


@lemma("legal-decisions-in-action-space", properties=("C18",))
def legal_decisions_in_action_space():
    return action_space_steps()
