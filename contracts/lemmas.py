"""Lemmas: implications between spec predicates, discharged by the same back ends.

They let the properties be stated in their own words (Feasible, Derived, replay
determinacy) while the code-level contracts carry the stronger invariant Reach.
"""
from __future__ import annotations

import z3

from pyvc.values import Heap, fresh

from .spec import Disp, derived, feasible, reach, rng, imp, zmax

LEMMAS = {}


class Facts(list):
    """the facts of `after_call` with the clause name each comes from (None: frame / path facts)"""

    def only(self, *names, pre=None, post=None):
        """frame facts + the named clauses (`pre` / `post`: names restricted to the pre- / post-state
        instance of a clause that occurs in both)"""
        out = []
        for f, (nm, side) in zip(self, self.names):
            if nm is None or nm in names or (side == "pre" and nm in (pre or ())) or (side == "post" and nm in (post or ())):
                out.append(f)
        return out


def after_call(con, args, tag="C"):
    """What a caller knows after a normal return of `con`: pre-condition, none of the
    exceptional conditions, the frame (exactly as the verifier havocs it) and the
    post-condition.  -> (h0, h1, facts)"""
    from pyvc.engine import Ctx, Engine, State
    h0 = Heap(tag=tag + "0")
    st = State({}, h0, [h0.alloc > 0])
    side = {}
    c0 = Ctx(None, h0, h0, args)
    for n, p in con.requires(c0):
        st.assume(p, n)
        side[len(st.pc) - 1] = "pre"
    for _, _, w in con.raises(c0):
        st.assume(z3.Not(w))
    eng = Engine(None, {}, {})
    h1 = eng.havoc(st, con.modifies(c0), h0)
    if con.ret is None or con.ret.kind == "none":
        for n, p in con.ensures(Ctx(None, h0, h1, args)):
            st.assume(p, n)
            side[len(st.pc) - 1] = "post"
    # (contracts with a result: the caller instantiates `ensures` with its own result symbol)
    facts = Facts(st.pc)
    facts.names = [(st.tags.get(i), side.get(i)) for i in range(len(st.pc))]
    return h0, h1, facts


def lemma(name, properties=()):
    def deco(fn):
        fn.lemma_name = name
        fn.properties = properties
        LEMMAS[name] = fn
        return fn
    return deco


@lemma("reach-implies-feasible", ("C01",))
def reach_implies_feasible():
    """Reach(d) => Feasible(schedule of d)  -- C01 in the property's own words"""
    h = Heap(tag="L")
    d = fresh("d")
    pc = [p for _, p in reach(h, d)]
    out = []
    for n, g in feasible(h, d):
        if n == "F2-eligible-machine":
            # witness for the existential: the ghost index $mq of the chosen machine
            D = Disp(h, d)
            m0, i0, q = fresh("m0"), fresh("i0"), fresh("q")
            x = D.x(m0, i0)
            o = D.opx(x)
            hyp = z3.And(rng(m0, 0, D.M), rng(i0, 0, D.nS(m0)))
            P = lambda t: z3.And(rng(t, 0, D.it.nmach(o)), D.it.mach(o, t) == m0)
            out.append((n + ":witness", pc, imp(hyp, z3.And(D.mid(x) == m0, P(D.mq(x))))))
            out.append((n + ":exists", [imp(hyp, z3.And(D.mid(x) == m0, P(D.mq(x))))],
                        imp(hyp, z3.And(D.mid(x) == m0, z3.Exists([q], P(q))))))
        else:
            out.append((n, pc, g))
    return out


@lemma("reach-implies-derived", ("C02",))
def reach_implies_derived():
    """Reach(d) => the tracking vectors equal the values implied by the schedule,
    stated without the ghost maps"""
    h = Heap(tag="L")
    d = fresh("d")
    pc = [p for _, p in reach(h, d)]
    out = []
    for n, g in derived(h, d):
        if n == "D-next-index-attained":
            # skolemise the goal by hand and name the witness term so that e-matching
            # instantiates R4b at (j0, k[j0]-1)
            D = Disp(h, d)
            j0, m2, i2 = fresh("j0"), fresh("m2"), fresh("i2")
            hyp = z3.And(rng(j0, 0, D.it.J), D.kj(j0) > 0)
            P = lambda a, b: z3.And(rng(a, 0, D.M), rng(b, 0, D.nS(a)), D.it.jid(D.opx(D.x(a, b))) == j0,
                                    D.it.pos(D.opx(D.x(a, b))) == D.kj(j0) - 1)
            ow = D.it.op(j0, D.kj(j0) - 1)
            w1, w2 = D.posm(ow), D.posi(ow)
            out.append((n + ":witness", pc, imp(hyp, P(w1, w2))))
            out.append((n + ":exists", [imp(hyp, P(w1, w2))], imp(hyp, z3.Exists([m2, i2], P(m2, i2)))))
        else:
            out.append((n, pc, g))
    return out


@lemma("dispatch-post-deterministic", ("C02",))
def dispatch_deterministic():
    """Two executions of an accepted dispatch from the same state with the same
    (operation, machine) produce the same abstract schedule: the post-condition of
    `dispatch` pins the new entry (operation, machine, start) and leaves all other
    entries alone, hence the schedule is a function of the (operation, machine)
    sequence (replay reproduces it)."""
    from .core import REGISTRY
    from pyvc.engine import Ctx
    from pyvc.values import Val, INT, OPT, REF
    con = REGISTRY["Dispatcher.dispatch"]
    h0 = Heap(tag="D0")
    ha, hb = Heap(tag="Da"), Heap(tag="Db")
    d, o = fresh("d"), fresh("o")
    mid = Val(OPT(INT), Val(INT, fresh("m")), fresh("m_none", z3.BoolSort()))
    args = {"self": Val(REF("Dispatcher"), d), "operation": Val(REF("Operation"), o), "machine_id": mid}
    pc = [p for _, p in con.requires(Ctx(None, h0, h0, args))]
    pc += [z3.Not(w) for _, _, w in con.raises(Ctx(None, h0, h0, args))]
    # both runs share the instance (not modified: frame) -- state it for the fields the
    # abstract content reads
    for hx in (ha, hb):
        pc += [p for _, p in con.ensures(Ctx(None, h0, hx, args))]
        for f in ("duration", "job_id", "position_in_job", "operation_id", "machines", "jobs", "instance",
                  "schedule", "_schedule"):
            pc.append(hx.farr(f) == h0.farr(f))
    Da, Db = Disp(ha, d), Disp(hb, d)
    D0 = Disp(h0, d)
    from .core import _eff_machine
    m_eff = _eff_machine(Ctx(None, h0, h0, args))
    n = D0.nS(m_eff)
    xa, xb = Da.x(m_eff, n), Db.x(m_eff, n)
    goals = [
        ("same-new-entry", z3.And(Da.opx(xa) == Db.opx(xb), Da.start(xa) == Db.start(xb), Da.mid(xa) == Db.mid(xb),
                                  Da.nS(m_eff) == Db.nS(m_eff))),
        ("same-tracking", z3.And(Da.mn(m_eff) == Db.mn(m_eff),
                                 Da.jn(D0.it.jid(o)) == Db.jn(D0.it.jid(o)),
                                 Da.kj(D0.it.jid(o)) == Db.kj(D0.it.jid(o)))),
    ]
    return [(nm, pc, g) for nm, g in goals]


@lemma("complete-iff-every-job-finished", ("C01", "C04"))
def complete_iff_all_jobs_finished():
    """Reach(d) and n = N  =>  every job's next-operation index equals its length (so no
    operation is ready and `is_complete` is exactly `all dispatched`); and conversely
    Reach(d) and n < N leaves the deficit positive (used with the witness search of C04)."""
    h = Heap(tag="L")
    d = fresh("d")
    D = Disp(h, d)
    pc = [p for _, p in reach(h, d)]
    j0 = fresh("j0")
    return [
        ("n-equals-N-implies-every-job-finished", pc + [D.n == D.it.N],
         imp(rng(j0, 0, D.it.J), D.kj(j0) == D.it.L(j0))),
        ("n-at-most-N", pc, D.n <= D.it.N),
    ]


@lemma("reset-state-equals-fresh-state", ("C12",))
def reset_equals_fresh():
    """C12 for the dispatcher, in the property's words: a dispatcher after reset() (post-condition of
    Dispatcher.reset) and a freshly constructed one (post-condition of Dispatcher.__init__) on the same
    instance have the same abstract state -- every job at its first operation and ready at 0, every
    machine free at 0 with an empty list, nothing scheduled.  Together with dispatch-post-deterministic
    (the post-state of a dispatch is a function of the pre-state and the request) every later history
    yields the same schedule on both."""
    from .core import REGISTRY, empty_state
    h = Heap(tag="R")
    d1, d2 = fresh("d_reset"), fresh("d_fresh")
    D1, D2 = Disp(h, d1), Disp(h, d2)
    pc = [p for _, p in reach(h, d1)] + [p for _, p in empty_state(h, d1)] + [D1.n == 0]
    pc += [p for _, p in reach(h, d2)] + [p for _, p in empty_state(h, d2)] + [D2.n == 0]
    pc += [D1.I == D2.I]
    j, m = fresh("j"), fresh("m")
    return [("same-number-of-machine-lists", pc, D1.M == D2.M),
            ("same-job-state", pc + [rng(j, 0, D1.it.J)], z3.And(D1.kj(j) == D2.kj(j), D1.jn(j) == D2.jn(j))),
            ("same-machine-state", pc + [rng(m, 0, D1.M)], z3.And(D1.mn(m) == D2.mn(m), D1.nS(m) == D2.nS(m),
                                                                 D1.nS(m) == 0)),
            ("same-count", pc, D1.n == D2.n)]
