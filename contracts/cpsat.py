"""C03 (deductive part): the CP-SAT model ORToolsSolver builds IS the disjunctive formulation of the instance,
and the schedule it reconstructs from a solution is accepted by Schedule's validation.

OR-Tools is used through [TRUSTED] contracts (registered below).  A CpModel carries a ghost CONSTRAINT STORE, a
sequence of records (kind, a, b, offset) in the order the constraints were added:

    EQ         a == b + offset              model.Add(a == b + offset)
    LE         a <= b + offset              model.Add(a <= b)
    NOOVERLAP  a = list of interval vars    model.AddNoOverlap(intervals)
    MAXEQ      a == max(b), b a list        model.AddMaxEquality(a, b)

plus the objective variable (Minimize) and, per IntVar, its bounds and creation index.  The contracts of the
model-building functions say WHICH records the store contains after they ran (all of them, by index, and how
many): the textbook model -- end = start + duration per operation, end(pred) <= start(succ) inside a job, one
no-overlap constraint per machine over exactly the intervals (start, duration, end) of its operations, makespan =
max of all ends, minimised; every variable in [0, total duration]; a NEW model, solver and variable map per solve.

`CpSolver.Solve(model)`: when it reports OPTIMAL or FEASIBLE, the values `Value(v)` satisfy every record of the
store and the variable bounds (that is what lets `_create_schedule` be verified not to raise); when it reports
OPTIMAL no assignment satisfying the store has a smaller objective (not expressible here: stays a trusted
sentence, and the bounded twin compares with brute force).
"""
from __future__ import annotations

import z3

from pyvc.engine import Contract, Frame, LoopSpec, OutsideSubset
from pyvc.library import MODULE_CONSTANTS, ext_function, ext_method
from pyvc.values import ANY, BOOL, EXT, INT, LIST, OPT, REF, STR, TUPLE, Ty, VNONE, Val, forall, fresh, to_int, vint

from .core import register
from .instance import cumT, duration_sums_defined
from .spec import FIELD_TYPES, Inst, bv, imp, rng, valid_instance

I = z3.IntSort()
EQ, LE, NOOVERLAP, MAXEQ = 1, 2, 3, 4
OPTIMAL, FEASIBLE = 4, 2            # cp_model.OPTIMAL / FEASIBLE (only their being two distinct constants matters)
SolValue = z3.Function("SolValue", I, I, I, I)    # (solver, solve epoch, variable) -> value in the solution found

FIELD_TYPES.update({
    "ORToolsSolver.log_search_progress": BOOL,
    "ORToolsSolver.max_time_in_seconds": OPT(INT),
    "ORToolsSolver._makespan": EXT("IntVar"),
    "ORToolsSolver.model": EXT("CpModel"),
    "ORToolsSolver.solver": EXT("CpSolver"),
    "ORToolsSolver._operations_start": Ty("objdict", "Operation", (EXT("IntVar"), EXT("IntVar"))),
})

MODEL_FIELDS = ["$ncons", "$$c_kind", "$$c_a", "$$c_b", "$$c_off", "$nvars", "$objective"]
VAR_FIELDS = ["$lb", "$ub", "$vmodel", "$vidx"]
EXPR_FIELDS = ["$le_var", "$le_off", "$b_kind", "$b_lhs", "$b_rvar", "$b_roff", "$iv_start", "$iv_size", "$iv_end"]
DICT_FIELDS = ["_operations_start#keys", "$$_operations_start#has", "$$_operations_start#v0", "$$_operations_start#v1"]
NEW_OBJ_FIELDS = VAR_FIELDS + EXPR_FIELDS + MODEL_FIELDS + ["$epoch", "$solved", "tup#0", "tup#1"]

MODULE_CONSTANTS["cp_model.OPTIMAL"] = lambda: vint(OPTIMAL)
MODULE_CONSTANTS["cp_model.FEASIBLE"] = lambda: vint(FEASIBLE)


class Store:
    """terms of the constraint store of model M in heap h"""

    def __init__(self, h, M):
        self.h, self.M = h, M
        self.n = h.get("$ncons", M)

    def rec(self, k):
        h, M = self.h, self.M
        return tuple(z3.Select(h.get(f, M), k) for f in ("$$c_kind", "$$c_a", "$$c_b", "$$c_off"))

    def is_rec(self, k, kind, a, b=None, off=None):
        ck, ca, cb, co = self.rec(k)
        out = [ck == kind, ca == a]
        if b is not None:
            out.append(cb == b)
        if off is not None:
            out.append(co == off)
        return z3.And(out)


def _append(h, M, kind, a, b, off):
    n = h.get("$ncons", M)
    for f, v in (("$$c_kind", z3.IntVal(kind)), ("$$c_a", a), ("$$c_b", b), ("$$c_off", off)):
        h = h.put(f, M, z3.Store(h.get(f, M), n, v))
    return h.put("$ncons", M, n + 1)


def _each(eng, e, st):
    for s, pos, kw in eng.eval_args(e, st):
        yield s, pos, kw


# -- construction ----------------------------------------------------------------------------------------------
@ext_function("cp_model.CpModel", "CpModel() is a new model with no variables, no constraints and no objective")
def _new_model(eng, e, st):
    r = eng.alloc_ref(st)
    st.heap = st.heap.put("$ncons", r, z3.IntVal(0)).put("$nvars", r, z3.IntVal(0)).put("$objective", r, z3.IntVal(0))
    return [(st, Val(EXT("CpModel"), r))]


@ext_function("cp_model.CpSolver", "CpSolver() is a new solver object with default parameters")
def _new_solver(eng, e, st):
    r = eng.alloc_ref(st)
    st.heap = st.heap.put("$epoch", r, z3.IntVal(0)).put("$solved", r, z3.IntVal(0))
    return [(st, Val(EXT("CpSolver"), r))]


@ext_method("CpSolver", ".parameters", "CpSolver.parameters: the solver's parameter object")
def _params(eng, node, st, obj):
    return [(st, Val(EXT("SolverParameters"), obj.t))]


def _set_param(eng, node, st, obj, v):
    return [st]     # search parameters do not change what a reported solution satisfies


ext_method("SolverParameters", "=log_search_progress", "logging does not change the meaning of a reported status")(_set_param)
ext_method("SolverParameters", "=max_time_in_seconds", "a time limit may only turn OPTIMAL/FEASIBLE into FEASIBLE/UNKNOWN; what "
                                                      "a reported OPTIMAL or FEASIBLE solution satisfies is unchanged")(_set_param)


@ext_method("CpModel", "NewIntVar", "model.NewIntVar(lb, ub, name) is a new integer variable of that model with domain [lb, ub], "
                                    "different from every earlier variable")
def _new_int_var(eng, e, st, obj):
    out = []
    for s, pos, kw in _each(eng, e, st):
        if s.status != "run":
            out.append((s, None))
            continue
        M = obj.t
        v = eng.alloc_ref(s)
        h = s.heap
        nv = h.get("$nvars", M)
        s.heap = h.put("$lb", v, to_int(pos[0])).put("$ub", v, to_int(pos[1])).put("$vmodel", v, M) \
            .put("$vidx", v, nv).put("$nvars", M, nv + 1)
        out.append((s, Val(EXT("IntVar"), v)))
    return out


@ext_method("IntVar", "__add__", "IntVar + int is the linear expression `variable + constant`")
def _var_add(eng, node, st, a, b):
    var, k = (a, b) if a.ty.kind == "ext" else (b, a)
    if k.ty.kind not in ("int", "bool"):
        raise OutsideSubset("IntVar + something that is not an integer")
    r = eng.alloc_ref(st)
    st.heap = st.heap.put("$le_var", r, var.t).put("$le_off", r, eng.num(k))
    return [(st, Val(EXT("LinearExpr"), r))]


def _lin(h, v: Val):
    """(variable, offset) of an IntVar or `IntVar + constant`"""
    if v.ty.kind == "ext" and v.ty.arg == "IntVar":
        return v.t, z3.IntVal(0)
    if v.ty.kind == "ext" and v.ty.arg == "LinearExpr":
        return h.get("$le_var", v.t), h.get("$le_off", v.t)
    raise OutsideSubset(f"{v.ty} in a CP-SAT linear constraint")


def _cmp(eng, e, st, op, a, b):
    """`x == y + c`, `x <= y`: a bounded linear expression object (nothing is added to the model yet)"""
    if op not in ("Eq", "LtE"):
        raise OutsideSubset(f"CP-SAT comparison {op} not covered by the trusted contract")
    h = st.heap
    if not (a.ty.kind == "ext" and a.ty.arg == "IntVar"):
        raise OutsideSubset("left-hand side of a CP-SAT comparison is not a variable")
    rv, ro = _lin(h, b)
    r = eng.alloc_ref(st)
    st.heap = st.heap.put("$b_kind", r, z3.IntVal(EQ if op == "Eq" else LE)).put("$b_lhs", r, a.t) \
        .put("$b_rvar", r, rv).put("$b_roff", r, ro)
    return [(st, Val(EXT("BoundedLinearExpression"), r))]


ext_method("IntVar", "__cmp__", "`var == expr` / `var <= expr` build the linear constraint expression of that meaning")(_cmp)
ext_method("LinearExpr", "__cmp__", "comparison of linear expressions builds a constraint expression")(_cmp)


@ext_method("CpModel", "Add", "model.Add(bounded linear expression) appends exactly that constraint to the model")
def _add(eng, e, st, obj):
    out = []
    for s, pos, kw in _each(eng, e, st):
        if s.status != "run":
            out.append((s, None))
            continue
        b = pos[0]
        if not (b.ty.kind == "ext" and b.ty.arg == "BoundedLinearExpression"):
            raise OutsideSubset("model.Add of something that is not a comparison of variables")
        h = s.heap
        # (the kind is a constant on every path the code takes: EQ or LE)
        kind = h.get("$b_kind", b.t)
        n = h.get("$ncons", obj.t)
        M = obj.t
        for f, v in (("$$c_kind", kind), ("$$c_a", h.get("$b_lhs", b.t)), ("$$c_b", h.get("$b_rvar", b.t)),
                     ("$$c_off", h.get("$b_roff", b.t))):
            h = h.put(f, M, z3.Store(h.get(f, M), n, v))
        s.heap = h.put("$ncons", M, n + 1)
        out.append((s, VNONE))
    return out


@ext_method("CpModel", "NewIntervalVar", "model.NewIntervalVar(start, size, end, name) is a new interval with those three; the "
                                         "model also enforces start + size == end for it")
def _new_interval(eng, e, st, obj):
    out = []
    for s, pos, kw in _each(eng, e, st):
        if s.status != "run":
            out.append((s, None))
            continue
        if len(pos) < 3 or pos[1].ty.kind not in ("int", "bool"):
            raise OutsideSubset("NewIntervalVar with a size that is not an integer")
        r = eng.alloc_ref(s)
        s.heap = s.heap.put("$iv_start", r, to_int(pos[0])).put("$iv_size", r, eng.num(pos[1])).put("$iv_end", r, to_int(pos[2]))
        out.append((s, Val(EXT("IntervalVar"), r)))
    return out


@ext_method("CpModel", "AddNoOverlap", "model.AddNoOverlap(intervals) appends one constraint: the intervals of the list (as it is "
                                       "at the call) are pairwise disjoint in time")
def _add_no_overlap(eng, e, st, obj):
    out = []
    for s, pos, kw in _each(eng, e, st):
        if s.status == "run":
            s.heap = _append(s.heap, obj.t, NOOVERLAP, to_int(pos[0]), z3.IntVal(0), z3.IntVal(0))
        out.append((s, VNONE if s.status == "run" else None))
    return out


@ext_method("CpModel", "AddMaxEquality", "model.AddMaxEquality(target, variables) appends: target == max(variables)")
def _add_max_eq(eng, e, st, obj):
    out = []
    for s, pos, kw in _each(eng, e, st):
        if s.status == "run":
            s.heap = _append(s.heap, obj.t, MAXEQ, to_int(pos[0]), to_int(pos[1]), z3.IntVal(0))
        out.append((s, VNONE if s.status == "run" else None))
    return out


@ext_method("CpModel", "Minimize", "model.Minimize(v) makes v the objective to minimise")
def _minimize(eng, e, st, obj):
    out = []
    for s, pos, kw in _each(eng, e, st):
        if s.status == "run":
            s.heap = s.heap.put("$objective", obj.t, to_int(pos[0]))
        out.append((s, VNONE if s.status == "run" else None))
    return out


# ---------------------------------------------------------------------------
# the variable map of the solver object
# ---------------------------------------------------------------------------
class Sol:
    """terms of an ORToolsSolver s in heap h"""

    def __init__(self, h, s):
        self.h, self.s = h, s
        self.M = h.get("model", s)
        self.solver = h.get("solver", s)
        self.keys = h.get("_operations_start#keys", s)
        self.store = Store(h, self.M)

    def has(self, o):
        return z3.Select(self.h.get("$$_operations_start#has", self.s), o) != 0

    def sv(self, o):
        return z3.Select(self.h.get("$$_operations_start#v0", self.s), o)

    def ev(self, o):
        return z3.Select(self.h.get("$$_operations_start#v1", self.s), o)


def total(h, I):
    return cumT(h, I, Inst(h, I).J)


def var_ok(h, M, v, T, lower):
    return z3.And(v > lower, v < h.alloc, h.get("$lb", v) == 0, h.get("$ub", v) == T, h.get("$vmodel", v) == M)


def vars_created(h, s, I, n0, nv0, lower, upto_job=None, upto_pos=None):
    """operations (j, p) lexicographically before (upto_job, upto_pos) [all if None] have their two variables in
    [0, T], created in job-major order, are the keys of the map in that order, and record n0 + id is
    `end == start + duration`"""
    S = Sol(h, s)
    it = Inst(h, I)
    j, p = bv("j"), bv("p")
    o = it.op(j, p)
    dom = z3.And(rng(j, 0, it.J), rng(p, 0, it.L(j)))
    if upto_job is not None:
        dom = z3.And(dom, j < upto_job if upto_pos is None else z3.Or(j < upto_job, z3.And(j == upto_job, p < upto_pos)))
    k = it.cumL(j) + p
    T = total(h, I)
    return forall([j, p], imp(dom, z3.And(
        S.has(o), h.at(S.keys, k) == o,
        var_ok(h, S.M, S.sv(o), T, lower), var_ok(h, S.M, S.ev(o), T, lower),
        h.get("$vidx", S.sv(o)) == nv0 + 2 * k, h.get("$vidx", S.ev(o)) == nv0 + 2 * k + 1,
        S.store.is_rec(n0 + k, EQ, S.ev(o), S.sv(o), it.dur(o)))), patterns=[it.op(j, p)])


def only_ops_are_keys(h, s, I):
    S = Sol(h, s)
    x, q = bv("kx"), bv("kq")
    return z3.And(
        forall([x], imp(S.has(x), Inst(h, I).is_op(x)), patterns=[z3.Select(h.get("$$_operations_start#has", s), x)]),
        forall([q], imp(rng(q, 0, h.len(S.keys)), z3.And(
            S.has(h.at(S.keys, q)), Inst(h, I).is_op(h.at(S.keys, q)),
            Inst(h, I).cumL(Inst(h, I).jid(h.at(S.keys, q))) + Inst(h, I).pos(h.at(S.keys, q)) == q)),
            patterns=[h.at(S.keys, q)]))


def records_before_unchanged(h0, h, M, n0):
    k = bv("ck")
    return z3.And([forall([k], imp(rng(k, 0, n0), z3.Select(h.get(f, M), k) == z3.Select(h0.get(f, M), k)),
                          patterns=[z3.Select(h.get(f, M), k)]) for f in ("$$c_kind", "$$c_a", "$$c_b", "$$c_off")])


def solver_wf(h, s):
    S = Sol(h, s)
    return z3.And(s > 0, s < h.alloc, S.M > 0, S.M < h.alloc, S.keys > 0, S.keys < h.alloc, S.store.n >= 0,
                  h.get("$nvars", S.M) >= 0)


def inst_pre(h, I):
    it = Inst(h, I)
    j, p_, j2_ = bv("j"), bv("p"), bv("j2")
    t_op, t_cum = it.op(j, p_), it.cumL(j2_)      # (kept alive while the pattern is built)
    order_pattern = z3.MultiPattern(t_op, t_cum)
    # (a consequence, by induction, of cumL's defining equations and `every job has an operation`)
    return valid_instance(h, I) + duration_sums_defined(h, I) + [
        ("inst-cum-at-least-one-per-job", forall([j], imp(z3.And(0 <= j, j <= it.J), it.cumL(j) >= j), patterns=[it.cumL(j)])),
        ("inst-cum-minus-index-monotone", forall([j, bv("p")], imp(z3.And(0 <= j, j <= bv("p"), bv("p") <= it.J),
                                                                   it.cumL(j) - j <= it.cumL(bv("p")) - bv("p")))),
        # the same two facts in the form the index arithmetic uses them: operation (j, p) comes before job j2 > j
        ("inst-index-order", forall([j, bv("p"), bv("j2")], imp(
            z3.And(0 <= j, j < bv("j2"), bv("j2") <= it.J, 0 <= bv("p"), bv("p") < it.L(j)),
            z3.And(it.cumL(j) + bv("p") < it.cumL(bv("j2")), it.cumL(j) + bv("p") - j <= it.cumL(bv("j2")) - bv("j2"))),
            patterns=[order_pattern])),
        # ... and against the totals (single trigger: the operation)
        ("inst-index-bound", forall([j, p_], imp(z3.And(rng(j, 0, it.J), rng(p_, 0, it.L(j))), z3.And(
            it.cumL(j) + p_ < it.N, it.cumL(j) + p_ - j <= it.N - it.J, it.cumL(j) >= j, it.cumL(j) + it.L(j) <= it.N)),
            patterns=[t_op.arg(0) if False else it.op(j, p_)]))]


def model_frame(c, h=None):
    h = h or c.h0
    s = c["self"]
    S = Sol(h, s)
    f = {n: [S.M] for n in MODEL_FIELDS}
    f.update({n: [s] for n in DICT_FIELDS})
    return f


@register
class CreateVariables(Contract):
    name = "ORToolsSolver._create_variables"
    properties = ("C03",)
    @property
    def ghost_after(self):
        def step(c, st):
            # ghost assertions (proved, then used) staging the preservation of `created-so-far`: the operation just
            # handled satisfies the clause; the operations handled earlier still do
            h0, h, s, I = c.h0, st.heap, c["self"], c["instance"]
            S0, S = Sol(h0, s), Sol(h, s)
            it = Inst(h0, I)
            j0, i = c.eng.loop_stack[-2], c.eng.loop_stack[-1]
            o = st.env["operation"].t
            k = it.cumL(j0) + i
            T = total(h, I)
            n0, nv0, lower = S0.store.n, h0.get("$nvars", S0.M), S0.M
            new = z3.And(o == it.op(j0, i), S.has(o), h.at(S.keys, k) == o,
                         var_ok(h, S.M, S.sv(o), T, lower), var_ok(h, S.M, S.ev(o), T, lower),
                         h.get("$vidx", S.sv(o)) == nv0 + 2 * k, h.get("$vidx", S.ev(o)) == nv0 + 2 * k + 1,
                         S.store.is_rec(n0 + k, EQ, S.ev(o), S.sv(o), it.dur(o)))
            c.eng.oblige(st, "loop1:step:the-operation-just-handled-has-its-variables", new, "ghost-assert")
            st.assume(new, "step-new")
            old = vars_created(h, s, I, n0, nv0, lower, j0, i)
            c.eng.oblige(st, "loop1:step:earlier-operations-keep-theirs", old, "ghost-assert")
            st.assume(old, "step-old")
        return {"self.model.Add(end_var == start_var + operation.duration)": step}
    params = {"self": REF("ORToolsSolver"), "instance": REF("JobShopInstance")}

    def requires(self, c):
        h, s, I = c.h0, c["self"], c["instance"]
        S = Sol(h, s)
        x = bv("kx")
        return inst_pre(h, I) + [
            ("solver", solver_wf(h, s)),
            ("instance-is-older-than-the-model", z3.And(I < S.M, S.keys > I)),
            ("variable-map-empty", z3.And(h.len(S.keys) == 0, forall([x], z3.Not(S.has(x)),
                                                                      patterns=[z3.Select(h.get("$$_operations_start#has", s), x)])))]

    def modifies(self, c):
        S = Sol(c.h0, c["self"])
        return Frame(fields=model_frame(c), lists=[S.keys], alloc_objects=NEW_OBJ_FIELDS + ["$type"], alloc_lists=True)

    def ensures(self, c):
        h0, h, s, I = c.h0, c.h, c["self"], c["instance"]
        S0, S = Sol(h0, s), Sol(h, s)
        it = Inst(h0, I)
        return [
            ("two-variables-in-0..total-duration-and-end=start+duration-per-operation",
             vars_created(h, s, I, S0.store.n, h0.get("$nvars", S0.M), S0.M)),
            ("one-constraint-per-operation", z3.And(S.store.n == S0.store.n + it.N, h.len(S.keys) == it.N,
                                                    h.get("$nvars", S.M) == h0.get("$nvars", S0.M) + 2 * it.N)),
            ("only-operations-are-keys", only_ops_are_keys(h, s, I)),
            ("earlier-constraints-untouched", records_before_unchanged(h0, h, S0.M, S0.store.n)),
            ("same-model", z3.And(S.M == S0.M, S.keys == S0.keys, h.get("$objective", S.M) == h0.get("$objective", S.M))),
            ("instance-untouched", Inst(h, I).J == Inst(h0, I).J),
        ]

    @property
    def loops(self):
        def common(k, j, p):
            h0, h, s, I = k.h0, k.h, k["self"], k["instance"]
            S0, S = Sol(h0, s), Sol(h, s)
            it = Inst(h0, I)
            done = it.cumL(j) + (p if p is not None else 0)
            return [
                ("same-model", z3.And(S.M == S0.M, S.keys == S0.keys, h.get("$objective", S.M) == h0.get("$objective", S.M))),
                ("created-so-far", vars_created(h, s, I, S0.store.n, h0.get("$nvars", S0.M), S0.M, j, p)),
                ("counts", z3.And(S.store.n == S0.store.n + done, h.len(S.keys) == done,
                                  h.get("$nvars", S.M) == h0.get("$nvars", S0.M) + 2 * done)),
                ("only-operations-are-keys", only_ops_are_keys(h, s, I)),
                ("keys-so-far-only", _keys_before(h, s, I, j, p)),
                ("earlier-constraints-untouched", records_before_unchanged(h0, h, S0.M, S0.store.n)),
            ]

        def outer(k):
            return common(k, k.i, None)

        def inner(k):
            it = Inst(k.h0, k["instance"])
            j0 = k.outer[-1]
            return [("job", z3.And(k.v("job") == it.job(j0), rng(j0, 0, it.J)))] + common(k, j0, k.i)

        def mod(k):
            S = Sol(k.h0, k["self"])
            f = {n: [S.M] for n in MODEL_FIELDS}
            f.update({n: [k["self"]] for n in DICT_FIELDS})
            return Frame(fields=f, lists=[S.keys], alloc_objects=NEW_OBJ_FIELDS + ["$type"], alloc_lists=True)
        return {0: LoopSpec("for job in instance.jobs", outer, mod), 1: LoopSpec("for operation in job", inner, mod)}


def _keys_before(h, s, I, upto_job, upto_pos):
    """an operation is a key only if it lies before (upto_job, upto_pos)"""
    S = Sol(h, s)
    it = Inst(h, I)
    x = bv("kx")
    before = it.jid(x) < upto_job if upto_pos is None else z3.Or(it.jid(x) < upto_job,
                                                                 z3.And(it.jid(x) == upto_job, it.pos(x) < upto_pos))
    return forall([x], imp(S.has(x), before), patterns=[z3.Select(h.get("$$_operations_start#has", s), x)])


# ---------------------------------------------------------------------------
# job precedence, objective
# ---------------------------------------------------------------------------
def all_vars(h, s, I, nv0=None):
    """every operation has its two variables (what the later model-building steps rely on)"""
    S = Sol(h, s)
    it = Inst(h, I)
    j, p = bv("j"), bv("p")
    o = it.op(j, p)
    T = total(h, I)
    k = it.cumL(j) + p
    body = [S.has(o), h.at(S.keys, k) == o, var_ok(h, S.M, S.sv(o), T, I), var_ok(h, S.M, S.ev(o), T, I),
            h.get("$vidx", S.sv(o)) != h.get("$vidx", S.ev(o))]
    return [("every-operation-has-its-variables", forall([j, p], imp(z3.And(rng(j, 0, it.J), rng(p, 0, it.L(j))),
                                                                     z3.And(body)), patterns=[it.op(j, p)])),
            ("keys-are-the-operations", z3.And(h.len(S.keys) == it.N, only_ops_are_keys(h, s, I)))]


def job_constraints(h, s, I, n1, upto_job=None, upto_pos=None):
    """record n1 + cumL(j) - j + p - 1 is end(j, p-1) <= start(j, p), for 1 <= p < L(j)"""
    S = Sol(h, s)
    it = Inst(h, I)
    j, p = bv("j"), bv("p")
    dom = z3.And(rng(j, 0, it.J), rng(p, 1, it.L(j)))
    if upto_job is not None:
        dom = z3.And(dom, j < upto_job if upto_pos is None else z3.Or(j < upto_job, z3.And(j == upto_job, p < upto_pos)))
    k = n1 + it.cumL(j) - j + p - 1
    return forall([j, p], imp(dom, S.store.is_rec(k, LE, S.ev(it.op(j, p - 1)), S.sv(it.op(j, p)), 0)),
                  patterns=[it.op(j, p)])


class _ModelStep(Contract):
    properties = ("C03",)
    params = {"self": REF("ORToolsSolver"), "instance": REF("JobShopInstance")}

    def requires(self, c):
        h, s, I = c.h0, c["self"], c["instance"]
        S = Sol(h, s)
        return inst_pre(h, I) + [("solver", solver_wf(h, s)), ("instance-is-older-than-the-model", z3.And(I < S.M, S.keys > I))] \
            + all_vars(h, s, I)

    def modifies(self, c):
        S = Sol(c.h0, c["self"])
        return Frame(fields={n: [S.M] for n in MODEL_FIELDS}, alloc_objects=NEW_OBJ_FIELDS + ["$type"], alloc_lists=True)

    def kept(self, c):
        h0, h, s = c.h0, c.h, c["self"]
        S0, S = Sol(h0, s), Sol(h, s)
        return [("earlier-constraints-untouched", records_before_unchanged(h0, h, S0.M, S0.store.n)),
                ("same-model-and-variables", z3.And(S.M == S0.M, S.keys == S0.keys,
                                                    h.get("$nvars", S.M) >= h0.get("$nvars", S.M))),
                ("instance-untouched", Inst(h, c["instance"]).J == Inst(h0, c["instance"]).J)]


_ARITH = ["inst-refs", "inst-jobs", "inst-cum", "inst-cum-at-least-one-per-job", "inst-index-order", "inst-index-bound"]


@register
class AddJobConstraints(_ModelStep):
    name = "ORToolsSolver._add_job_constraints"
    _LOOP = _ARITH + ["added-so-far", "count", "job", "same-model", "earlier-constraints-untouched", "solver"]
    relevant_strict = {"added-so-far": _LOOP, "count": _LOOP, "earlier-constraints-untouched": _LOOP,
                       "end-of-predecessor<=start-of-successor-for-every-pair-of-a-job": _LOOP,
                       "one-constraint-per-successive-pair": _LOOP}

    def ensures(self, c):
        h0, h, s, I = c.h0, c.h, c["self"], c["instance"]
        S0, S = Sol(h0, s), Sol(h, s)
        it = Inst(h0, I)
        return [("end-of-predecessor<=start-of-successor-for-every-pair-of-a-job", job_constraints(h, s, I, S0.store.n)),
                ("one-constraint-per-successive-pair", S.store.n == S0.store.n + it.N - it.J),
                ("objective-and-variables-untouched", z3.And(h.get("$objective", S.M) == h0.get("$objective", S.M),
                                                             h.get("$nvars", S.M) == h0.get("$nvars", S.M)))] + self.kept(c)

    @property
    def loops(self):
        def common(k, j, p):
            h0, h, s, I = k.h0, k.h, k["self"], k["instance"]
            S0, S = Sol(h0, s), Sol(h, s)
            it = Inst(h0, I)
            done = it.cumL(j) - j + (p - 1 if p is not None else 0)
            return [("same-model", z3.And(S.M == S0.M, h.get("$objective", S.M) == h0.get("$objective", S.M),
                                          h.get("$nvars", S.M) == h0.get("$nvars", S.M))),
                    ("added-so-far", job_constraints(h, s, I, S0.store.n, j, p)),
                    ("count", S.store.n == S0.store.n + done),
                    ("earlier-constraints-untouched", records_before_unchanged(h0, h, S0.M, S0.store.n))]

        def outer(k):
            return common(k, k.i, None)

        def inner(k):
            it = Inst(k.h0, k["instance"])
            j0 = k.outer[-1]
            return [("job", z3.And(k.v("job") == it.job(j0), rng(j0, 0, it.J), k.n == it.L(j0) - 1))] + common(k, j0, k.i + 1)

        def mod(k):
            S = Sol(k.h0, k["self"])
            return Frame(fields={n: [S.M] for n in MODEL_FIELDS}, alloc_objects=NEW_OBJ_FIELDS + ["$type"], alloc_lists=True)
        return {0: LoopSpec("for job in instance.jobs", outer, mod),
                1: LoopSpec("for position in range(1, len(job))", inner, mod)}


def objective_set(h, s, I, n3):
    S = Sol(h, s)
    it = Inst(h, I)
    mk = h.get("_makespan", s)
    ck, ca, cb, co = S.store.rec(n3)
    q = bv("eq")
    T = total(h, I)
    return z3.And(
        var_ok(h, S.M, mk, T, I), ck == MAXEQ, ca == mk, cb > 0, cb < h.alloc, h.len(cb) == it.N,
        forall([q], imp(rng(q, 0, it.N), h.at(cb, q) == S.ev(h.at(S.keys, q))), patterns=[h.at(cb, q), h.at(S.keys, q)]),
        h.get("$objective", S.M) == mk)


@register
class SetObjective(_ModelStep):
    name = "ORToolsSolver._set_objective"

    def modifies(self, c):
        fr = _ModelStep.modifies(self, c)
        fr.fields["_makespan"] = [c["self"]]
        return fr

    def ensures(self, c):
        h0, h, s, I = c.h0, c.h, c["self"], c["instance"]
        S0, S = Sol(h0, s), Sol(h, s)
        return [("makespan-variable=max-of-all-end-variables-and-is-minimised", objective_set(h, s, I, S0.store.n)),
                ("one-more-constraint", z3.And(S.store.n == S0.store.n + 1,
                                               h.get("$nvars", S.M) == h0.get("$nvars", S.M) + 1))] + self.kept(c)


# ---------------------------------------------------------------------------
# machine constraints
# ---------------------------------------------------------------------------
def non_flexible(h, I):
    it = Inst(h, I)
    j, p = bv("j"), bv("p")
    return ("non-flexible-instance", forall([j, p], imp(z3.And(rng(j, 0, it.J), rng(p, 0, it.L(j))),
                                                        it.nmach(it.op(j, p)) == 1), patterns=[it.op(j, p)]))


def mach0(h, o):
    return h.at(h.get("machines", o), 0)


def ivpos(h, s, o):
    return z3.Select(h.get("$$iv_pos", s), o)


def ivop(h, L, idx):
    return z3.Select(h.get("$$iv_op", L), idx)


def machine_constraints(h, s, I, n2, upto=None):
    """record n2 + m (m < upto) is a no-overlap constraint over exactly the intervals (start, duration, end) of the
    operations of machine m; ghost maps iv_pos (operation -> index in its machine's interval list) and iv_op (list,
    index -> operation) are each other's inverse"""
    S = Sol(h, s)
    it = Inst(h, I)
    j, p, m, q = bv("j"), bv("p"), bv("m"), bv("q")
    NM = it.NM if upto is None else upto
    o = it.op(j, p)
    nol = lambda t: z3.Select(h.get("$$no_list", s), t)  # noqa: E731   (ghost: machine -> its interval list)
    L = nol(mach0(h, o))
    iv = h.at(L, ivpos(h, s, o))
    Lm = nol(m)
    o2 = ivop(h, Lm, q)
    dom = z3.And(rng(j, 0, it.J), rng(p, 0, it.L(j)), mach0(h, o) < NM)
    return z3.And(
        forall([m], imp(rng(m, 0, NM), z3.And(S.store.is_rec(n2 + m, NOOVERLAP, Lm), Lm > I, Lm < h.alloc)),
               patterns=[nol(m)]),
        forall([j, p], imp(dom, z3.And(
            rng(ivpos(h, s, o), 0, h.len(L)), ivop(h, L, ivpos(h, s, o)) == o, iv > I, iv < h.alloc,
            h.get("$iv_start", iv) == S.sv(o), h.get("$iv_size", iv) == it.dur(o), h.get("$iv_end", iv) == S.ev(o))),
            patterns=[it.op(j, p)]),
        forall([m, q], imp(z3.And(rng(m, 0, NM), rng(q, 0, h.len(Lm))),
                           z3.And(it.is_op(o2), mach0(h, o2) == m, ivpos(h, s, o2) == q)),
               patterns=[ivop(h, Lm, q)]))


@register
class AddMachineConstraints(_ModelStep):
    name = "ORToolsSolver._add_machine_constraints"

    def requires(self, c):
        return _ModelStep.requires(self, c) + [non_flexible(c.h0, c["instance"])]

    def modifies(self, c):
        fr = _ModelStep.modifies(self, c)
        fr.fields["$$iv_pos"] = [c["self"]]
        fr.fields["$$no_list"] = [c["self"]]
        fr.fields["$$mo_pos"] = [c["self"]]
        fr.fields["$$iv_op"] = "ALL"
        fr.fields["$$mo_op"] = "ALL"
        return fr

    def ensures(self, c):
        h0, h, s, I = c.h0, c.h, c["self"], c["instance"]
        S0, S = Sol(h0, s), Sol(h, s)
        it = Inst(h0, I)
        return [("one-no-overlap-constraint-per-machine-over-exactly-the-intervals-of-its-operations",
                 machine_constraints(h, s, I, S0.store.n)),
                ("one-constraint-per-machine", S.store.n == S0.store.n + it.NM),
                ("objective-and-variables-untouched", z3.And(h.get("$objective", S.M) == h0.get("$objective", S.M),
                                                             h.get("$nvars", S.M) == h0.get("$nvars", S.M)))] + self.kept(c)

    @property
    def ghost_after(self):
        def appended(c, st):
            h, s = st.heap, c["self"]
            o = st.env["operation"].t
            MO = st.env["machines_operations"]
            row = h.at(MO, mach0(h, o))
            n = h.len((row, "c"))
            st.heap = h.put("$$mo_pos", s, z3.Store(h.get("$$mo_pos", s), o, n - 1)) \
                .put("$$mo_op", row, z3.Store(h.get("$$mo_op", row), n - 1, o))

        def interval_added(c, st):
            # the interval list mirrors the machine's list of (variables, duration) entries index by index
            h, s = st.heap, c["self"]
            IV = st.env["intervals"].t
            ops = st.env["operations"].t
            n = h.len((IV, "c"))
            o = z3.Select(h.get("$$mo_op", ops), n - 1)
            st.heap = h.put("$$iv_pos", s, z3.Store(h.get("$$iv_pos", s), o, n - 1)) \
                .put("$$iv_op", IV, z3.Store(h.get("$$iv_op", IV), n - 1, o))
        def no_overlap_added(c, st):
            h, s = st.heap, c["self"]
            st.heap = h.put("$$no_list", s, z3.Store(h.get("$$no_list", s), st.env["machine_id"].t, st.env["intervals"].t))
        return {"machines_operations[operation.machine_id].append((self._operations_start[operation], operation.duration))": appended,
                "intervals.append(interval_var)": interval_added, "self.model.AddNoOverlap(intervals)": no_overlap_added}

    # -- what the first pair of loops builds ------------------------------------------------------------------
    @staticmethod
    def collected(h, s, I, MO, A0, upto_job=None, upto_pos=None):
        """MO[m] lists, in job-major order, one entry ((start, end), duration) per operation of machine m that lies
        before (upto_job, upto_pos); mo_pos / mo_op are each other's inverse"""
        S = Sol(h, s)
        it = Inst(h, I)
        j, p, m, q = bv("j"), bv("p"), bv("m"), bv("q")
        o = it.op(j, p)
        dom = z3.And(rng(j, 0, it.J), rng(p, 0, it.L(j)))
        before = lambda jj, pp: z3.BoolVal(True) if upto_job is None else (  # noqa: E731
            jj < upto_job if upto_pos is None else z3.Or(jj < upto_job, z3.And(jj == upto_job, pp < upto_pos)))
        row = lambda t: h.at(MO, t)  # noqa: E731
        pos = lambda x: z3.Select(h.get("$$mo_pos", s), x)  # noqa: E731
        opat = lambda r, t: z3.Select(h.get("$$mo_op", r), t)  # noqa: E731
        ent = h.at(row(m), q)
        inner = h.get("tup#0", ent)
        o2 = opat(row(m), q)
        return z3.And(
            h.len(MO) == it.NM, MO >= A0, MO < h.alloc,
            forall([m], imp(rng(m, 0, it.NM), z3.And(row(m) > MO, row(m) < h.alloc, h.len(row(m)) >= 0)), patterns=[h.at(MO, m)]),
            forall([m, bv("m2")], imp(z3.And(rng(m, 0, it.NM), rng(bv("m2"), 0, it.NM), row(m) == row(bv("m2"))), m == bv("m2")),
                   patterns=[z3.MultiPattern(h.at(MO, m), h.at(MO, bv("m2")))]),
            forall([j, p], imp(z3.And(dom, before(j, p)), z3.And(
                rng(pos(o), 0, h.len(row(mach0(h, o)))), opat(row(mach0(h, o)), pos(o)) == o)), patterns=[it.op(j, p)]),
            forall([m, q], imp(z3.And(rng(m, 0, it.NM), rng(q, 0, h.len(row(m)))), z3.And(
                it.is_op(o2), mach0(h, o2) == m, pos(o2) == q, before(it.jid(o2), it.pos(o2)),
                ent > MO, ent < h.alloc, inner > MO, inner < h.alloc, inner != ent,
                h.get("tup#0", inner) == S.sv(o2), h.get("tup#1", inner) == S.ev(o2), h.get("tup#1", ent) == it.dur(o2))),
                patterns=[opat(row(m), q), h.at(row(m), q)]))

    @property
    def loops(self):
        def base(k):
            h0, h, s = k.h0, k.h, k["self"]
            S0, S = Sol(h0, s), Sol(h, s)
            return [("same-model", z3.And(S.M == S0.M, S.keys == S0.keys, h.get("$objective", S.M) == h0.get("$objective", S.M),
                                          h.get("$nvars", S.M) == h0.get("$nvars", S.M))),
                    ("earlier-constraints-untouched", records_before_unchanged(h0, h, S0.M, S0.store.n))]

        def l0(k):
            return base(k) + [("count", Sol(k.h, k["self"]).store.n == Sol(k.h0, k["self"]).store.n),
                              ("collected-so-far", self.collected(k.h, k["self"], k["instance"], k.v("machines_operations"),
                                                                  k.h0.alloc, k.i))]

        def l1(k):
            it = Inst(k.h0, k["instance"])
            j0 = k.outer[-1]
            return base(k) + [("job", z3.And(k.v("job") == it.job(j0), rng(j0, 0, it.J))),
                              ("count", Sol(k.h, k["self"]).store.n == Sol(k.h0, k["self"]).store.n),
                              ("collected-so-far", self.collected(k.h, k["self"], k["instance"], k.v("machines_operations"),
                                                                  k.h0.alloc, j0, k.i))]

        def l2(k):
            h0, h, s, I = k.h0, k.h, k["self"], k["instance"]
            S0, S = Sol(h0, s), Sol(h, s)
            return base(k) + [("count", S.store.n == S0.store.n + k.i),
                              ("all-collected", self.collected(h, s, I, k.v("machines_operations"), h0.alloc)),
                              ("constraints-so-far", machine_constraints(h, s, I, S0.store.n, k.i))]

        def l3(k):
            h0, h, s, I = k.h0, k.h, k["self"], k["instance"]
            S0, S = Sol(h0, s), Sol(h, s)
            it = Inst(h0, I)
            m0 = k.outer[-1]
            MO, IV, ops = k.v("machines_operations"), k.v("intervals"), k.v("operations")
            q = bv("q")
            o = z3.Select(h.get("$$mo_op", ops), q)
            iv = h.at(IV, q)
            return base(k) + [
                ("count", S.store.n == S0.store.n + m0),
                ("row", z3.And(ops == h.at(MO, m0), k.v("machine_id") == m0, rng(m0, 0, it.NM), IV > MO, IV < h.alloc,
                               h.len(IV) == k.i, k.n == h.len(ops))),
                ("all-collected", self.collected(h, s, I, MO, h0.alloc)),
                ("constraints-so-far", machine_constraints(h, s, I, S0.store.n, m0)),
                ("earlier-interval-lists-are-older", forall([bv("m")], imp(
                    rng(bv("m"), 0, m0), z3.Select(h.get("$$no_list", s), bv("m")) < IV),
                    patterns=[z3.Select(h.get("$$no_list", s), bv("m"))])),
                ("intervals-so-far", forall([q], imp(rng(q, 0, k.i), z3.And(
                    iv > MO, iv < h.alloc, ivpos(h, s, o) == q, ivop(h, IV, q) == o,
                    h.get("$iv_start", iv) == S.sv(o), h.get("$iv_size", iv) == it.dur(o), h.get("$iv_end", iv) == S.ev(o))),
                    patterns=[h.at(IV, q), z3.Select(h.get("$$mo_op", ops), q), ivop(h, IV, q)])),
            ]

        def mod_for(which):
            def mod(k):
                S = Sol(k.h0, k["self"])
                f = {n: [S.M] for n in MODEL_FIELDS}
                f.update({"$$iv_pos": [k["self"]], "$$mo_pos": [k["self"]], "$$no_list": [k["self"]], "$$iv_op": "ALL",
                          "$$mo_op": "ALL"})
                MO = k.envl["machines_operations"].t
                if which == "collect":       # the rows of MO grow; MO itself and older lists do not change
                    lists = lambda l: l > MO  # noqa: E731
                elif which == "machines":    # only lists created inside the loop (the interval lists)
                    A = k.hl.alloc
                    lists = lambda l: l >= A  # noqa: E731
                else:                        # the interval list of the current machine
                    IV = k.envl["intervals"].t
                    lists = lambda l: l == IV  # noqa: E731
                return Frame(fields=f, lists=lists, alloc_objects=NEW_OBJ_FIELDS + ["$type", "$$iv_op", "$$mo_op"],
                             alloc_lists=True)
            return mod
        return {0: LoopSpec("for job in instance.jobs", l0, mod_for("collect")),
                1: LoopSpec("for operation in job", l1, mod_for("collect")),
                2: LoopSpec("for (machine_id, operations) in enumerate(machines_operations)", l2, mod_for("machines")),
                3: LoopSpec("for ((start_var, end_var), duration) in operations", l3, mod_for("intervals"))}


# ---------------------------------------------------------------------------
# composition: the whole model
# ---------------------------------------------------------------------------
@register
class AddConstraints(_ModelStep):
    name = "ORToolsSolver._add_constraints"

    def requires(self, c):
        return _ModelStep.requires(self, c) + [non_flexible(c.h0, c["instance"])]

    def modifies(self, c):
        return AddMachineConstraints.modifies(self, c)

    _K = _ARITH + ["solver", "earlier-constraints-untouched", "same-model-and-variables", "one-constraint-per-successive-pair",
                   "one-constraint-per-machine", "objective-and-variables-untouched", "instance-untouched"]
    relevant_strict = {
        "job-precedence-constraints": _K + ["end-of-predecessor<=start-of-successor-for-every-pair-of-a-job"],
        "machine-no-overlap-constraints": _K + ["one-no-overlap-constraint-per-machine-over-exactly-the-intervals-of-its-operations"],
        "nothing-else-added": _K,
    }

    def ensures(self, c):
        h0, h, s, I = c.h0, c.h, c["self"], c["instance"]
        S0, S = Sol(h0, s), Sol(h, s)
        it = Inst(h0, I)
        n0 = S0.store.n
        return [("job-precedence-constraints", job_constraints(h, s, I, n0)),
                ("machine-no-overlap-constraints", machine_constraints(h, s, I, n0 + it.N - it.J)),
                ("nothing-else-added", S.store.n == n0 + it.N - it.J + it.NM),
                ("objective-and-variables-untouched", z3.And(h.get("$objective", S.M) == h0.get("$objective", S.M),
                                                             h.get("$nvars", S.M) == h0.get("$nvars", S.M)))] + self.kept(c)


def model_is_jssp(h, s, I, A0):
    """the constraint store of s.model is the disjunctive model of instance I, nothing more"""
    S = Sol(h, s)
    it = Inst(h, I)
    N, J, NM = it.N, it.J, it.NM
    return [
        ("a-new-model-solver-and-variable-map", z3.And(S.M >= A0, S.M < h.alloc, S.solver >= A0, S.solver < h.alloc,
                                                       S.solver != S.M, S.keys >= A0, S.keys < h.alloc,
                                                       h.get("$epoch", S.solver) == 0)),
        ("variables-and-end=start+duration", vars_created(h, s, I, 0, 0, I)),
        ("only-operations-have-variables", z3.And(h.len(S.keys) == N, only_ops_are_keys(h, s, I))),
        ("job-precedence-constraints", job_constraints(h, s, I, N)),
        ("machine-no-overlap-constraints", machine_constraints(h, s, I, 2 * N - J)),
        ("makespan=max-of-ends-minimised", objective_set(h, s, I, 2 * N - J + NM)),
        ("nothing-else-in-the-model", z3.And(S.store.n == 2 * N - J + NM + 1, h.get("$nvars", S.M) == 2 * N + 1)),
    ]


SOLVER_FIELDS = ["model", "solver", "_makespan"] + DICT_FIELDS
GHOST_SOLVER = ["$$iv_pos", "$$mo_pos", "$$no_list"]


def solver_frame(c, more=()):
    s = c["self"]
    f = {n: [s] for n in SOLVER_FIELDS + GHOST_SOLVER + list(more)}
    f.update({"$$iv_op": "ALL", "$$mo_op": "ALL"})
    return f


@register
class InitializeModel(Contract):
    name = "ORToolsSolver._initialize_model"
    properties = ("C03",)
    params = {"self": REF("ORToolsSolver"), "instance": REF("JobShopInstance")}

    def requires(self, c):
        h, s, I = c.h0, c["self"], c["instance"]
        return inst_pre(h, I) + [non_flexible(h, I), ("solver-object", z3.And(s > 0, s < h.alloc, I < h.alloc))]

    def modifies(self, c):
        return Frame(fields=solver_frame(c), alloc_objects=NEW_OBJ_FIELDS + ["$type", "$$iv_op", "$$mo_op"], alloc_lists=True)

    def ensures(self, c):
        return model_is_jssp(c.h, c["self"], c["instance"], c.h0.alloc)

    _KEEP = _ARITH + ["earlier-constraints-untouched", "same-model-and-variables", "same-model", "nothing-else-added",
                      "one-more-constraint", "one-constraint-per-operation", "objective-and-variables-untouched",
                      "solver-object", "instance-untouched"]
    _FRAME = ["earlier-constraints-untouched", "same-model-and-variables", "same-model", "nothing-else-added",
              "one-more-constraint", "one-constraint-per-operation", "objective-and-variables-untouched", "solver-object",
              "inst-refs", "inst-jobs", "instance-untouched", "inst-cum-at-least-one-per-job"]
    relevant_strict = {
        "variables-and-end=start+duration": _KEEP + ["two-variables-in-0..total-duration-and-end=start+duration-per-operation"],
        "only-operations-have-variables": _KEEP + ["only-operations-are-keys"],
        "job-precedence-constraints": _FRAME + ["job-precedence-constraints", "inst-index-bound"],
        "machine-no-overlap-constraints": _FRAME + ["machine-no-overlap-constraints", "inst-ops", "inst-machines",
                                                    "non-flexible-instance"],
        "makespan=max-of-ends-minimised": _KEEP + ["makespan-variable=max-of-all-end-variables-and-is-minimised"],
        "nothing-else-in-the-model": _KEEP,
    }


# ---------------------------------------------------------------------------
# solving: [TRUSTED] meaning of a reported solution
# ---------------------------------------------------------------------------
SolStatus = z3.Function("SolStatus", I, I, I)      # (solver, solve epoch) -> status code reported


def V(h, solver, v):
    return SolValue(solver, h.get("$epoch", solver), v)


@ext_method("CpSolver", "Solve", "solver.Solve(model) returns a status; when it is OPTIMAL or FEASIBLE, Value(v) satisfies every "
                                 "constraint of the model (EQ, LE, pairwise disjointness of the intervals of each no-overlap "
                                 "constraint and start + size == end for them, target = max of the list for max-equality) and "
                                 "the bounds of every variable of the model; when it is OPTIMAL no assignment satisfying the "
                                 "model has a smaller objective value (not used by any proof here)")
def _solve(eng, e, st, obj):
    out = []
    for s, pos, kw in _each(eng, e, st):
        if s.status != "run":
            out.append((s, None))
            continue
        solver, M = obj.t, to_int(pos[0])
        h = s.heap
        ep = h.get("$epoch", solver) + 1
        h = h.put("$epoch", solver, ep).put("$solved", solver, M)
        s.heap = h
        status = SolStatus(solver, ep)
        good = z3.Or(status == OPTIMAL, status == FEASIBLE)
        val = lambda v: SolValue(solver, ep, v)  # noqa: E731
        k, q1, q2, x = bv("sk"), bv("sq1"), bv("sq2"), bv("sv")
        ck, ca, cb, co = Store(h, M).rec(k)
        i1, i2 = h.at(ca, q1), h.at(ca, q2)
        ist, ien, isz = (lambda i: h.get("$iv_start", i)), (lambda i: h.get("$iv_end", i)), (lambda i: h.get("$iv_size", i))
        holds = z3.And(
            imp(ck == EQ, val(ca) == val(cb) + co),
            imp(ck == LE, val(ca) <= val(cb) + co),
            imp(ck == NOOVERLAP, z3.And(
                forall([q1, q2], imp(z3.And(0 <= q1, q1 < q2, q2 < h.len(ca)),
                                     z3.Or(val(ien(i1)) <= val(ist(i2)), val(ien(i2)) <= val(ist(i1)))),
                       patterns=[z3.MultiPattern(h.at(ca, q1), h.at(ca, q2))]),
                forall([q1], imp(rng(q1, 0, h.len(ca)), val(ist(i1)) + isz(i1) == val(ien(i1))), patterns=[h.at(ca, q1)]))),
            imp(ck == MAXEQ, z3.And(
                forall([q1], imp(rng(q1, 0, h.len(cb)), val(ca) >= val(h.at(cb, q1))), patterns=[h.at(cb, q1)]),
                imp(h.len(cb) > 0, z3.Exists([q1], z3.And(rng(q1, 0, h.len(cb)), val(ca) == val(h.at(cb, q1))))))))
        s.assume(imp(good, forall([k], imp(rng(k, 0, h.get("$ncons", M)), holds),
                                  patterns=[z3.Select(h.get("$$c_kind", M), k)])), "trusted:solution-satisfies-the-model")
        s.assume(imp(good, forall([x], imp(z3.And(x > 0, h.get("$vmodel", x) == M),
                                           z3.And(h.get("$lb", x) <= val(x), val(x) <= h.get("$ub", x))),
                                  patterns=[val(x)])), "trusted:solution-within-bounds")
        out.append((s, vint(status)))
    return out


@ext_method("CpSolver", "Value", "solver.Value(v) is the value of v in the solution found by the last Solve")
def _value(eng, e, st, obj):
    out = []
    for s, pos, kw in _each(eng, e, st):
        if s.status != "run":
            out.append((s, None))
            continue
        out.append((s, vint(V(s.heap, obj.t, to_int(pos[0])))))
    return out


def solution_ok(h, s, I):
    """what a reported solution means for the operations (derived in solve() from the model's content and the
    trusted meaning of Solve)"""
    S = Sol(h, s)
    it = Inst(h, I)
    val = lambda v: V(h, S.solver, v)  # noqa: E731
    j, p, j2, p2 = bv("j"), bv("p"), bv("j2"), bv("p2")
    o, o2 = it.op(j, p), it.op(j2, p2)
    dom = z3.And(rng(j, 0, it.J), rng(p, 0, it.L(j)))
    dom2 = z3.And(rng(j2, 0, it.J), rng(p2, 0, it.L(j2)))
    mk = h.get("_makespan", s)
    return [
        ("sol-end=start+duration-and-start>=0", forall([j, p], imp(dom, z3.And(
            val(S.sv(o)) >= 0, val(S.ev(o)) == val(S.sv(o)) + it.dur(o))), patterns=[it.op(j, p)])),
        ("sol-job-precedence", forall([j, p], imp(z3.And(dom, p >= 1), val(S.ev(it.op(j, p - 1))) <= val(S.sv(o))),
                                      patterns=[it.op(j, p)])),
        ("sol-machines-disjoint", forall([j, p, j2, p2], imp(
            z3.And(dom, dom2, o != o2, mach0(h, o) == mach0(h, o2)),
            z3.Or(val(S.ev(o)) <= val(S.sv(o2)), val(S.ev(o2)) <= val(S.sv(o)))),
            patterns=[z3.MultiPattern(it.op(j, p), it.op(j2, p2))])),
        ("sol-makespan-is-the-largest-end", z3.And(
            mk > 0, forall([j, p], imp(dom, val(mk) >= val(S.ev(o))), patterns=[it.op(j, p)]),
            z3.Exists([bv("kq")], z3.And(rng(bv("kq"), 0, h.len(S.keys)), val(mk) == val(S.ev(h.at(S.keys, bv("kq")))))))),
    ]


def vars_of_ops(h, s, I):
    S = Sol(h, s)
    return [("solver", solver_wf(h, s)), ("instance-is-older-than-the-model", z3.And(I < S.M, S.keys > I))] + all_vars(h, s, I)


# fields of the objects _create_schedule creates (ScheduledOperation, Schedule)
SCHEDULE_OBJ_FIELDS = ["operation", "start_time", "_machine_id", "instance", "_schedule", "metadata", "$$cumS", "$type", "$$us_op"]


def sched_pos(h, s, o):
    return z3.Select(h.get("$$sch_pos", s), o)


def schedule_of_solution(h, hs, s, I, r):
    """the Schedule object r (heap h) places every operation once, on its machine, at the start time the solution
    (solver state of heap hs) gives it; ghost witness sch_pos: operation -> index in its machine's list"""
    S = Sol(hs, s)
    it = Inst(hs, I)
    SC = h.get("_schedule", r)
    val = lambda v: V(hs, S.solver, v)  # noqa: E731
    j, p, m, q = bv("j"), bv("p"), bv("m"), bv("q")
    o = it.op(j, p)
    x = h.at(h.at(SC, mach0(hs, o)), sched_pos(h, s, o))
    y = h.at(h.at(SC, m), q)
    oy = h.get("operation", y)
    return z3.And(
        h.get("instance", r) == I, SC > 0, h.len(SC) == it.NM,
        forall([j, p], imp(z3.And(rng(j, 0, it.J), rng(p, 0, it.L(j))), z3.And(
            rng(sched_pos(h, s, o), 0, h.len(h.at(SC, mach0(hs, o)))), h.get("operation", x) == o)), patterns=[it.op(j, p)]),
        forall([m, q], imp(z3.And(rng(m, 0, it.NM), rng(q, 0, h.len(h.at(SC, m)))), z3.And(
            y > 0, it.is_op(oy), mach0(hs, oy) == m, h.get("_machine_id", y) == m, sched_pos(h, s, oy) == q,
            h.get("start_time", y) == val(S.sv(oy)))), patterns=[h.at(h.at(SC, m), q)]))


@register
class CreateSchedule(Contract):
    name = "ORToolsSolver._create_schedule"
    properties = ("C03",)
    params = {"self": REF("ORToolsSolver"), "instance": REF("JobShopInstance"), "metadata": ANY}
    ret = REF("Schedule")

    def requires(self, c):
        h, s, I = c.h0, c["self"], c["instance"]
        return inst_pre(h, I) + [non_flexible(h, I)] + vars_of_ops(h, s, I) + solution_ok(h, s, I)

    def modifies(self, c):
        return Frame(fields={"$$sch_pos": [c["self"]], "$$us_pos": [c["self"]], "$$us_op": "ALL"},
                     alloc_objects=SCHEDULE_OBJ_FIELDS, alloc_lists=True)

    def ensures(self, c):
        h0, h, s, I, r = c.h0, c.h, c["self"], c["instance"], c.result
        from .core import sched_valid
        return [("a-new-schedule", z3.And(r >= h0.alloc, r < h.alloc)),
                ("every-operation-once-on-its-machine-at-its-solution-start", schedule_of_solution(h, h0, s, I, r)),
                ("machine-lists-in-time-order-without-overlap", sched_valid(h, h.get("_schedule", r)))]


def _bad(status):
    return z3.Not(z3.Or(status == OPTIMAL, status == FEASIBLE))


@register
class Solve(Contract):
    name = "ORToolsSolver.solve"
    properties = ("C03",)
    params = {"self": REF("ORToolsSolver"), "instance": REF("JobShopInstance")}
    ret = REF("Schedule")

    def requires(self, c):
        h, s, I = c.h0, c["self"], c["instance"]
        return inst_pre(h, I) + [non_flexible(h, I), ("solver-object", z3.And(s > 0, s < h.alloc, I < h.alloc))]

    def raises(self, c):
        # prophecy variable: whether the CP-SAT call of this solve() will report neither OPTIMAL nor FEASIBLE (resolved
        # by the ghost statement after `status = self.solver.Solve(self.model)`)
        return [("NoSolutionFoundError", "cp-sat-reported-neither-optimal-nor-feasible", c.h0.get("$no_solution", c["self"]) != 0)]

    def exc_modifies(self, c, exc):
        return self.modifies(c)

    def modifies(self, c):
        return Frame(fields=solver_frame(c, ["$$sch_pos", "$$us_pos", "$reported_makespan", "$reported_status"]) | {"$$us_op": "ALL"},
                     alloc_objects=SCHEDULE_OBJ_FIELDS + NEW_OBJ_FIELDS + ["$$iv_op", "$$mo_op"], alloc_lists=True)

    @property
    def ghost_after(self):
        def resolve(c, st):
            # ghost assertion: what CpSolver.Solve was just called on is the freshly built disjunctive model of THIS instance
            h, s, I = st.heap, c["self"], c["instance"]
            S = Sol(h, s)
            c.eng.oblige(st, "solve-is-called-on-the-model-just-built:" + "the-solver's-own-model",
                         z3.And(h.get("$solved", S.solver) == S.M, h.get("$epoch", S.solver) == 1), "ghost-assert")
            c.eng.oblige(st, "model-solved:a-new-model-solver-and-variable-map",
                         z3.And(S.M >= c.h0.alloc, S.solver >= c.h0.alloc, S.keys >= c.h0.alloc), "ghost-assert")
            for n_, p_ in model_is_jssp(h, s, I, c.h0.alloc)[1:]:
                c.eng.oblige(st, "model-solved:" + n_, p_, "ghost-assert")
            st.assume((c.h0.get("$no_solution", c["self"]) != 0) == _bad(st.env["status"].t), "prophecy:no-solution")

        def reported(c, st):
            md = st.env["metadata"].t
            st.heap = st.heap.put("$reported_makespan", c["self"], to_int(md["makespan"])) \
                .put("$reported_status", c["self"], st.env["status"].t)
        return {"status = self.solver.Solve(self.model)": resolve,
                "metadata = {'status': 'optimal' if status == cp_model.OPTIMAL else 'feasible', 'elapsed_time': elapsed_time, "
                "'makespan': self.solver.Value(self._makespan), 'solved_by': 'ORToolsSolver'}": reported}

    _MODEL = ["a-new-model-solver-and-variable-map", "variables-and-end=start+duration", "only-operations-have-variables",
              "job-precedence-constraints", "machine-no-overlap-constraints", "makespan=max-of-ends-minimised",
              "nothing-else-in-the-model", "solver-object"]
    relevant_strict = dict.fromkeys(_MODEL, _MODEL + _ARITH + ["inst-ops", "inst-machines"])

    def ensures(self, c):
        h0, h, s, I, r = c.h0, c.h, c["self"], c["instance"], c.result
        from .core import sched_valid
        S = Sol(h, s)
        it = Inst(h0, I)
        SC = h.get("_schedule", r)
        val = lambda v: V(h, S.solver, v)  # noqa: E731
        j, p = bv("j"), bv("p")
        o = it.op(j, p)
        x = lambda jj, pp: h.at(h.at(SC, mach0(h0, it.op(jj, pp))), sched_pos(h, s, it.op(jj, pp)))  # noqa: E731
        end = lambda y: h.get("start_time", y) + it.dur(h.get("operation", y))  # noqa: E731
        rep = h.get("$reported_makespan", s)
        m, q = bv("m"), bv("q")
        y = h.at(h.at(SC, m), q)
        return [
            ("a-new-schedule", z3.And(r >= h0.alloc, r < h.alloc)),
            ("complete:every-operation-once-on-its-machine", schedule_of_solution(h, h, s, I, r)),
            ("machine-lists-in-time-order-without-overlap", sched_valid(h, SC)),
            ("job-order-respected-and-no-negative-start", forall([j, p], imp(
                z3.And(rng(j, 0, it.J), rng(p, 0, it.L(j))),
                z3.And(h.get("start_time", x(j, p)) >= 0, imp(p >= 1, end(x(j, p - 1)) <= h.get("start_time", x(j, p))))),
                patterns=[it.op(j, p)])),
            ("reported-makespan-is-the-latest-end", z3.And(
                forall([m, q], imp(z3.And(rng(m, 0, it.NM), rng(q, 0, h.len(h.at(SC, m)))), end(y) <= rep),
                       patterns=[h.at(h.at(SC, m), q)]),
                z3.Exists([m, q], z3.And(rng(m, 0, it.NM), rng(q, 0, h.len(h.at(SC, m))), end(y) == rep)))),
        ]


@register
class SolverCall(Contract):
    name = "ORToolsSolver.__call__"
    properties = ("C03",)
    params = Solve.params
    ret = REF("Schedule")

    def requires(self, c):
        return Solve.requires(self, c)

    def raises(self, c):
        return Solve.raises(self, c)

    def exc_modifies(self, c, exc):
        return Solve.modifies(self, c)

    def modifies(self, c):
        return Solve.modifies(self, c)

    def ensures(self, c):
        return Solve.ensures(self, c)


# ---------------------------------------------------------------------------
# _create_schedule: body
# ---------------------------------------------------------------------------
def _us(h, s):
    pos = lambda x: z3.Select(h.get("$$us_pos", s), x)  # noqa: E731
    opat = lambda r, t: z3.Select(h.get("$$us_op", r), t)  # noqa: E731
    return pos, opat


def placed(h, hs, s, I, US, A0, upto):
    """US[m] holds, in key order, one ScheduledOperation per operation of machine m among the first `upto` keys of the
    variable map, starting at the solution value of its start variable; us_pos / us_op are each other's inverse"""
    S = Sol(hs, s)
    it = Inst(hs, I)
    val = lambda v: V(hs, S.solver, v)  # noqa: E731
    pos, opat = _us(h, s)
    j, p, m, q = bv("j"), bv("p"), bv("m"), bv("q")
    o = it.op(j, p)
    row = lambda t: h.at(US, t)  # noqa: E731
    x = h.at(row(m), q)
    o2 = opat(row(m), q)
    return z3.And(
        h.len(US) == it.NM, US >= A0, US < h.alloc,
        forall([m], imp(rng(m, 0, it.NM), z3.And(row(m) > US, row(m) < h.alloc, h.len(row(m)) >= 0)), patterns=[h.at(US, m)]),
        forall([m, bv("m2")], imp(z3.And(rng(m, 0, it.NM), rng(bv("m2"), 0, it.NM), row(m) == row(bv("m2"))), m == bv("m2")),
               patterns=[z3.MultiPattern(h.at(US, m), h.at(US, bv("m2")))]),
        forall([j, p], imp(z3.And(rng(j, 0, it.J), rng(p, 0, it.L(j)), it.cumL(j) + p < upto), z3.And(
            rng(pos(o), 0, h.len(row(mach0(hs, o)))), opat(row(mach0(hs, o)), pos(o)) == o)), patterns=[it.op(j, p)]),
        forall([m, q], imp(z3.And(rng(m, 0, it.NM), rng(q, 0, h.len(row(m)))), z3.And(
            it.is_op(o2), mach0(hs, o2) == m, pos(o2) == q, it.cumL(it.jid(o2)) + it.pos(o2) < upto,
            x > US, x < h.alloc, h.get("operation", x) == o2, h.get("_machine_id", x) == m,
            h.get("start_time", x) == val(S.sv(o2)))), patterns=[opat(row(m), q), h.at(row(m), q)]))


def _cs_loops(self):
    def l0(k):
        h0, h, s, I = k.h0, k.h, k["self"], k["instance"]
        return [("placed-so-far", placed(h, h0, s, I, k.v("unsorted_schedule"), h0.alloc, k.i)),
                ("all-keys", k.n == h0.len(Sol(h0, s).keys))]

    def mod(k):
        US = k.envl["unsorted_schedule"].t
        return Frame(fields={"$$us_pos": [k["self"]], "$$us_op": "ALL"}, lists=lambda l: l > US,
                     alloc_objects=["operation", "start_time", "_machine_id", "$type", "$$us_op"], alloc_lists=True)
    return {0: LoopSpec("for (operation, start_time) in operations_start.items()", l0, mod)}


def _cs_ghost_after(self):
    def appended(c, st):
        h, s = st.heap, c["self"]
        o = st.env["operation"].t
        row = h.at(st.env["unsorted_schedule"], mach0(h, o))
        n = h.len((row, "c"))
        st.heap = h.put("$$us_pos", s, z3.Store(h.get("$$us_pos", s), o, n - 1)) \
            .put("$$us_op", row, z3.Store(h.get("$$us_op", row), n - 1, o))

    def sorted_done(c, st):
        # witness of `every operation is somewhere in the schedule`: its index after sorting = inverse permutation of
        # its index before
        srt = st.aux.get("last_sort_rows")
        if srt is None:
            return
        perm, inv, base = srt
        h, s = st.heap, c["self"]
        A = fresh("schpos", z3.ArraySort(I, I))
        x = bv("sx")
        pos, _ = _us(h, s)
        st.assume(forall([x], z3.Select(A, x) == inv(mach0(h, x), pos(x)), patterns=[z3.Select(A, x)]),
                  "ghost:position-after-sorting")
        st.heap = h.put("$$sch_pos", s, A)
    return {"unsorted_schedule[operation.machine_id].append(ScheduledOperation(operation, start_time, operation.machine_id))": appended,
            "sorted_schedule = [sorted(scheduled_operation, key=lambda x: (x.start_time, x.end_time)) for scheduled_operation in "
            "unsorted_schedule]": sorted_done}


CreateSchedule.relevant_strict = {"loop0:inv-entry:placed-so-far": ["inst-refs", "inst-index-bound", "ghost-num-machines", "solver"]}
CreateSchedule.loops = property(_cs_loops)
CreateSchedule.ghost_after = property(_cs_ghost_after)
