"""C03 (deductive part): the CP-SAT model ORToolsSolver builds IS the disjunctive formulation of the instance,
and the schedule it reconstructs from a solution is accepted by Schedule's validation.

OR-Tools is used through [TRUSTED] contracts (registered below).  A CpModel carries a ghost CONSTRAINT STORE, a
sequence of records (kind, a, b, offset) in the order the constraints were added:

    EQ         a == b + offset              model.Add(a == b + offset)
    LE         a <= b + offset              model.Add(a <= b)
    NOOVERLAP  a = list of interval vars    model.AddNoOverlap(intervals)
    MAXEQ      a == max(b), b a list        model.AddMaxEquality(a, b)

plus the objective variable (Minimize) and, per IntVar, its bounds and creation index.  The contracts of the
model-building functions say WHICH records the store contains after they ran (all of them, by index, and how
many): the textbook model -- end = start + duration per operation, end(pred) <= start(succ) inside a job, one
no-overlap constraint per machine over exactly the intervals (start, duration, end) of its operations, makespan =
max of all ends, minimised; every variable in [0, total duration]; a NEW model, solver and variable map per solve.

`CpSolver.Solve(model)`: when it reports OPTIMAL or FEASIBLE, the values `Value(v)` satisfy every record of the
store and the variable bounds (that is what lets `_create_schedule` be verified not to raise); when it reports
OPTIMAL no assignment satisfying the store has a smaller objective (not expressible here: stays a trusted
sentence, and the bounded twin compares with brute force).
"""
from __future__ import annotations

import z3

from pyvc.engine import Contract, Frame, LoopSpec, OutsideSubset
from pyvc.library import MODULE_CONSTANTS, ext_function, ext_method
from pyvc.values import ANY, BOOL, EXT, INT, LIST, OPT, REF, STR, TUPLE, Ty, VNONE, Val, forall, fresh, to_int, vint

from .core import register
from .instance import cumT, duration_sums_defined
from .spec import FIELD_TYPES, Inst, bv, imp, rng, valid_instance

I = z3.IntSort()
EQ, LE, NOOVERLAP, MAXEQ = 1, 2, 3, 4
OPTIMAL, FEASIBLE = 4, 2            # cp_model.OPTIMAL / FEASIBLE (only their being two distinct constants matters)
SolValue = z3.Function("SolValue", I, I, I, I)    # (solver, solve epoch, variable) -> value in the solution found

FIELD_TYPES.update({
    "ORToolsSolver.log_search_progress": BOOL,
    "ORToolsSolver.max_time_in_seconds": OPT(INT),
    "ORToolsSolver._makespan": EXT("IntVar"),
    "ORToolsSolver.model": EXT("CpModel"),
    "ORToolsSolver.solver": EXT("CpSolver"),
    "ORToolsSolver._operations_start": Ty("objdict", "Operation", (EXT("IntVar"), EXT("IntVar"))),
})

MODEL_FIELDS = ["$ncons", "$$c_kind", "$$c_a", "$$c_b", "$$c_off", "$nvars", "$objective"]
VAR_FIELDS = ["$lb", "$ub", "$vmodel", "$vidx"]
EXPR_FIELDS = ["$le_var", "$le_off", "$b_kind", "$b_lhs", "$b_rvar", "$b_roff", "$iv_start", "$iv_size", "$iv_end"]
DICT_FIELDS = ["_operations_start#keys", "$$_operations_start#has", "$$_operations_start#v0", "$$_operations_start#v1"]
NEW_OBJ_FIELDS = VAR_FIELDS + EXPR_FIELDS + MODEL_FIELDS + ["$epoch", "$solved", "tup#0", "tup#1"]

MODULE_CONSTANTS["cp_model.OPTIMAL"] = lambda: vint(OPTIMAL)
MODULE_CONSTANTS["cp_model.FEASIBLE"] = lambda: vint(FEASIBLE)


class Store:
    """terms of the constraint store of model M in heap h"""

    def __init__(self, h, M):
        self.h, self.M = h, M
        self.n = h.get("$ncons", M)

    def rec(self, k):
        h, M = self.h, self.M
        return tuple(z3.Select(h.get(f, M), k) for f in ("$$c_kind", "$$c_a", "$$c_b", "$$c_off"))

    def is_rec(self, k, kind, a, b=None, off=None):
        ck, ca, cb, co = self.rec(k)
        out = [ck == kind, ca == a]
        if b is not None:
            out.append(cb == b)
        if off is not None:
            out.append(co == off)
        return z3.And(out)


def _append(h, M, kind, a, b, off):
    n = h.get("$ncons", M)
    for f, v in (("$$c_kind", z3.IntVal(kind)), ("$$c_a", a), ("$$c_b", b), ("$$c_off", off)):
        h = h.put(f, M, z3.Store(h.get(f, M), n, v))
    return h.put("$ncons", M, n + 1)


def _each(eng, e, st):
    for s, pos, kw in eng.eval_args(e, st):
        yield s, pos, kw


# -- construction ----------------------------------------------------------------------------------------------
@ext_function("cp_model.CpModel", "CpModel() is a new model with no variables, no constraints and no objective")
def _new_model(eng, e, st):
    r = eng.alloc_ref(st)
    st.heap = st.heap.put("$ncons", r, z3.IntVal(0)).put("$nvars", r, z3.IntVal(0)).put("$objective", r, z3.IntVal(0))
    return [(st, Val(EXT("CpModel"), r))]


@ext_function("cp_model.CpSolver", "CpSolver() is a new solver object with default parameters")
def _new_solver(eng, e, st):
    r = eng.alloc_ref(st)
    st.heap = st.heap.put("$epoch", r, z3.IntVal(0)).put("$solved", r, z3.IntVal(0))
    return [(st, Val(EXT("CpSolver"), r))]


@ext_method("CpSolver", ".parameters", "CpSolver.parameters: the solver's parameter object")
def _params(eng, node, st, obj):
    return [(st, Val(EXT("SolverParameters"), obj.t))]


def _set_param(eng, node, st, obj, v):
    return [st]     # search parameters do not change what a reported solution satisfies


ext_method("SolverParameters", "=log_search_progress", "logging does not change the meaning of a reported status")(_set_param)
ext_method("SolverParameters", "=max_time_in_seconds", "a time limit may only turn OPTIMAL/FEASIBLE into FEASIBLE/UNKNOWN; what "
                                                      "a reported OPTIMAL or FEASIBLE solution satisfies is unchanged")(_set_param)


@ext_method("CpModel", "NewIntVar", "model.NewIntVar(lb, ub, name) is a new integer variable of that model with domain [lb, ub], "
                                    "different from every earlier variable")
def _new_int_var(eng, e, st, obj):
    out = []
    for s, pos, kw in _each(eng, e, st):
        if s.status != "run":
            out.append((s, None))
            continue
        M = obj.t
        v = eng.alloc_ref(s)
        h = s.heap
        nv = h.get("$nvars", M)
        s.heap = h.put("$lb", v, to_int(pos[0])).put("$ub", v, to_int(pos[1])).put("$vmodel", v, M) \
            .put("$vidx", v, nv).put("$nvars", M, nv + 1)
        out.append((s, Val(EXT("IntVar"), v)))
    return out


@ext_method("IntVar", "__add__", "IntVar + int is the linear expression `variable + constant`")
def _var_add(eng, node, st, a, b):
    var, k = (a, b) if a.ty.kind == "ext" else (b, a)
    if k.ty.kind not in ("int", "bool"):
        raise OutsideSubset("IntVar + something that is not an integer")
    r = eng.alloc_ref(st)
    st.heap = st.heap.put("$le_var", r, var.t).put("$le_off", r, eng.num(k))
    return [(st, Val(EXT("LinearExpr"), r))]


def _lin(h, v: Val):
    """(variable, offset) of an IntVar or `IntVar + constant`"""
    if v.ty.kind == "ext" and v.ty.arg == "IntVar":
        return v.t, z3.IntVal(0)
    if v.ty.kind == "ext" and v.ty.arg == "LinearExpr":
        return h.get("$le_var", v.t), h.get("$le_off", v.t)
    raise OutsideSubset(f"{v.ty} in a CP-SAT linear constraint")


def _cmp(eng, e, st, op, a, b):
    """`x == y + c`, `x <= y`: a bounded linear expression object (nothing is added to the model yet)"""
    if op not in ("Eq", "LtE"):
        raise OutsideSubset(f"CP-SAT comparison {op} not covered by the trusted contract")
    h = st.heap
    if not (a.ty.kind == "ext" and a.ty.arg == "IntVar"):
        raise OutsideSubset("left-hand side of a CP-SAT comparison is not a variable")
    rv, ro = _lin(h, b)
    r = eng.alloc_ref(st)
    st.heap = st.heap.put("$b_kind", r, z3.IntVal(EQ if op == "Eq" else LE)).put("$b_lhs", r, a.t) \
        .put("$b_rvar", r, rv).put("$b_roff", r, ro)
    return [(st, Val(EXT("BoundedLinearExpression"), r))]


ext_method("IntVar", "__cmp__", "`var == expr` / `var <= expr` build the linear constraint expression of that meaning")(_cmp)
ext_method("LinearExpr", "__cmp__", "comparison of linear expressions builds a constraint expression")(_cmp)


@ext_method("CpModel", "Add", "model.Add(bounded linear expression) appends exactly that constraint to the model")
def _add(eng, e, st, obj):
    out = []
    for s, pos, kw in _each(eng, e, st):
        if s.status != "run":
            out.append((s, None))
            continue
        b = pos[0]
        if not (b.ty.kind == "ext" and b.ty.arg == "BoundedLinearExpression"):
            raise OutsideSubset("model.Add of something that is not a comparison of variables")
        h = s.heap
        # (the kind is a constant on every path the code takes: EQ or LE)
        kind = h.get("$b_kind", b.t)
        n = h.get("$ncons", obj.t)
        M = obj.t
        for f, v in (("$$c_kind", kind), ("$$c_a", h.get("$b_lhs", b.t)), ("$$c_b", h.get("$b_rvar", b.t)),
                     ("$$c_off", h.get("$b_roff", b.t))):
            h = h.put(f, M, z3.Store(h.get(f, M), n, v))
        s.heap = h.put("$ncons", M, n + 1)
        out.append((s, VNONE))
    return out


@ext_method("CpModel", "NewIntervalVar", "model.NewIntervalVar(start, size, end, name) is a new interval with those three; the "
                                         "model also enforces start + size == end for it")
def _new_interval(eng, e, st, obj):
    out = []
    for s, pos, kw in _each(eng, e, st):
        if s.status != "run":
            out.append((s, None))
            continue
        if len(pos) < 3 or pos[1].ty.kind not in ("int", "bool"):
            raise OutsideSubset("NewIntervalVar with a size that is not an integer")
        r = eng.alloc_ref(s)
        s.heap = s.heap.put("$iv_start", r, to_int(pos[0])).put("$iv_size", r, eng.num(pos[1])).put("$iv_end", r, to_int(pos[2]))
        out.append((s, Val(EXT("IntervalVar"), r)))
    return out


@ext_method("CpModel", "AddNoOverlap", "model.AddNoOverlap(intervals) appends one constraint: the intervals of the list (as it is "
                                       "at the call) are pairwise disjoint in time")
def _add_no_overlap(eng, e, st, obj):
    out = []
    for s, pos, kw in _each(eng, e, st):
        if s.status == "run":
            s.heap = _append(s.heap, obj.t, NOOVERLAP, to_int(pos[0]), z3.IntVal(0), z3.IntVal(0))
        out.append((s, VNONE if s.status == "run" else None))
    return out


@ext_method("CpModel", "AddMaxEquality", "model.AddMaxEquality(target, variables) appends: target == max(variables)")
def _add_max_eq(eng, e, st, obj):
    out = []
    for s, pos, kw in _each(eng, e, st):
        if s.status == "run":
            s.heap = _append(s.heap, obj.t, MAXEQ, to_int(pos[0]), to_int(pos[1]), z3.IntVal(0))
        out.append((s, VNONE if s.status == "run" else None))
    return out


@ext_method("CpModel", "Minimize", "model.Minimize(v) makes v the objective to minimise")
def _minimize(eng, e, st, obj):
    out = []
    for s, pos, kw in _each(eng, e, st):
        if s.status == "run":
            s.heap = s.heap.put("$objective", obj.t, to_int(pos[0]))
        out.append((s, VNONE if s.status == "run" else None))
    return out


# ---------------------------------------------------------------------------
# the variable map of the solver object
# ---------------------------------------------------------------------------
class Sol:
    """terms of an ORToolsSolver s in heap h"""

    def __init__(self, h, s):
        self.h, self.s = h, s
        self.M = h.get("model", s)
        self.solver = h.get("solver", s)
        self.keys = h.get("_operations_start#keys", s)
        self.store = Store(h, self.M)

    def has(self, o):
        return z3.Select(self.h.get("$$_operations_start#has", self.s), o) != 0

    def sv(self, o):
        return z3.Select(self.h.get("$$_operations_start#v0", self.s), o)

    def ev(self, o):
        return z3.Select(self.h.get("$$_operations_start#v1", self.s), o)


def total(h, I):
    return cumT(h, I, Inst(h, I).J)


def var_ok(h, M, v, T, lower):
    return z3.And(v > lower, v < h.alloc, h.get("$lb", v) == 0, h.get("$ub", v) == T, h.get("$vmodel", v) == M)


def vars_created(h, s, I, n0, nv0, lower, upto_job=None, upto_pos=None):
    """operations (j, p) lexicographically before (upto_job, upto_pos) [all if None] have their two variables in
    [0, T], created in job-major order, are the keys of the map in that order, and record n0 + id is
    `end == start + duration`"""
    S = Sol(h, s)
    it = Inst(h, I)
    j, p = bv("j"), bv("p")
    o = it.op(j, p)
    dom = z3.And(rng(j, 0, it.J), rng(p, 0, it.L(j)))
    if upto_job is not None:
        dom = z3.And(dom, j < upto_job if upto_pos is None else z3.Or(j < upto_job, z3.And(j == upto_job, p < upto_pos)))
    k = it.cumL(j) + p
    T = total(h, I)
    return forall([j, p], imp(dom, z3.And(
        S.has(o), h.at(S.keys, k) == o,
        var_ok(h, S.M, S.sv(o), T, lower), var_ok(h, S.M, S.ev(o), T, lower),
        h.get("$vidx", S.sv(o)) == nv0 + 2 * k, h.get("$vidx", S.ev(o)) == nv0 + 2 * k + 1,
        S.store.is_rec(n0 + k, EQ, S.ev(o), S.sv(o), it.dur(o)))), patterns=[it.op(j, p)])


def only_ops_are_keys(h, s, I):
    S = Sol(h, s)
    x = bv("kx")
    return forall([x], imp(S.has(x), Inst(h, I).is_op(x)), patterns=[z3.Select(h.get("$$_operations_start#has", s), x)])


def records_before_unchanged(h0, h, M, n0):
    k = bv("ck")
    return z3.And([forall([k], imp(rng(k, 0, n0), z3.Select(h.get(f, M), k) == z3.Select(h0.get(f, M), k)),
                          patterns=[z3.Select(h.get(f, M), k)]) for f in ("$$c_kind", "$$c_a", "$$c_b", "$$c_off")])


def solver_wf(h, s):
    S = Sol(h, s)
    return z3.And(s > 0, s < h.alloc, S.M > 0, S.M < h.alloc, S.keys > 0, S.keys < h.alloc, S.store.n >= 0,
                  h.get("$nvars", S.M) >= 0)


def inst_pre(h, I):
    it = Inst(h, I)
    j, p_, j2_ = bv("j"), bv("p"), bv("j2")
    t_op, t_cum = it.op(j, p_), it.cumL(j2_)      # (kept alive while the pattern is built)
    order_pattern = z3.MultiPattern(t_op, t_cum)
    # (a consequence, by induction, of cumL's defining equations and `every job has an operation`)
    return valid_instance(h, I) + duration_sums_defined(h, I) + [
        ("inst-cum-at-least-one-per-job", forall([j], imp(z3.And(0 <= j, j <= it.J), it.cumL(j) >= j), patterns=[it.cumL(j)])),
        ("inst-cum-minus-index-monotone", forall([j, bv("p")], imp(z3.And(0 <= j, j <= bv("p"), bv("p") <= it.J),
                                                                   it.cumL(j) - j <= it.cumL(bv("p")) - bv("p")))),
        # the same two facts in the form the index arithmetic uses them: operation (j, p) comes before job j2 > j
        ("inst-index-order", forall([j, bv("p"), bv("j2")], imp(
            z3.And(0 <= j, j < bv("j2"), bv("j2") <= it.J, 0 <= bv("p"), bv("p") < it.L(j)),
            z3.And(it.cumL(j) + bv("p") < it.cumL(bv("j2")), it.cumL(j) + bv("p") - j <= it.cumL(bv("j2")) - bv("j2"))),
            patterns=[order_pattern]))]


def model_frame(c, h=None):
    h = h or c.h0
    s = c["self"]
    S = Sol(h, s)
    f = {n: [S.M] for n in MODEL_FIELDS}
    f.update({n: [s] for n in DICT_FIELDS})
    return f


@register
class CreateVariables(Contract):
    name = "ORToolsSolver._create_variables"
    properties = ("C03",)
    params = {"self": REF("ORToolsSolver"), "instance": REF("JobShopInstance")}

    def requires(self, c):
        h, s, I = c.h0, c["self"], c["instance"]
        S = Sol(h, s)
        x = bv("kx")
        return inst_pre(h, I) + [
            ("solver", solver_wf(h, s)),
            ("instance-is-older-than-the-model", z3.And(I < S.M, S.keys > I)),
            ("variable-map-empty", z3.And(h.len(S.keys) == 0, forall([x], z3.Not(S.has(x)),
                                                                      patterns=[z3.Select(h.get("$$_operations_start#has", s), x)])))]

    def modifies(self, c):
        S = Sol(c.h0, c["self"])
        return Frame(fields=model_frame(c), lists=[S.keys], alloc_objects=NEW_OBJ_FIELDS + ["$type"], alloc_lists=True)

    def ensures(self, c):
        h0, h, s, I = c.h0, c.h, c["self"], c["instance"]
        S0, S = Sol(h0, s), Sol(h, s)
        it = Inst(h0, I)
        return [
            ("two-variables-in-0..total-duration-and-end=start+duration-per-operation",
             vars_created(h, s, I, S0.store.n, h0.get("$nvars", S0.M), S0.M)),
            ("one-constraint-per-operation", z3.And(S.store.n == S0.store.n + it.N, h.len(S.keys) == it.N,
                                                    h.get("$nvars", S.M) == h0.get("$nvars", S0.M) + 2 * it.N)),
            ("only-operations-are-keys", only_ops_are_keys(h, s, I)),
            ("earlier-constraints-untouched", records_before_unchanged(h0, h, S0.M, S0.store.n)),
            ("same-model", z3.And(S.M == S0.M, S.keys == S0.keys, h.get("$objective", S.M) == h0.get("$objective", S.M))),
        ]

    @property
    def loops(self):
        def common(k, j, p):
            h0, h, s, I = k.h0, k.h, k["self"], k["instance"]
            S0, S = Sol(h0, s), Sol(h, s)
            it = Inst(h0, I)
            done = it.cumL(j) + (p if p is not None else 0)
            return [
                ("same-model", z3.And(S.M == S0.M, S.keys == S0.keys, h.get("$objective", S.M) == h0.get("$objective", S.M))),
                ("created-so-far", vars_created(h, s, I, S0.store.n, h0.get("$nvars", S0.M), S0.M, j, p)),
                ("counts", z3.And(S.store.n == S0.store.n + done, h.len(S.keys) == done,
                                  h.get("$nvars", S.M) == h0.get("$nvars", S0.M) + 2 * done)),
                ("only-operations-are-keys", only_ops_are_keys(h, s, I)),
                ("keys-so-far-only", _keys_before(h, s, I, j, p)),
                ("earlier-constraints-untouched", records_before_unchanged(h0, h, S0.M, S0.store.n)),
            ]

        def outer(k):
            return common(k, k.i, None)

        def inner(k):
            it = Inst(k.h0, k["instance"])
            j0 = k.outer[-1]
            return [("job", z3.And(k.v("job") == it.job(j0), rng(j0, 0, it.J)))] + common(k, j0, k.i)

        def mod(k):
            S = Sol(k.h0, k["self"])
            f = {n: [S.M] for n in MODEL_FIELDS}
            f.update({n: [k["self"]] for n in DICT_FIELDS})
            return Frame(fields=f, lists=[S.keys], alloc_objects=NEW_OBJ_FIELDS + ["$type"], alloc_lists=True)
        return {0: LoopSpec("for job in instance.jobs", outer, mod), 1: LoopSpec("for operation in job", inner, mod)}


def _keys_before(h, s, I, upto_job, upto_pos):
    """an operation is a key only if it lies before (upto_job, upto_pos)"""
    S = Sol(h, s)
    it = Inst(h, I)
    x = bv("kx")
    before = it.jid(x) < upto_job if upto_pos is None else z3.Or(it.jid(x) < upto_job,
                                                                 z3.And(it.jid(x) == upto_job, it.pos(x) < upto_pos))
    return forall([x], imp(S.has(x), before), patterns=[z3.Select(h.get("$$_operations_start#has", s), x)])


# ---------------------------------------------------------------------------
# job precedence, objective
# ---------------------------------------------------------------------------
def all_vars(h, s, I, nv0=None):
    """every operation has its two variables (what the later model-building steps rely on)"""
    S = Sol(h, s)
    it = Inst(h, I)
    j, p = bv("j"), bv("p")
    o = it.op(j, p)
    T = total(h, I)
    k = it.cumL(j) + p
    body = [S.has(o), h.at(S.keys, k) == o, var_ok(h, S.M, S.sv(o), T, I), var_ok(h, S.M, S.ev(o), T, I),
            h.get("$vidx", S.sv(o)) != h.get("$vidx", S.ev(o))]
    return [("every-operation-has-its-variables", forall([j, p], imp(z3.And(rng(j, 0, it.J), rng(p, 0, it.L(j))),
                                                                     z3.And(body)), patterns=[it.op(j, p)])),
            ("keys-are-the-operations", z3.And(h.len(S.keys) == it.N, only_ops_are_keys(h, s, I)))]


def job_constraints(h, s, I, n1, upto_job=None, upto_pos=None):
    """record n1 + cumL(j) - j + p - 1 is end(j, p-1) <= start(j, p), for 1 <= p < L(j)"""
    S = Sol(h, s)
    it = Inst(h, I)
    j, p = bv("j"), bv("p")
    dom = z3.And(rng(j, 0, it.J), rng(p, 1, it.L(j)))
    if upto_job is not None:
        dom = z3.And(dom, j < upto_job if upto_pos is None else z3.Or(j < upto_job, z3.And(j == upto_job, p < upto_pos)))
    k = n1 + it.cumL(j) - j + p - 1
    return forall([j, p], imp(dom, S.store.is_rec(k, LE, S.ev(it.op(j, p - 1)), S.sv(it.op(j, p)), 0)),
                  patterns=[it.op(j, p)])


class _ModelStep(Contract):
    properties = ("C03",)
    params = {"self": REF("ORToolsSolver"), "instance": REF("JobShopInstance")}

    def requires(self, c):
        h, s, I = c.h0, c["self"], c["instance"]
        S = Sol(h, s)
        return inst_pre(h, I) + [("solver", solver_wf(h, s)), ("instance-is-older-than-the-model", z3.And(I < S.M, S.keys > I))] \
            + all_vars(h, s, I)

    def modifies(self, c):
        S = Sol(c.h0, c["self"])
        return Frame(fields={n: [S.M] for n in MODEL_FIELDS}, alloc_objects=NEW_OBJ_FIELDS + ["$type"], alloc_lists=True)

    def kept(self, c):
        h0, h, s = c.h0, c.h, c["self"]
        S0, S = Sol(h0, s), Sol(h, s)
        return [("earlier-constraints-untouched", records_before_unchanged(h0, h, S0.M, S0.store.n)),
                ("same-model-and-variables", z3.And(S.M == S0.M, S.keys == S0.keys,
                                                    h.get("$nvars", S.M) >= h0.get("$nvars", S.M)))]


_ARITH = ["inst-refs", "inst-jobs", "inst-cum", "inst-cum-at-least-one-per-job", "inst-index-order"]


@register
class AddJobConstraints(_ModelStep):
    name = "ORToolsSolver._add_job_constraints"
    _LOOP = _ARITH + ["added-so-far", "count", "job", "same-model", "earlier-constraints-untouched", "solver"]
    relevant_strict = {"added-so-far": _LOOP, "count": _LOOP, "earlier-constraints-untouched": _LOOP,
                       "end-of-predecessor<=start-of-successor-for-every-pair-of-a-job": _LOOP,
                       "one-constraint-per-successive-pair": _LOOP}

    def ensures(self, c):
        h0, h, s, I = c.h0, c.h, c["self"], c["instance"]
        S0, S = Sol(h0, s), Sol(h, s)
        it = Inst(h0, I)
        return [("end-of-predecessor<=start-of-successor-for-every-pair-of-a-job", job_constraints(h, s, I, S0.store.n)),
                ("one-constraint-per-successive-pair", S.store.n == S0.store.n + it.N - it.J),
                ("objective-and-variables-untouched", z3.And(h.get("$objective", S.M) == h0.get("$objective", S.M),
                                                             h.get("$nvars", S.M) == h0.get("$nvars", S.M)))] + self.kept(c)

    @property
    def loops(self):
        def common(k, j, p):
            h0, h, s, I = k.h0, k.h, k["self"], k["instance"]
            S0, S = Sol(h0, s), Sol(h, s)
            it = Inst(h0, I)
            done = it.cumL(j) - j + (p - 1 if p is not None else 0)
            return [("same-model", z3.And(S.M == S0.M, h.get("$objective", S.M) == h0.get("$objective", S.M),
                                          h.get("$nvars", S.M) == h0.get("$nvars", S.M))),
                    ("added-so-far", job_constraints(h, s, I, S0.store.n, j, p)),
                    ("count", S.store.n == S0.store.n + done),
                    ("earlier-constraints-untouched", records_before_unchanged(h0, h, S0.M, S0.store.n))]

        def outer(k):
            return common(k, k.i, None)

        def inner(k):
            it = Inst(k.h0, k["instance"])
            j0 = k.outer[-1]
            return [("job", z3.And(k.v("job") == it.job(j0), rng(j0, 0, it.J), k.n == it.L(j0) - 1))] + common(k, j0, k.i + 1)

        def mod(k):
            S = Sol(k.h0, k["self"])
            return Frame(fields={n: [S.M] for n in MODEL_FIELDS}, alloc_objects=NEW_OBJ_FIELDS + ["$type"], alloc_lists=True)
        return {0: LoopSpec("for job in instance.jobs", outer, mod),
                1: LoopSpec("for position in range(1, len(job))", inner, mod)}


def objective_set(h, s, I, n3):
    S = Sol(h, s)
    it = Inst(h, I)
    mk = h.get("_makespan", s)
    ck, ca, cb, co = S.store.rec(n3)
    q = bv("eq")
    T = total(h, I)
    return z3.And(
        var_ok(h, S.M, mk, T, I), ck == MAXEQ, ca == mk, cb > 0, cb < h.alloc, h.len(cb) == it.N,
        forall([q], imp(rng(q, 0, it.N), h.at(cb, q) == S.ev(h.at(S.keys, q))), patterns=[h.at(cb, q)]),
        h.get("$objective", S.M) == mk)


@register
class SetObjective(_ModelStep):
    name = "ORToolsSolver._set_objective"

    def modifies(self, c):
        fr = _ModelStep.modifies(self, c)
        fr.fields["_makespan"] = [c["self"]]
        return fr

    def ensures(self, c):
        h0, h, s, I = c.h0, c.h, c["self"], c["instance"]
        S0, S = Sol(h0, s), Sol(h, s)
        return [("makespan-variable=max-of-all-end-variables-and-is-minimised", objective_set(h, s, I, S0.store.n)),
                ("one-more-constraint", S.store.n == S0.store.n + 1)] + self.kept(c)
