"""C20 (deductive part, strings): frame files are loaded in the order they were saved.

The two sides are EXTRACTED from the real source on every run:

* the file name written by `_save_frame(figure, frames_dir, number)`: the f-string passed to `figure.savefig`,
  i.e. `name(i)` as an SMT string term built from its literal pieces and `{number:0Nd}`;
* the order `_load_images` reads the directory in: `sorted(os.listdir(frames_dir)[, key=...])`, i.e. the sort key
  `key(s)` obtained by symbolically evaluating the key lambda and the local function it calls.

Obligation (for ALL frame numbers, no bound):   1 <= i < j  ==>  key(name(i)) < key(name(j))
(strictly: the sorted order is then exactly the numeric order, whatever else `sorted` does with ties).
Discharged by z3's and cvc5's string solvers.  What the extraction assumes (TRUSTED, stated in the evidence):
`"".join(c for c in s if c.isdigit())` distributes over concatenation and keeps exactly the decimal digits;
`format(i, "0Nd")` for i >= 0 is str(i) left-padded with "0" to width N; int(s) of a non-empty digit string is its
decimal value; os.listdir returns the base names of the files written (no other files in the directory); python
compares tuples lexicographically and strings by code point.
A change of shape the extractor does not recognise is reported as drift (the bounded twin decides).
"""
from __future__ import annotations

import ast
import os

import z3

from pyvc.engine import OutsideSubset
from pyvc.frontend import REPO

from .lemmas import lemma

FILE = "job_shop_lib/visualization/_gantt_chart_video_and_gif_creation.py"
S = z3.StringSort()


def _func(tree, name):
    for n in ast.walk(tree):
        if isinstance(n, ast.FunctionDef) and n.name == name:
            return n
    raise OutsideSubset(f"drift: function {name} not found in {FILE}")


def _pad(i, width):
    s = z3.IntToStr(i)
    if width <= 1:
        return s
    out = s
    for k in range(1, width):                      # k zeros when len(s) == width - k
        out = z3.If(z3.Length(s) == width - k, z3.Concat(z3.StringVal("0" * k), s), out)
    return out


def extract_name(tree):
    """-> pieces of the base name written by _save_frame: [("lit", text) | ("num", width)]"""
    fn = _func(tree, "_save_frame")
    params = [a.arg for a in fn.args.args]
    calls = [n for n in ast.walk(fn) if isinstance(n, ast.Call) and isinstance(n.func, ast.Attribute)
             and n.func.attr == "savefig"]
    if len(calls) != 1 or not calls[0].args or not isinstance(calls[0].args[0], ast.JoinedStr):
        raise OutsideSubset("drift: _save_frame does not call savefig(<f-string>) exactly once")
    vals = calls[0].args[0].values
    if len(vals) < 2 or not isinstance(vals[0], ast.FormattedValue) or not isinstance(vals[0].value, ast.Name) \
            or vals[0].value.id not in params or not isinstance(vals[1], ast.Constant) or not vals[1].value.startswith("/"):
        raise OutsideSubset("drift: the frame path is not `{frames_dir}/<name>`")
    pieces = []
    for k, v in enumerate(vals[1:]):
        if isinstance(v, ast.Constant):
            text = v.value[1:] if k == 0 else v.value
            if "/" in text:
                raise OutsideSubset("drift: the frame name contains a directory separator")
            pieces.append(("lit", text))
        elif isinstance(v, ast.FormattedValue) and isinstance(v.value, ast.Name) and v.value.id in params \
                and v.conversion == -1:
            spec = "" if v.format_spec is None else "".join(
                c.value for c in v.format_spec.values if isinstance(c, ast.Constant))
            if spec in ("", "d"):
                pieces.append(("num", 1))
            elif len(spec) >= 3 and spec[0] == "0" and spec[-1] == "d" and spec[1:-1].isdigit():
                pieces.append(("num", int(spec[1:-1])))
            else:
                raise OutsideSubset(f"drift: format spec {spec!r} of the frame number is not modelled")
        else:
            raise OutsideSubset("drift: the frame name is not built from literals and the frame number")
    if sum(1 for p in pieces if p[0] == "num") != 1:
        raise OutsideSubset("drift: the frame name does not contain the frame number exactly once")
    return pieces


class Sym:
    """a string value as structured pieces (so that digit filtering can be applied piecewise) + its SMT term"""

    def __init__(self, pieces, i):
        self.pieces, self.i = pieces, i

    def term(self):
        ts = [z3.StringVal(p[1]) if p[0] == "lit" else _pad(self.i, p[1]) for p in self.pieces]
        ts = [t for t in ts]
        if not ts:
            return z3.StringVal("")
        return z3.Concat(*ts) if len(ts) > 1 else ts[0]

    def digits(self):
        out = []
        for p in self.pieces:
            if p[0] == "lit":
                d = "".join(ch for ch in p[1] if ch in "0123456789")
                if d:
                    out.append(("lit", d))
            else:
                out.append(p)
        return Sym(out, self.i)


def eval_key(expr, env, funcs):
    """symbolic value of a key expression: Sym | z3 Int | tuple of those"""
    if isinstance(expr, ast.Name):
        if expr.id in env:
            return env[expr.id]
        raise OutsideSubset(f"drift: name {expr.id} in the sort key")
    if isinstance(expr, ast.Tuple):
        return tuple(eval_key(e, env, funcs) for e in expr.elts)
    if isinstance(expr, ast.Constant) and isinstance(expr.value, int):
        return z3.IntVal(expr.value)
    if isinstance(expr, ast.UnaryOp) and isinstance(expr.op, ast.USub):
        return -eval_key(expr.operand, env, funcs)
    if isinstance(expr, ast.Call) and isinstance(expr.func, ast.Name) and expr.func.id == "int" and len(expr.args) == 1:
        v = eval_key(expr.args[0], env, funcs)
        if not isinstance(v, Sym):
            raise OutsideSubset("drift: int() of a non-string in the sort key")
        return z3.StrToInt(v.term())
    if isinstance(expr, ast.Call) and isinstance(expr.func, ast.Name) and expr.func.id in funcs and len(expr.args) == 1:
        f = funcs[expr.func.id]
        local = {f.args.args[0].arg: eval_key(expr.args[0], env, funcs)}
        for stmt in f.body:
            if isinstance(stmt, ast.Expr) and isinstance(stmt.value, ast.Constant):
                continue
            if isinstance(stmt, ast.Assign) and len(stmt.targets) == 1 and isinstance(stmt.targets[0], ast.Name):
                local[stmt.targets[0].id] = eval_key(stmt.value, local, funcs)
            elif isinstance(stmt, ast.Return):
                return eval_key(stmt.value, local, funcs)
            else:
                raise OutsideSubset("drift: statement in the key function not modelled")
        raise OutsideSubset("drift: key function without return")
    if isinstance(expr, ast.IfExp):
        c = eval_key(expr.test, env, funcs)
        a, b = eval_key(expr.body, env, funcs), eval_key(expr.orelse, env, funcs)
        if isinstance(c, Sym):
            c = z3.Length(c.term()) > 0        # truth value of a string
        if isinstance(a, Sym) or isinstance(b, Sym):
            raise OutsideSubset("drift: conditional string in the sort key")
        return z3.If(c, a, b)
    # "".join(ch for ch in X if ch.isdigit())
    if isinstance(expr, ast.Call) and isinstance(expr.func, ast.Attribute) and expr.func.attr == "join" \
            and isinstance(expr.func.value, ast.Constant) and expr.func.value.value == "" and len(expr.args) == 1 \
            and isinstance(expr.args[0], ast.GeneratorExp):
        g = expr.args[0]
        gen = g.generators[0]
        if len(g.generators) == 1 and isinstance(gen.target, ast.Name) and isinstance(g.elt, ast.Name) \
                and g.elt.id == gen.target.id and len(gen.ifs) == 1 and ast.unparse(gen.ifs[0]) == f"{gen.target.id}.isdigit()":
            v = eval_key(gen.iter, env, funcs)
            if isinstance(v, Sym):
                return v.digits()
    raise OutsideSubset(f"drift: sort-key expression not modelled: {ast.unparse(expr)[:80]}")


def extract_key(tree):
    """-> function: Sym -> key value, from `sorted(os.listdir(frames_dir)[, key=lambda ...])` in _load_images"""
    fn = _func(tree, "_load_images")
    funcs = {n.name: n for n in fn.body if isinstance(n, ast.FunctionDef)}
    calls = [n for n in ast.walk(fn) if isinstance(n, ast.Call) and isinstance(n.func, ast.Name) and n.func.id == "sorted"]
    if len(calls) != 1 or len(calls[0].args) != 1 or ast.unparse(calls[0].args[0]) != f"os.listdir({fn.args.args[0].arg})":
        raise OutsideSubset("drift: _load_images does not read the directory through sorted(os.listdir(frames_dir), ...)")
    kws = {k.arg: k.value for k in calls[0].keywords}
    if set(kws) - {"key"}:
        raise OutsideSubset("drift: sorted(...) with options other than key=")
    if "key" not in kws:
        return lambda sym: sym
    lam = kws["key"]
    if isinstance(lam, ast.Name) and lam.id in funcs:
        f = funcs[lam.id]
        return lambda sym: eval_key(ast.Call(func=ast.Name(id=f.name, ctx=ast.Load()), args=[ast.Name(id="$x", ctx=ast.Load())],
                                             keywords=[]), {"$x": sym}, funcs)
    if not isinstance(lam, ast.Lambda) or len(lam.args.args) != 1:
        raise OutsideSubset("drift: sort key is not a one-argument lambda or a local function")
    return lambda sym: eval_key(lam.body, {lam.args.args[0].arg: sym}, funcs)


def _less(a, b):
    """python's `<` on the key values"""
    if isinstance(a, tuple):
        if not isinstance(b, tuple) or len(a) != len(b) or not a:
            raise OutsideSubset("drift: tuple keys of different shapes")
        out = z3.BoolVal(False)
        for x, y in reversed(list(zip(a, b))):
            out = z3.Or(_less(x, y), z3.And(_eq(x, y), out))
        return out
    if isinstance(a, Sym):
        return a.term() < b.term()     # str.<  (lexicographic by code point)
    return a < b


def _eq(a, b):
    if isinstance(a, Sym):
        return a.term() == b.term()
    return a == b


def frames_order_steps(repo=None):
    path = os.path.join(repo or os.environ.get("PYVC_REPO", REPO), FILE)
    with open(path, encoding="utf-8") as f:
        tree = ast.parse(f.read())
    pieces = extract_name(tree)
    key = extract_key(tree)
    i, j = z3.Int("i"), z3.Int("j")
    ki, kj = key(Sym(pieces, i)), key(Sym(pieces, j))
    hyp = [i >= 1, i < j]
    # candidate ground instances (only used to turn an undecided statement into a concrete counterexample):
    # neighbours around the powers of ten, where zero padding and lexicographic order part ways
    edge = sorted({v for k in range(1, 8) for v in (10 ** k - 1, 10 ** k, 10 ** k + 1)} | {1, 2, 5})
    cands = [[(i, a), (j, b)] for a in edge for b in edge if a < b]
    steps = [("frames-sorted-in-the-order-they-were-saved", hyp, _less(ki, kj), cands)]
    return steps


@lemma("frames-loaded-in-save-order", properties=("C20",))
def frames_loaded_in_save_order():
    return frames_order_steps()
