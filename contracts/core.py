"""Contracts of the scheduling core: Operation, ScheduledOperation, Schedule,
Dispatcher (C01, C02, C09, C10 and the basis of most other properties).

Helper pre-conditions/frames are derived from the code and its call sites; the
top-level post-conditions (Reach, Feasible, forced start, SameState on rejection)
come from the property statements.
"""
from __future__ import annotations

import z3

from pyvc.engine import Contract, Frame, LoopSpec, PURE
from pyvc.values import forall, ANY, BOOL, FUNC, INT, LIST, NONE, OPT, REF, fresh

from .spec import (
    Disp, Inst, OBS_FIELDS, bv, cache_empty, cache_fields, contains, derived, feasible,
    imp, reach, rng, upd_tracking, valid_instance, zmax,
)

REGISTRY: dict[str, Contract] = {}
ZERO_ARR = z3.K(z3.IntSort(), z3.IntVal(0))


def register(cls):
    inst = cls()
    REGISTRY[inst.name] = inst
    return cls


# ---------------------------------------------------------------------------
# Operation
# ---------------------------------------------------------------------------
@register
class OperationMachineId(Contract):
    name = "Operation.machine_id"
    ret = INT
    pure = True
    properties = ("C01", "C09", "C14")

    def requires(self, c):
        h, o = c.h0, c["self"]
        return [("has-machines", z3.And(o > 0, h.get("machines", o) > 0, h.len(h.get("machines", o)) >= 1))]

    def raises(self, c):
        h, o = c.h0, c["self"]
        return [("UninitializedAttributeError", "several-machines", h.len(h.get("machines", o)) > 1)]

    def ensures(self, c):
        h, o = c.h0, c["self"]
        return [("first-machine", c.result == h.at(h.get("machines", o), 0))]


# ---------------------------------------------------------------------------
# ScheduledOperation
# ---------------------------------------------------------------------------
def _so_wf(h, x):
    o = h.get("operation", x)
    return z3.And(x > 0, o > 0, h.get("machines", o) > 0)


@register
class SOInit(Contract):
    name = "ScheduledOperation.__init__"
    properties = ("C01", "C09")

    def requires(self, c):
        h, o = c.h0, c["operation"]
        return [("operation-wf", z3.And(c["self"] > 0, o > 0, h.get("machines", o) > 0))]

    def raises(self, c):
        h = c.h0
        return [("ValidationError", "machine-not-eligible",
                 z3.Not(contains(h, h.get("machines", c["operation"]), c["machine_id"])))]

    def exc_modifies(self, c, exc):
        s = c["self"]
        return Frame(fields={"operation": [s], "start_time": [s], "_machine_id": [s]})

    def modifies(self, c):
        s = c["self"]
        return Frame(fields={"operation": [s], "start_time": [s], "_machine_id": [s]})

    def ensures(self, c):
        h, s = c.h, c["self"]
        return [("fields", z3.And(h.get("operation", s) == c["operation"],
                                  h.get("start_time", s) == c["start_time"],
                                  h.get("_machine_id", s) == c["machine_id"]))]


@register
class SOMachineId(Contract):
    name = "ScheduledOperation.machine_id"
    ret = INT
    pure = True

    def requires(self, c):
        return [("self", c["self"] > 0)]

    def ensures(self, c):
        return [("value", c.result == c.h0.get("_machine_id", c["self"]))]


@register
class SOMachineIdSetter(Contract):
    name = "ScheduledOperation.machine_id.setter"
    properties = ("C01", "C09")

    def requires(self, c):
        return [("wf", _so_wf(c.h0, c["self"]))]

    def raises(self, c):
        h = c.h0
        return [("ValidationError", "machine-not-eligible",
                 z3.Not(contains(h, h.get("machines", h.get("operation", c["self"])), c["value"])))]

    def modifies(self, c):
        return Frame(fields={"_machine_id": [c["self"]]})

    def ensures(self, c):
        return [("set", c.h.get("_machine_id", c["self"]) == c["value"])]


@register
class SOJobId(Contract):
    name = "ScheduledOperation.job_id"
    ret = INT
    pure = True

    def requires(self, c):
        return [("wf", z3.And(c["self"] > 0, c.h0.get("operation", c["self"]) > 0))]

    def ensures(self, c):
        h = c.h0
        return [("value", c.result == h.get("job_id", h.get("operation", c["self"])))]


@register
class SOPositionInJob(Contract):
    name = "ScheduledOperation.position_in_job"
    ret = INT
    pure = True

    def requires(self, c):
        return [("wf", z3.And(c["self"] > 0, c.h0.get("operation", c["self"]) > 0))]

    def ensures(self, c):
        h = c.h0
        return [("value", c.result == h.get("position_in_job", h.get("operation", c["self"])))]


@register
class SOEndTime(Contract):
    name = "ScheduledOperation.end_time"
    ret = INT
    pure = True
    properties = ("C01", "C02", "C13")

    def requires(self, c):
        return [("wf", z3.And(c["self"] > 0, c.h0.get("operation", c["self"]) > 0))]

    def ensures(self, c):
        h, s = c.h0, c["self"]
        return [("start-plus-duration",
                 c.result == h.get("start_time", s) + h.get("duration", h.get("operation", s)))]


# ---------------------------------------------------------------------------
# JobShopInstance counts used by the dispatcher (bodies verified in views.py, C14)
# ---------------------------------------------------------------------------
@register
class InstNumJobs(Contract):
    name = "JobShopInstance.num_jobs"
    ret = INT
    pure = True

    def requires(self, c):
        return [("self", z3.And(c["self"] > 0, c.h0.get("jobs", c["self"]) > 0))]

    def ensures(self, c):
        return [("len-jobs", c.result == c.h0.len(c.h0.get("jobs", c["self"])))]


# ---------------------------------------------------------------------------
# Schedule
# ---------------------------------------------------------------------------
def sched_wf(h, S):
    """shape of a list of machine lists of scheduled operations"""
    m, m2, i = bv("m"), bv("m2"), bv("i")
    Sm = lambda t: h.at(S, t)
    x = h.at(Sm(m), i)
    return [
        ("sched-outer", z3.And(S > 0, h.len(S) >= 0)),
        ("sched-lists", forall([m], imp(rng(m, 0, h.len(S)), z3.And(Sm(m) > 0, Sm(m) != S, h.len(Sm(m)) >= 0)),
                                  patterns=[Sm(m)])),
        ("sched-lists-distinct", forall([m, m2], imp(z3.And(rng(m, 0, h.len(S)), rng(m2, 0, h.len(S)),
                                                               Sm(m) == Sm(m2)), m == m2),
                                           patterns=[z3.MultiPattern(Sm(m), Sm(m2))])),
        ("sched-elements", forall([m, i], imp(z3.And(rng(m, 0, h.len(S)), rng(i, 0, h.len(Sm(m)))),
                                                 z3.And(x > 0, h.get("operation", x) > 0)),
                                     patterns=[h.at(Sm(m), i)])),
    ]


def so_end(h, x):
    return h.get("start_time", x) + h.get("duration", h.get("operation", x))


def sched_valid(h, S):
    """what Schedule.check_schedule accepts"""
    m, i = bv("m"), bv("i")
    x = h.at(h.at(S, m), i)
    prev = h.at(h.at(S, m), i - 1)
    return forall([m, i], imp(z3.And(rng(m, 0, h.len(S)), rng(i, 0, h.len(h.at(S, m)))),
                                 z3.And(h.get("_machine_id", x) == m,
                                        imp(i > 0, so_end(h, prev) <= h.get("start_time", x)))),
                     patterns=[h.at(h.at(S, m), i)])


@register
class ScheduleIsValidStartTime(Contract):
    name = "Schedule._is_valid_start_time"
    ret = BOOL
    pure = True
    properties = ("C01",)

    def requires(self, c):
        h = c.h0
        a, b = c["scheduled_operation"], c["previous_operation"]
        return [("wf", z3.And(a > 0, b > 0, h.get("operation", b) > 0))]

    def ensures(self, c):
        h = c.h0
        return [("prev-end-le-start",
                 c.result == (so_end(h, c["previous_operation"]) <= h.get("start_time", c["scheduled_operation"])))]


@register
class ScheduleCheckSchedule(Contract):
    name = "Schedule.check_schedule"
    pure = True
    properties = ("C01", "C03")

    def requires(self, c):
        return sched_wf(c.h0, c["schedule"])

    def raises(self, c):
        return [("ValidationError", "invalid-schedule", z3.Not(sched_valid(c.h0, c["schedule"])))]

    def _row_ok(self, h, S, m, upto):
        i = bv("i")
        x = h.at(h.at(S, m), i)
        prev = h.at(h.at(S, m), i - 1)
        return forall([i], imp(rng(i, 0, upto),
                                  z3.And(h.get("_machine_id", x) == m,
                                         imp(i > 0, so_end(h, prev) <= h.get("start_time", x)))),
                         patterns=[h.at(h.at(S, m), i)])

    @property
    def loops(self):
        def outer(k):
            h, S = k.h0, k["schedule"]
            m = bv("m")
            return [("rows-before-ok", forall([m], imp(rng(m, 0, k.i), self._row_ok(h, S, m, h.len(h.at(S, m))))))]

        def inner(k):
            h, S = k.h0, k["schedule"]
            return [("prefix-ok", self._row_ok(h, S, k.v("machine_id"), k.i)),
                    ("row-is-current", z3.And(k.v("scheduled_operations") == h.at(S, k.v("machine_id")),
                                              rng(k.v("machine_id"), 0, h.len(S))))]

        return {
            0: LoopSpec("for (machine_id, scheduled_operations) in enumerate(schedule)", outer),
            1: LoopSpec("for (i, scheduled_operation) in enumerate(scheduled_operations)", inner),
        }


@register
class ScheduleScheduleGetter(Contract):
    name = "Schedule.schedule"
    ret = LIST(LIST(REF("ScheduledOperation")))
    pure = True

    def requires(self, c):
        return [("self", c["self"] > 0)]

    def ensures(self, c):
        return [("value", c.result == c.h0.get("_schedule", c["self"]))]


@register
class ScheduleScheduleSetter(Contract):
    name = "Schedule.schedule.setter"

    def requires(self, c):
        return [("self", c["self"] > 0)] + sched_wf(c.h0, c["new_schedule"])

    def raises(self, c):
        return [("ValidationError", "invalid-schedule", z3.Not(sched_valid(c.h0, c["new_schedule"])))]

    def modifies(self, c):
        return Frame(fields={"_schedule": [c["self"]]})

    def ensures(self, c):
        return [("set", c.h.get("_schedule", c["self"]) == c["new_schedule"])]


def fresh_empty_schedule(h0, h1, S1, M):
    """S1 is a brand-new list of M brand-new empty lists"""
    m, m2 = bv("m"), bv("m2")
    Sm = lambda t: h1.at(S1, t)
    return [
        ("new-outer", z3.And(S1 >= h0.alloc, S1 < h1.alloc, h1.len(S1) == M)),
        ("new-inner", forall([m], imp(rng(m, 0, M), z3.And(Sm(m) >= h0.alloc, Sm(m) < h1.alloc, Sm(m) != S1,
                                                              h1.len(Sm(m)) == 0)), patterns=[Sm(m)])),
        ("new-inner-distinct", forall([m, m2], imp(z3.And(rng(m, 0, M), rng(m2, 0, M), Sm(m) == Sm(m2)),
                                                      m == m2), patterns=[z3.MultiPattern(Sm(m), Sm(m2))])),
    ]


@register
class ScheduleInit(Contract):
    name = "Schedule.__init__"
    params = {"schedule": LIST(LIST(REF("ScheduledOperation")))}
    properties = ("C01", "C02", "C12")

    def requires(self, c):
        h = c.h0
        S = c["schedule"]
        I = c["instance"]
        wf = [(n, imp(S != 0, p)) for n, p in sched_wf(h, S)]
        return [("self", z3.And(c["self"] > 0, I > 0, h.get("$num_machines", I) >= 0))] + wf

    def raises(self, c):
        S = c["schedule"]
        return [("ValidationError", "invalid-schedule", z3.And(S != 0, z3.Not(sched_valid(c.h0, S))))]

    def modifies(self, c):
        s = c["self"]
        return Frame(fields={"instance": [s], "_schedule": [s], "metadata": [s], "$$cumS": [s]}, allocates="lists")

    def ghost(self, c, st):
        # ghost prefix sums of the machine list lengths of a brand-new empty schedule
        if z3.is_true(z3.simplify(c["schedule"] == 0)) or True:
            st.heap = st.heap.put("$$cumS", c["self"],
                                  z3.If(c["schedule"] == 0, ZERO_ARR, st.heap.get("$$cumS", c["self"])))

    def ensures(self, c):
        h0, h, s = c.h0, c.h, c["self"]
        S1 = h.get("_schedule", s)
        M = h0.get("$num_machines", c["instance"])
        given = c["schedule"] != 0
        out = [("instance", h.get("instance", s) == c["instance"]),
               ("given-schedule-kept", imp(given, S1 == c["schedule"])),
               ("count-ghost-zero", imp(z3.Not(given), h.get("$$cumS", s) == ZERO_ARR))]
        out += [(n, imp(z3.Not(given), p)) for n, p in fresh_empty_schedule(h0, h, S1, M)]
        return out


@register
class ScheduleReset(Contract):
    name = "Schedule.reset"
    properties = ("C02", "C12")

    def requires(self, c):
        h, s = c.h0, c["self"]
        I = h.get("instance", s)
        return [("self", z3.And(s > 0, I > 0, h.get("$num_machines", I) >= 0))]

    def modifies(self, c):
        return Frame(fields={"_schedule": [c["self"]], "$$cumS": [c["self"]]}, allocates="lists")

    def ghost(self, c, st):
        st.heap = st.heap.put("$$cumS", c["self"], ZERO_ARR)

    def ensures(self, c):
        h0, h, s = c.h0, c.h, c["self"]
        M = h0.get("$num_machines", h0.get("instance", s))
        return fresh_empty_schedule(h0, h, h.get("_schedule", s), M) + \
            [("count-ghost-zero", h.get("$$cumS", s) == ZERO_ARR)]


@register
class InstNumMachines(Contract):
    name = "JobShopInstance.num_machines"
    ret = INT
    pure = True
    abstract = True  # body verified under C14 (contracts/views.py) against the definition of $num_machines

    def requires(self, c):
        return [("self", c["self"] > 0)]

    def ensures(self, c):
        return [("ghost-num-machines", c.result == c.h0.get("$num_machines", c["self"]))]


@register
class ScheduleMakespan(Contract):
    name = "Schedule.makespan"
    ret = INT
    pure = True
    properties = ("C02", "C06", "C13")

    def requires(self, c):
        h, s = c.h0, c["self"]
        return [("self", s > 0)] + sched_wf(h, h.get("_schedule", s))

    @staticmethod
    def spec(h, S, upto, r):
        """r is the maximum over machines < upto of the end of the last operation (0 if none)"""
        m = bv("m")
        last_end = lambda t: so_end(h, h.at(h.at(S, t), h.len(h.at(S, t)) - 1))
        nonempty = lambda t: h.len(h.at(S, t)) > 0
        return z3.And(
            r >= 0,
            forall([m], imp(z3.And(rng(m, 0, upto), nonempty(m)), r >= last_end(m)), patterns=[h.at(S, m)]),
            z3.Or(r == 0, z3.Exists([m], z3.And(rng(m, 0, upto), nonempty(m), r == last_end(m)))))

    def ensures(self, c):
        h = c.h0
        S = h.get("_schedule", c["self"])
        return [("max-of-last-ends", self.spec(h, S, h.len(S), c.result))]

    @property
    def loops(self):
        def inv(k):
            h = k.h0
            S = h.get("_schedule", k["self"])
            return [("partial-max", self.spec(h, S, k.i, k.v("max_end_time")))]
        return {0: LoopSpec("for machine_schedule in self.schedule", inv)}


def _add_pre(h, s, x):
    S = h.get("_schedule", s)
    return [("self", z3.And(s > 0, x > 0, h.get("operation", x) > 0)),
            ("machine-in-range", rng(h.get("_machine_id", x), 0, h.len(S)))] + sched_wf(h, S)


def _add_rejects(h, s, x):
    S = h.get("_schedule", s)
    lst = h.at(S, h.get("_machine_id", x))
    n = h.len(lst)
    return z3.And(n > 0, so_end(h, h.at(lst, n - 1)) > h.get("start_time", x))


@register
class ScheduleCheckStart(Contract):
    name = "Schedule._check_start_time_of_new_operation"
    pure = True
    properties = ("C01", "C09")

    def requires(self, c):
        return _add_pre(c.h0, c["self"], c["new_operation"])

    def raises(self, c):
        return [("ValidationError", "starts-before-last-ends", _add_rejects(c.h0, c["self"], c["new_operation"]))]


@register
class ScheduleAdd(Contract):
    name = "Schedule.add"
    properties = ("C01", "C09")

    def requires(self, c):
        return _add_pre(c.h0, c["self"], c["scheduled_operation"])

    def raises(self, c):
        return [("ValidationError", "starts-before-last-ends",
                 _add_rejects(c.h0, c["self"], c["scheduled_operation"]))]

    def _lst(self, c):
        h = c.h0
        return h.at(h.get("_schedule", c["self"]), h.get("_machine_id", c["scheduled_operation"]))

    def modifies(self, c):
        return Frame(lists=[self._lst(c)])

    def ensures(self, c):
        h0, h = c.h0, c.h
        lst = self._lst(c)
        n = h0.len(lst)
        return [("appended", z3.And(h.len(lst) == n + 1,
                                    z3.Select(h.El, lst) == z3.Store(z3.Select(h0.El, lst), n,
                                                                     c["scheduled_operation"])))]


# ---------------------------------------------------------------------------
# Dispatcher
# ---------------------------------------------------------------------------
def same_list(h0, h1, l):
    return z3.And(h1.len(l) == h0.len(l), z3.Select(h1.El, l) == z3.Select(h0.El, l),
                  z3.Select(h1.ElX, l) == z3.Select(h0.ElX, l))


def core_lists_kept(h0, h1, d, except_lists=()):
    """prenexed statement that the lists the dispatcher owns and the lists of the
    instance have the same length and content in h1 as in h0"""
    D = Disp(h0, d)
    born = h0.get("$born", d)
    m, l = bv("m"), bv("l")
    own = [x for x in (D.S, D.mnat, D.k, D.jnat, D.subs) if not any(x.eq(e) for e in except_lists)]
    out = [same_list(h0, h1, x) for x in own]
    ex = [e for e in except_lists]
    out.append(forall([m], imp(z3.And(rng(m, 0, D.M), *[D.Sm(m) != e for e in ex]),
                                  same_list(h0, h1, D.Sm(m))), patterns=[D.Sm(m)]))
    out.append(forall([l], imp(z3.And(l > 0, l < born), same_list(h0, h1, l)),
                         patterns=[z3.Select(h1.Len, l), z3.Select(h1.El, l)]))
    return out


def obs_frame(h=None, d=None):
    """what an observer may write: its own fields and the observer region of list
    memory (lists allocated by observer methods); nothing of the scheduling core"""
    fields = {f: "ALL" for f in OBS_FIELDS}
    for f in cache_fields():
        # observers may call queries of THEIR dispatcher, which fill its cache (CacheOK is kept, see queries.py)
        fields[f] = [d] if d is not None else "ALL"
    fields["$oidx"] = "ALL"
    return Frame(fields=fields, olists="ALL", alloc_lists=True)


def last_dispatched(h, d, x):
    D = Disp(h, d)
    m = D.mid(x)
    return z3.And(x > 0, rng(m, 0, D.M), D.nS(m) > 0, D.x(m, D.nS(m) - 1) == x)


def empty_state(h, d):
    D = Disp(h, d)
    m, j = bv("m"), bv("j")
    return [("no-operation-scheduled", forall([m], imp(rng(m, 0, D.M), z3.And(D.nS(m) == 0, D.mn(m) == 0)),
                                                 patterns=[D.Sm(m)])),
            ("machines-free-at-0", forall([m], imp(rng(m, 0, D.M), D.mn(m) == 0), patterns=[D.mn(m)])),
            ("jobs-at-first-operation", forall([j], imp(rng(j, 0, D.it.J), z3.And(D.kj(j) == 0, D.jn(j) == 0)),
                                                  patterns=[D.kj(j)])),
            ("jobs-ready-at-0", forall([j], imp(rng(j, 0, D.it.J), D.jn(j) == 0), patterns=[D.jn(j)]))]


def _observer_dispatcher(c):
    """The dispatcher an observer call is about.  When the caller under verification
    names it (`dispatcher_term`), the pre-condition is stated for that very term and the
    observer's own `dispatcher` field is required to equal it; otherwise the field."""
    eng = c.eng
    hint = getattr(eng.cur, "dispatcher_term", None) if eng is not None and eng.cur is not None else None
    if hint is not None:
        return hint(eng)
    return c.h0.get("dispatcher", c["self"])


@register
class ObserverUpdate(Contract):
    """Abstract contract every DispatcherObserver.update must honour (behavioural
    subtyping; each built-in observer is checked against it).  Its pre-condition is what
    C10 promises observers: the dispatcher is already in the post-dispatch state."""
    name = "DispatcherObserver.update"
    abstract = True
    params = {"self": REF("DispatcherObserver"), "scheduled_operation": REF("ScheduledOperation")}
    properties = ("C10",)

    def requires(self, c):
        h = c.h0
        d = _observer_dispatcher(c)
        return [("observer", c["self"] > 0), ("observer-belongs-to-dispatcher", h.get("dispatcher", c["self"]) == d)] \
            + reach(h, d) + \
            [("sees-dispatched-operation-in-schedule", last_dispatched(h, d, c["scheduled_operation"]))]

    def modifies(self, c):
        return obs_frame(c.h0, _observer_dispatcher(c))


@register
class ObserverReset(Contract):
    name = "DispatcherObserver.reset"
    abstract = True
    params = {"self": REF("DispatcherObserver")}
    properties = ("C10", "C12")

    def requires(self, c):
        h = c.h0
        d = _observer_dispatcher(c)
        return [("observer", c["self"] > 0), ("observer-belongs-to-dispatcher", h.get("dispatcher", c["self"]) == d)] \
            + reach(h, d) + empty_state(h, d)

    def modifies(self, c):
        return obs_frame(c.h0, _observer_dispatcher(c))


class _ListProp(Contract):
    field = ""
    ret = LIST(INT)
    pure = True

    def requires(self, c):
        return [("self", c["self"] > 0)]

    def ensures(self, c):
        return [("value", c.result == c.h0.get(self.field, c["self"]))]


@register
class DispMNAT(_ListProp):
    name = "Dispatcher.machine_next_available_time"
    field = "_machine_next_available_time"


@register
class DispJNOI(_ListProp):
    name = "Dispatcher.job_next_operation_index"
    field = "_job_next_operation_index"


@register
class DispJNAT(_ListProp):
    name = "Dispatcher.job_next_available_time"
    field = "_job_next_available_time"


@register
class DispIsOperationReady(Contract):
    name = "Dispatcher.is_operation_ready"
    ret = BOOL
    pure = True
    properties = ("C01", "C09")

    def requires(self, c):
        h, d, o = c.h0, c["self"], c["operation"]
        k = h.get("_job_next_operation_index", d)
        return [("wf", z3.And(d > 0, o > 0, k > 0, rng(h.get("job_id", o), 0, h.len(k))))]

    def ensures(self, c):
        h, d, o = c.h0, c["self"], c["operation"]
        k = h.get("_job_next_operation_index", d)
        return [("next-of-its-job", c.result == (h.at(k, h.get("job_id", o)) == h.get("position_in_job", o)))]


@register
class DispStartTime(Contract):
    name = "Dispatcher.start_time"
    ret = INT
    pure = True
    properties = ("C01", "C02", "C06", "C07")

    def requires(self, c):
        h, d, o = c.h0, c["self"], c["operation"]
        jn = h.get("_job_next_available_time", d)
        mn = h.get("_machine_next_available_time", d)
        return [("wf", z3.And(d > 0, o > 0, jn > 0, mn > 0, rng(h.get("job_id", o), 0, h.len(jn))))]

    def _m(self, c):
        h = c.h0
        mn = h.get("_machine_next_available_time", c["self"])
        m = c["machine_id"]
        return z3.If(m < 0, m + h.len(mn), m), h.len(mn), mn

    def raises(self, c):
        mw, n, _ = self._m(c)
        return [("IndexError", "machine-out-of-range", z3.Not(rng(mw, 0, n)))]

    def ensures(self, c):
        h, d, o = c.h0, c["self"], c["operation"]
        mw, n, mn = self._m(c)
        jn = h.get("_job_next_available_time", d)
        return [("max-of-machine-free-and-job-ready",
                 c.result == zmax(h.at(mn, mw), h.at(jn, h.get("job_id", o))))]


@register
class DispSubscribe(Contract):
    name = "Dispatcher.subscribe"
    properties = ("C10",)

    def requires(self, c):
        h, d = c.h0, c["self"]
        return [("observer-of-this-dispatcher", z3.And(c["observer"] > 0, h.get("dispatcher", c["observer"]) == d))] \
            + reach(h, d)

    def modifies(self, c):
        return Frame(lists=[c.h0.get("subscribers", c["self"])])

    def ensures(self, c):
        h0, h, d = c.h0, c.h, c["self"]
        subs = h0.get("subscribers", d)
        n = h0.len(subs)
        return [("appended-last", z3.And(h.len(subs) == n + 1,
                                         z3.Select(h.El, subs) == z3.Store(z3.Select(h0.El, subs), n, c["observer"])))] \
            + reach(h, d)


@register
class DispUnsubscribe(Contract):
    name = "Dispatcher.unsubscribe"
    properties = ("C10",)

    def requires(self, c):
        return [("observer", c["observer"] > 0)] + reach(c.h0, c["self"])

    def raises(self, c):
        h = c.h0
        return [("ValueError", "not-subscribed", z3.Not(contains(h, h.get("subscribers", c["self"]), c["observer"])))]

    def modifies(self, c):
        return Frame(lists=[c.h0.get("subscribers", c["self"])])

    def ensures(self, c):
        h0, h, d = c.h0, c.h, c["self"]
        subs = h0.get("subscribers", d)
        n = h0.len(subs)
        w, q = bv("w"), bv("q")
        first = z3.And(rng(w, 0, n), h0.at(subs, w) == c["observer"],
                       forall([q], imp(rng(q, 0, w), h0.at(subs, q) != c["observer"])),
                       forall([q], imp(rng(q, 0, n - 1),
                                          h.at(subs, q) == z3.If(q < w, h0.at(subs, q), h0.at(subs, q + 1))),
                                 patterns=[h.at(subs, q)]))
        return [("first-occurrence-removed", z3.And(h.len(subs) == n - 1, z3.Exists([w], first)))] + reach(h, d)


def _tracking_frame(h, d, extra_fields=None, extra_lists=(), alloc_objects=False):
    D = Disp(h, d)
    fields = {f: "ALL" for f in OBS_FIELDS}
    fields["_cache"] = [d]
    for f in cache_fields():
        fields[f] = [d]
    fields["$oidx"] = "ALL"
    fields.update(extra_fields or {})
    return Frame(fields=fields, lists=[D.mnat, D.k, D.jnat] + list(extra_lists), olists="ALL",
                 alloc_objects=alloc_objects)


@register
class DispUpdateTracking(Contract):
    name = "Dispatcher._update_tracking_attributes"
    properties = ("C01", "C02", "C05", "C10")

    def dispatcher_term(self, eng):
        return eng.args0["self"].t

    def requires(self, c):
        h, d, x = c.h0, c["self"], c["scheduled_operation"]
        D = Disp(h, d)
        o = D.opx(x)
        pre = [("scheduled-operation-wf", z3.And(d > 0, x > 0, x < h.alloc, o > 0, D.mnat > 0, D.k > 0, D.jnat > 0,
                                                 rng(D.mid(x), 0, h.len(D.mnat)), rng(D.it.jid(o), 0, h.len(D.k)),
                                                 rng(D.it.jid(o), 0, h.len(D.jnat)))),
               ("already-in-schedule", last_dispatched(h, d, x))]
        # the state the three assignments produce is a Reach state: this is what lets
        # the notification loop promise observers a consistent dispatcher (C10)
        return pre + [("after-update:" + n, p) for n, p in reach(upd_tracking(h, d, x), d)]

    def modifies(self, c):
        return _tracking_frame(c.h0, c["self"])

    def ensures(self, c):
        h0, h, d, x = c.h0, c.h, c["self"], c["scheduled_operation"]
        hu = upd_tracking(h0, d, x)
        D = Disp(h0, d)
        eq = [z3.And(h.len(l) == hu.len(l), z3.Select(h.El, l) == z3.Select(hu.El, l))
              for l in (D.mnat, D.k, D.jnat)]
        return [("tracking-vectors-updated", z3.And(eq)),
                ("cache-cleared", h.get("_cache", d) >= h0.alloc)] + reach(h, d)

    @property
    def loops(self):
        def inv(k):
            d, x = k["self"], k["scheduled_operation"]
            D = Disp(k.hl, d)
            same = [same_list(k.hl, k.h, l) for l in (D.mnat, D.k, D.jnat, D.S, D.subs)]
            return [("dispatcher-untouched-by-observers", z3.And(same)),
                    ("still-last", last_dispatched(k.h, d, x))] + reach(k.h, d)

        def mod(k):
            return obs_frame(k.hl, k["self"])
        return {0: LoopSpec("for subscriber in self.subscribers", inv, mod)}


def _eff_machine(c):
    """machine the request designates: the given id, or the operation's only machine"""
    h = c.h0
    mv = c.val("machine_id")
    first = h.at(h.get("machines", c["operation"]), 0)
    return z3.If(mv.aux, first, mv.t.t)


@register
class DispDispatch(Contract):
    name = "Dispatcher.dispatch"
    params = {"machine_id": OPT(INT)}
    properties = ("C01", "C02", "C09", "C10")

    def requires(self, c):
        h, d, o = c.h0, c["self"], c["operation"]
        D = Disp(h, d)
        return [("operation-of-the-instance", D.it.is_op(o))] + reach(h, d)

    def _cases(self, c):
        h, d, o = c.h0, c["self"], c["operation"]
        D = Disp(h, d)
        mv = c.val("machine_id")
        ready = D.kj(D.it.jid(o)) == D.it.pos(o)
        given = z3.Not(mv.aux)
        m = mv.t.t
        several = D.it.nmach(o) > 1
        in_range = z3.And(m >= -D.M, m < D.M)
        eff = _eff_machine(c)
        eligible = contains(h, D.it.machines(o), eff)
        return ready, given, several, in_range, eligible

    def raises(self, c):
        ready, given, several, in_range, eligible = self._cases(c)
        return [
            ("ValidationError", "not-the-next-operation-of-its-job", z3.Not(ready)),
            ("UninitializedAttributeError", "no-machine-given-for-flexible-operation",
             z3.And(ready, z3.Not(given), several)),
            ("IndexError", "machine-id-out-of-range", z3.And(ready, given, z3.Not(in_range))),
            ("ValidationError", "machine-not-eligible",
             z3.And(ready, z3.Or(z3.Not(given), in_range), z3.Not(z3.And(z3.Not(given), several)),
                    z3.Not(eligible))),
        ]

    def modifies(self, c):
        h, d, o = c.h0, c["self"], c["operation"]
        D = Disp(h, d)
        eff = _eff_machine(c)
        return _tracking_frame(h, d, extra_fields={"$posm": [o], "$posi": [o], "$$cumS": [D.sch], "$$cumK": [d]},
                               extra_lists=[D.Sm(eff)],
                               alloc_objects=["operation", "start_time", "_machine_id", "$mq"])

    def _ghost_place(self, c, st):
        """ghost: record where the operation now sits in the schedule"""
        h0, d, o = c.h0, c["self"], c["operation"]
        D = Disp(h0, d)
        eff = _eff_machine(c)
        st.heap = st.heap.put("$posm", o, eff).put("$posi", o, D.nS(eff))
        # ghost: which entry of the operation's machine list the chosen machine is (a
        # definitional choice: the witness of the eligibility test that just passed)
        x = st.env["scheduled_operation"].t
        qw, q = fresh("mqw"), bv("q")
        ok = lambda t: z3.And(rng(t, 0, D.it.nmach(o)), D.it.mach(o, t) == eff)
        st.assume(imp(z3.Exists([q], ok(q)), ok(qw)))
        st.heap = st.heap.put("$mq", x, qw)
        # ghost prefix sums: one more operation on machine `eff`, one more of job j
        t = bv("t")
        A = fresh("cumS", z3.ArraySort(z3.IntSort(), z3.IntSort()))
        B = fresh("cumK", z3.ArraySort(z3.IntSort(), z3.IntSort()))
        j = D.it.jid(o)
        st.assume(forall([t], z3.Select(A, t) == D.cumS(t) + z3.If(t > eff, 1, 0), patterns=[z3.Select(A, t)]))
        st.assume(forall([t], z3.Select(B, t) == D.cumK(t) + z3.If(t > j, 1, 0), patterns=[z3.Select(B, t)]))
        st.heap = st.heap.put("$$cumS", D.sch, A).put("$$cumK", d, B)

    @property
    def ghost_after(self):
        return {"self.schedule.add(scheduled_operation)": self._ghost_place}

    def ensures(self, c):
        h0, h, d, o = c.h0, c.h, c["self"], c["operation"]
        D0, D1 = Disp(h0, d), Disp(h, d)
        m = _eff_machine(c)
        j = D0.it.jid(o)
        n = D0.nS(m)
        x = D1.x(m, n)
        q = bv("q")
        start = zmax(D0.mn(m), D0.jn(j))
        return [
            ("appended-on-chosen-machine", z3.And(
                D1.nS(m) == n + 1, x >= h0.alloc, D1.opx(x) == o, D1.mid(x) == m,
                forall([q], imp(rng(q, 0, n), D1.x(m, q) == D0.x(m, q)), patterns=[D1.x(m, q)]))),
            ("forced-start-time", D1.start(x) == start),
            ("same-list-objects", z3.And(D1.S == D0.S, D1.mnat == D0.mnat, D1.k == D0.k, D1.jnat == D0.jnat,
                                         D1.subs == D0.subs, D1.sch == D0.sch, D1.I == D0.I)),
            ("tracking-advanced", z3.And(
                D1.mn(m) == start + D0.it.dur(o), D1.jn(j) == start + D0.it.dur(o), D1.kj(j) == D0.kj(j) + 1,
                forall([q], imp(z3.And(rng(q, 0, D0.M), q != m), D1.mn(q) == D0.mn(q)), patterns=[D1.mn(q)]),
                forall([q], imp(z3.And(rng(q, 0, D0.it.J), q != j),
                                   z3.And(D1.kj(q) == D0.kj(q), D1.jn(q) == D0.jn(q))),
                          patterns=[D1.kj(q)]))),
            ("ghost-position", z3.And(D1.posm(o) == m, D1.posi(o) == n)),
            ("one-more-operation-scheduled", D1.n == D0.n + 1),
        ] + reach(h, d)


@register
class DispInit(Contract):
    name = "Dispatcher.__init__"
    properties = ("C01", "C02", "C12")

    def requires(self, c):
        h = c.h0
        return [("self", c["self"] > 0)] + valid_instance(h, c["instance"])

    def modifies(self, c):
        s = c["self"]
        names = ["instance", "schedule", "ready_operations_filter", "subscribers", "_machine_next_available_time",
                 "_job_next_operation_index", "_job_next_available_time", "_cache", "$born", "$$cumK"] + cache_fields()
        return Frame(fields={n: [s] for n in names}, allocates=True)

    def ghost(self, c, st):
        st.heap = st.heap.put("$born", c["self"], c.h0.alloc).put("$$cumK", c["self"], ZERO_ARR)

    def ensures(self, c):
        h0, h, d = c.h0, c.h, c["self"]
        return [("instance-kept", h.get("instance", d) == c["instance"]),
                ("filter-stored", h.get("ready_operations_filter", d) == c["ready_operations_filter"]),
                ("no-subscribers", h.len(h.get("subscribers", d)) == 0),
                ("nothing-scheduled", Disp(h, d).n == 0),
                ("born", h.get("$born", d) == h0.alloc)] + reach(h, d) + empty_state(h, d)


@register
class DispReset(Contract):
    name = "Dispatcher.reset"
    properties = ("C02", "C10", "C12")

    def dispatcher_term(self, eng):
        return eng.args0["self"].t

    def requires(self, c):
        return reach(c.h0, c["self"])

    def modifies(self, c):
        h, d = c.h0, c["self"]
        D = Disp(h, d)
        names = ["_machine_next_available_time", "_job_next_operation_index", "_job_next_available_time", "_cache",
                 "$$cumK"] + cache_fields()
        fields = {n: [d] for n in names}
        fields["_schedule"] = [D.sch]
        fields["$$cumS"] = [D.sch]
        fields["$oidx"] = "ALL"
        fields.update({f: "ALL" for f in OBS_FIELDS})
        return Frame(fields=fields, olists="ALL", alloc_lists=True)

    @property
    def ghost_after(self):
        def zero_counts(c, st):
            st.heap = st.heap.put("$$cumK", c["self"], ZERO_ARR)
        return {"self._job_next_operation_index = [0] * self.instance.num_jobs": zero_counts}

    def ensures(self, c):
        h0, h, d = c.h0, c.h, c["self"]
        D0, D1 = Disp(h0, d), Disp(h, d)
        return [("same-objects", z3.And(D1.I == D0.I, D1.sch == D0.sch, D1.subs == D0.subs,
                                        h.get("$born", d) == h0.get("$born", d))),
                ("nothing-scheduled", D1.n == 0)] + reach(h, d) + empty_state(h, d)

    @property
    def loops(self):
        def inv(k):
            d = k["self"]
            D = Disp(k.hl, d)
            same = [same_list(k.hl, k.h, l) for l in (D.mnat, D.k, D.jnat, D.S, D.subs)]
            return [("dispatcher-untouched-by-observers", z3.And(same))] + reach(k.h, d) + empty_state(k.h, d)

        def mod(k):
            return obs_frame(k.hl, k["self"])
        return {0: LoopSpec("for subscriber in self.subscribers", inv, mod)}


@register
class DispNextOperation(Contract):
    name = "Dispatcher.next_operation"
    ret = REF("Operation")
    pure = True
    properties = ("C05", "C09")

    def requires(self, c):
        return reach(c.h0, c["self"])

    def _jw(self, c):
        D = Disp(c.h0, c["self"])
        j = c["job_id"]
        return D, z3.If(j < 0, j + D.it.J, j)

    def raises(self, c):
        D, jw = self._jw(c)
        in_range = rng(jw, 0, D.it.J)
        return [("IndexError", "job-id-out-of-range", z3.Not(in_range)),
                ("ValidationError", "no-operation-left", z3.And(in_range, D.it.L(jw) <= D.kj(jw)))]

    def ensures(self, c):
        D, jw = self._jw(c)
        return [("next-unscheduled-operation-of-the-job", c.result == D.it.op(jw, D.kj(jw)))]



# ---------------------------------------------------------------------------
# counting: sums discharged through the SUM RULE against ghost prefix sums
# ---------------------------------------------------------------------------
@register
class ScheduleNumScheduled(Contract):
    name = "Schedule.num_scheduled_operations"
    ret = INT
    pure = True
    properties = ("C01", "C04", "C18")

    def requires(self, c):
        h, s = c.h0, c["self"]
        S = h.get("_schedule", s)
        m = bv("m")
        cum = lambda t: z3.Select(h.get("$$cumS", s), t)
        return [("self", z3.And(s > 0, S > 0)),
                ("count-ghost", z3.And(cum(0) == 0, forall([m], imp(rng(m, 0, h.len(S)),
                                                                    cum(m + 1) == cum(m) + h.len(h.at(S, m))))))] \
            + sched_wf(h, S)

    def ensures(self, c):
        h, s = c.h0, c["self"]
        return [("sum-of-machine-list-lengths", c.result == z3.Select(h.get("$$cumS", s), h.len(h.get("_schedule", s))))]

    @property
    def sum_specs(self):
        def G(c, st):
            return lambda t: z3.Select(c.h0.get("$$cumS", c["self"]), t)
        return {"sum((len(machine_schedule) for machine_schedule in self.schedule))": G}


@register
class InstNumOperations(Contract):
    name = "JobShopInstance.num_operations"
    ret = INT
    pure = True
    properties = ("C01", "C04", "C14", "C18")

    def requires(self, c):
        return valid_instance(c.h0, c["self"])

    def ensures(self, c):
        it = Inst(c.h0, c["self"])
        return [("sum-of-job-lengths", c.result == it.N)]

    @property
    def sum_specs(self):
        def G(c, st):
            it = Inst(c.h0, c["self"])
            return it.cumL
        return {"sum((len(job) for job in self.jobs))": G}


@register
class ScheduleIsComplete(Contract):
    name = "Schedule.is_complete"
    ret = BOOL
    pure = True
    properties = ("C01", "C04", "C18")

    def requires(self, c):
        h, s = c.h0, c["self"]
        pre = ScheduleNumScheduled().requires(c)
        return pre + [("instance", h.get("instance", s) > 0)] + valid_instance(h, h.get("instance", s))

    def ensures(self, c):
        h, s = c.h0, c["self"]
        it = Inst(h, h.get("instance", s))
        n = z3.Select(h.get("$$cumS", s), h.len(h.get("_schedule", s)))
        return [("complete-iff-all-operations-scheduled", c.result == (n == it.N))]
