"""Contracts of the scheduling core: Operation, ScheduledOperation, Schedule,
Dispatcher (C01, C02, C09, C10 and the basis of most other properties).

Helper pre-conditions/frames are derived from the code and its call sites; the
top-level post-conditions (Reach, Feasible, forced start, SameState on rejection)
come from the property statements.
"""
from __future__ import annotations

import z3

from pyvc.engine import Contract, Frame, LoopSpec, PURE
from pyvc.values import ANY, BOOL, FUNC, INT, LIST, NONE, OPT, REF, fresh

from .spec import (
    Disp, Inst, OBS_FIELDS, contains, derived, feasible,
    imp, reach, rng, upd_tracking, valid_instance, zmax,
)

REGISTRY: dict[str, Contract] = {}


def register(cls):
    inst = cls()
    REGISTRY[inst.name] = inst
    return cls


# ---------------------------------------------------------------------------
# Operation
# ---------------------------------------------------------------------------
@register
class OperationMachineId(Contract):
    name = "Operation.machine_id"
    ret = INT
    pure = True
    properties = ("C01", "C09", "C14")

    def requires(self, c):
        h, o = c.h0, c["self"]
        return [("has-machines", z3.And(o > 0, h.get("machines", o) > 0, h.len(h.get("machines", o)) >= 1))]

    def raises(self, c):
        h, o = c.h0, c["self"]
        return [("UninitializedAttributeError", "several-machines", h.len(h.get("machines", o)) > 1)]

    def ensures(self, c):
        h, o = c.h0, c["self"]
        return [("first-machine", c.result == h.at(h.get("machines", o), 0))]


# ---------------------------------------------------------------------------
# ScheduledOperation
# ---------------------------------------------------------------------------
def _so_wf(h, x):
    o = h.get("operation", x)
    return z3.And(x > 0, o > 0, h.get("machines", o) > 0)


@register
class SOInit(Contract):
    name = "ScheduledOperation.__init__"
    properties = ("C01", "C09")

    def requires(self, c):
        h, o = c.h0, c["operation"]
        return [("operation-wf", z3.And(c["self"] > 0, o > 0, h.get("machines", o) > 0))]

    def raises(self, c):
        h = c.h0
        return [("ValidationError", "machine-not-eligible",
                 z3.Not(contains(h, h.get("machines", c["operation"]), c["machine_id"])))]

    def exc_modifies(self, c, exc):
        s = c["self"]
        return Frame(fields={"operation": [s], "start_time": [s], "_machine_id": [s]})

    def modifies(self, c):
        s = c["self"]
        return Frame(fields={"operation": [s], "start_time": [s], "_machine_id": [s]})

    def ensures(self, c):
        h, s = c.h, c["self"]
        return [("fields", z3.And(h.get("operation", s) == c["operation"],
                                  h.get("start_time", s) == c["start_time"],
                                  h.get("_machine_id", s) == c["machine_id"]))]


@register
class SOMachineId(Contract):
    name = "ScheduledOperation.machine_id"
    ret = INT
    pure = True

    def requires(self, c):
        return [("self", c["self"] > 0)]

    def ensures(self, c):
        return [("value", c.result == c.h0.get("_machine_id", c["self"]))]


@register
class SOMachineIdSetter(Contract):
    name = "ScheduledOperation.machine_id.setter"
    properties = ("C01", "C09")

    def requires(self, c):
        return [("wf", _so_wf(c.h0, c["self"]))]

    def raises(self, c):
        h = c.h0
        return [("ValidationError", "machine-not-eligible",
                 z3.Not(contains(h, h.get("machines", h.get("operation", c["self"])), c["value"])))]

    def modifies(self, c):
        return Frame(fields={"_machine_id": [c["self"]]})

    def ensures(self, c):
        return [("set", c.h.get("_machine_id", c["self"]) == c["value"])]


@register
class SOJobId(Contract):
    name = "ScheduledOperation.job_id"
    ret = INT
    pure = True

    def requires(self, c):
        return [("wf", z3.And(c["self"] > 0, c.h0.get("operation", c["self"]) > 0))]

    def ensures(self, c):
        h = c.h0
        return [("value", c.result == h.get("job_id", h.get("operation", c["self"])))]


@register
class SOPositionInJob(Contract):
    name = "ScheduledOperation.position_in_job"
    ret = INT
    pure = True

    def requires(self, c):
        return [("wf", z3.And(c["self"] > 0, c.h0.get("operation", c["self"]) > 0))]

    def ensures(self, c):
        h = c.h0
        return [("value", c.result == h.get("position_in_job", h.get("operation", c["self"])))]


@register
class SOEndTime(Contract):
    name = "ScheduledOperation.end_time"
    ret = INT
    pure = True
    properties = ("C01", "C02", "C13")

    def requires(self, c):
        return [("wf", z3.And(c["self"] > 0, c.h0.get("operation", c["self"]) > 0))]

    def ensures(self, c):
        h, s = c.h0, c["self"]
        return [("start-plus-duration",
                 c.result == h.get("start_time", s) + h.get("duration", h.get("operation", s)))]


# ---------------------------------------------------------------------------
# JobShopInstance counts used by the dispatcher (bodies verified in views.py, C14)
# ---------------------------------------------------------------------------
@register
class InstNumJobs(Contract):
    name = "JobShopInstance.num_jobs"
    ret = INT
    pure = True

    def requires(self, c):
        return [("self", z3.And(c["self"] > 0, c.h0.get("jobs", c["self"]) > 0))]

    def ensures(self, c):
        return [("len-jobs", c.result == c.h0.len(c.h0.get("jobs", c["self"])))]


# ---------------------------------------------------------------------------
# Schedule
# ---------------------------------------------------------------------------
def sched_wf(h, S):
    """shape of a list of machine lists of scheduled operations"""
    m, m2, i = fresh("m"), fresh("m2"), fresh("i")
    Sm = lambda t: h.at(S, t)
    x = h.at(Sm(m), i)
    return [
        ("sched-outer", z3.And(S > 0, h.len(S) >= 0)),
        ("sched-lists", z3.ForAll([m], imp(rng(m, 0, h.len(S)), z3.And(Sm(m) > 0, Sm(m) != S, h.len(Sm(m)) >= 0)),
                                  patterns=[Sm(m)])),
        ("sched-lists-distinct", z3.ForAll([m, m2], imp(z3.And(rng(m, 0, h.len(S)), rng(m2, 0, h.len(S)),
                                                               Sm(m) == Sm(m2)), m == m2),
                                           patterns=[z3.MultiPattern(Sm(m), Sm(m2))])),
        ("sched-elements", z3.ForAll([m, i], imp(z3.And(rng(m, 0, h.len(S)), rng(i, 0, h.len(Sm(m)))),
                                                 z3.And(x > 0, h.get("operation", x) > 0)),
                                     patterns=[h.at(Sm(m), i)])),
    ]


def so_end(h, x):
    return h.get("start_time", x) + h.get("duration", h.get("operation", x))


def sched_valid(h, S):
    """what Schedule.check_schedule accepts"""
    m, i = fresh("m"), fresh("i")
    x = h.at(h.at(S, m), i)
    prev = h.at(h.at(S, m), i - 1)
    return z3.ForAll([m, i], imp(z3.And(rng(m, 0, h.len(S)), rng(i, 0, h.len(h.at(S, m)))),
                                 z3.And(h.get("_machine_id", x) == m,
                                        imp(i > 0, so_end(h, prev) <= h.get("start_time", x)))),
                     patterns=[h.at(h.at(S, m), i)])


@register
class ScheduleIsValidStartTime(Contract):
    name = "Schedule._is_valid_start_time"
    ret = BOOL
    pure = True
    properties = ("C01",)

    def requires(self, c):
        h = c.h0
        a, b = c["scheduled_operation"], c["previous_operation"]
        return [("wf", z3.And(a > 0, b > 0, h.get("operation", b) > 0))]

    def ensures(self, c):
        h = c.h0
        return [("prev-end-le-start",
                 c.result == (so_end(h, c["previous_operation"]) <= h.get("start_time", c["scheduled_operation"])))]


@register
class ScheduleCheckSchedule(Contract):
    name = "Schedule.check_schedule"
    pure = True
    properties = ("C01", "C03")

    def requires(self, c):
        return sched_wf(c.h0, c["schedule"])

    def raises(self, c):
        return [("ValidationError", "invalid-schedule", z3.Not(sched_valid(c.h0, c["schedule"])))]

    def _row_ok(self, h, S, m, upto):
        i = fresh("i")
        x = h.at(h.at(S, m), i)
        prev = h.at(h.at(S, m), i - 1)
        return z3.ForAll([i], imp(rng(i, 0, upto),
                                  z3.And(h.get("_machine_id", x) == m,
                                         imp(i > 0, so_end(h, prev) <= h.get("start_time", x)))),
                         patterns=[h.at(h.at(S, m), i)])

    @property
    def loops(self):
        def outer(k):
            h, S = k.h0, k["schedule"]
            m = fresh("m")
            return [("rows-before-ok", z3.ForAll([m], imp(rng(m, 0, k.i), self._row_ok(h, S, m, h.len(h.at(S, m))))))]

        def inner(k):
            h, S = k.h0, k["schedule"]
            return [("prefix-ok", self._row_ok(h, S, k.v("machine_id"), k.i)),
                    ("row-is-current", z3.And(k.v("scheduled_operations") == h.at(S, k.v("machine_id")),
                                              rng(k.v("machine_id"), 0, h.len(S))))]

        return {
            0: LoopSpec("for (machine_id, scheduled_operations) in enumerate(schedule)", outer),
            1: LoopSpec("for (i, scheduled_operation) in enumerate(scheduled_operations)", inner),
        }


@register
class ScheduleScheduleGetter(Contract):
    name = "Schedule.schedule"
    ret = LIST(LIST(REF("ScheduledOperation")))
    pure = True

    def requires(self, c):
        return [("self", c["self"] > 0)]

    def ensures(self, c):
        return [("value", c.result == c.h0.get("_schedule", c["self"]))]


@register
class ScheduleScheduleSetter(Contract):
    name = "Schedule.schedule.setter"

    def requires(self, c):
        return [("self", c["self"] > 0)] + sched_wf(c.h0, c["new_schedule"])

    def raises(self, c):
        return [("ValidationError", "invalid-schedule", z3.Not(sched_valid(c.h0, c["new_schedule"])))]

    def modifies(self, c):
        return Frame(fields={"_schedule": [c["self"]]})

    def ensures(self, c):
        return [("set", c.h.get("_schedule", c["self"]) == c["new_schedule"])]


def fresh_empty_schedule(h0, h1, S1, M):
    """S1 is a brand-new list of M brand-new empty lists"""
    m, m2 = fresh("m"), fresh("m2")
    Sm = lambda t: h1.at(S1, t)
    return [
        ("new-outer", z3.And(S1 >= h0.alloc, S1 < h1.alloc, h1.len(S1) == M)),
        ("new-inner", z3.ForAll([m], imp(rng(m, 0, M), z3.And(Sm(m) >= h0.alloc, Sm(m) < h1.alloc, Sm(m) != S1,
                                                              h1.len(Sm(m)) == 0)), patterns=[Sm(m)])),
        ("new-inner-distinct", z3.ForAll([m, m2], imp(z3.And(rng(m, 0, M), rng(m2, 0, M), Sm(m) == Sm(m2)),
                                                      m == m2), patterns=[z3.MultiPattern(Sm(m), Sm(m2))])),
    ]


@register
class ScheduleInit(Contract):
    name = "Schedule.__init__"
    params = {"schedule": LIST(LIST(REF("ScheduledOperation")))}
    properties = ("C01", "C02", "C12")

    def requires(self, c):
        h = c.h0
        S = c["schedule"]
        I = c["instance"]
        wf = [(n, imp(S != 0, p)) for n, p in sched_wf(h, S)]
        return [("self", z3.And(c["self"] > 0, I > 0, h.get("$num_machines", I) >= 0))] + wf

    def raises(self, c):
        S = c["schedule"]
        return [("ValidationError", "invalid-schedule", z3.And(S != 0, z3.Not(sched_valid(c.h0, S))))]

    def modifies(self, c):
        s = c["self"]
        return Frame(fields={"instance": [s], "_schedule": [s], "metadata": [s]}, allocates="lists")

    def ensures(self, c):
        h0, h, s = c.h0, c.h, c["self"]
        S1 = h.get("_schedule", s)
        M = h0.get("$num_machines", c["instance"])
        given = c["schedule"] != 0
        out = [("instance", h.get("instance", s) == c["instance"]),
               ("given-schedule-kept", imp(given, S1 == c["schedule"]))]
        out += [(n, imp(z3.Not(given), p)) for n, p in fresh_empty_schedule(h0, h, S1, M)]
        return out


@register
class ScheduleReset(Contract):
    name = "Schedule.reset"
    properties = ("C02", "C12")

    def requires(self, c):
        h, s = c.h0, c["self"]
        I = h.get("instance", s)
        return [("self", z3.And(s > 0, I > 0, h.get("$num_machines", I) >= 0))]

    def modifies(self, c):
        return Frame(fields={"_schedule": [c["self"]]}, allocates="lists")

    def ensures(self, c):
        h0, h, s = c.h0, c.h, c["self"]
        M = h0.get("$num_machines", h0.get("instance", s))
        return fresh_empty_schedule(h0, h, h.get("_schedule", s), M)


@register
class InstNumMachines(Contract):
    name = "JobShopInstance.num_machines"
    ret = INT
    pure = True
    abstract = True  # body verified under C14 (contracts/views.py) against the definition of $num_machines

    def requires(self, c):
        return [("self", c["self"] > 0)]

    def ensures(self, c):
        return [("ghost-num-machines", c.result == c.h0.get("$num_machines", c["self"]))]


@register
class ScheduleMakespan(Contract):
    name = "Schedule.makespan"
    ret = INT
    pure = True
    properties = ("C02", "C06", "C13")

    def requires(self, c):
        h, s = c.h0, c["self"]
        return [("self", s > 0)] + sched_wf(h, h.get("_schedule", s))

    @staticmethod
    def spec(h, S, upto, r):
        """r is the maximum over machines < upto of the end of the last operation (0 if none)"""
        m = fresh("m")
        last_end = lambda t: so_end(h, h.at(h.at(S, t), h.len(h.at(S, t)) - 1))
        nonempty = lambda t: h.len(h.at(S, t)) > 0
        return z3.And(
            r >= 0,
            z3.ForAll([m], imp(z3.And(rng(m, 0, upto), nonempty(m)), r >= last_end(m)), patterns=[h.at(S, m)]),
            z3.Or(r == 0, z3.Exists([m], z3.And(rng(m, 0, upto), nonempty(m), r == last_end(m)))))

    def ensures(self, c):
        h = c.h0
        S = h.get("_schedule", c["self"])
        return [("max-of-last-ends", self.spec(h, S, h.len(S), c.result))]

    @property
    def loops(self):
        def inv(k):
            h = k.h0
            S = h.get("_schedule", k["self"])
            return [("partial-max", self.spec(h, S, k.i, k.v("max_end_time")))]
        return {0: LoopSpec("for machine_schedule in self.schedule", inv)}


def _add_pre(h, s, x):
    S = h.get("_schedule", s)
    return [("self", z3.And(s > 0, x > 0, h.get("operation", x) > 0)),
            ("machine-in-range", rng(h.get("_machine_id", x), 0, h.len(S)))] + sched_wf(h, S)


def _add_rejects(h, s, x):
    S = h.get("_schedule", s)
    lst = h.at(S, h.get("_machine_id", x))
    n = h.len(lst)
    return z3.And(n > 0, so_end(h, h.at(lst, n - 1)) > h.get("start_time", x))


@register
class ScheduleCheckStart(Contract):
    name = "Schedule._check_start_time_of_new_operation"
    pure = True
    properties = ("C01", "C09")

    def requires(self, c):
        return _add_pre(c.h0, c["self"], c["new_operation"])

    def raises(self, c):
        return [("ValidationError", "starts-before-last-ends", _add_rejects(c.h0, c["self"], c["new_operation"]))]


@register
class ScheduleAdd(Contract):
    name = "Schedule.add"
    properties = ("C01", "C09")

    def requires(self, c):
        return _add_pre(c.h0, c["self"], c["scheduled_operation"])

    def raises(self, c):
        return [("ValidationError", "starts-before-last-ends",
                 _add_rejects(c.h0, c["self"], c["scheduled_operation"]))]

    def _lst(self, c):
        h = c.h0
        return h.at(h.get("_schedule", c["self"]), h.get("_machine_id", c["scheduled_operation"]))

    def modifies(self, c):
        return Frame(lists=[self._lst(c)])

    def ensures(self, c):
        h0, h = c.h0, c.h
        lst = self._lst(c)
        n = h0.len(lst)
        return [("appended", z3.And(h.len(lst) == n + 1,
                                    z3.Select(h.El, lst) == z3.Store(z3.Select(h0.El, lst), n,
                                                                     c["scheduled_operation"])))]
