"""C13: dense rewards add up to the sparse objective.  Method-level contracts of the
reward observers (each update emits exactly one non-positive reward equal to the change
of the objective) plus step lemmas over `dispatch`'s contract; the telescoping over a
whole history composes them through C10 (every dispatch -> exactly one update, post-state)."""
from __future__ import annotations

import z3

from pyvc.engine import Contract, Frame
from pyvc.values import BOOL, INT, REF, Heap, fresh, forall

from .core import REGISTRY, ScheduleMakespan, last_dispatched, reach, register, so_end
from .observers import ObserverInit
from .spec import Disp, SHAPE, bv, imp, rng, zmax


def rewards_list(h, o):
    return (h.get("rewards", o), "o")


def is_makespan(h, d, r):
    D = Disp(h, d)
    return ScheduleMakespan.spec(h, D.S, D.M, r)


@register
class RewardInit(Contract):
    name = "RewardObserver.__init__"
    properties = ("C13",)

    def requires(self, c):
        return ObserverInit().requires(c)

    def raises(self, c):
        return ObserverInit().raises(c)

    def modifies(self, c):
        s = c["self"]
        return Frame(fields={"dispatcher": [s], "rewards": [s]}, lists=[c.h0.get("subscribers", c["dispatcher"])],
                     alloc_olists=True)

    def ensures(self, c):
        h = c.h
        return ObserverInit().ensures(c) + [("no-reward-yet", z3.And(h.get("rewards", c["self"]) >= c.h0.alloc,
                                                                   h.len(rewards_list(h, c["self"])) == 0))]


@register
class RewardLast(Contract):
    name = "RewardObserver.last_reward"
    ret = INT
    pure = True
    properties = ("C13",)

    def requires(self, c):
        return [("self", z3.And(c["self"] > 0, c.h0.get("rewards", c["self"]) > 0))]

    def ensures(self, c):
        h = c.h0
        l = rewards_list(h, c["self"])
        return [("last-emitted-reward-or-zero", c.result == z3.If(h.len(l) > 0, h.at(l, h.len(l) - 1), 0))]


@register
class RewardReset(Contract):
    name = "RewardObserver.reset"
    properties = ("C12", "C13")

    def requires(self, c):
        return [("self", c["self"] > 0)]

    def modifies(self, c):
        return Frame(fields={"rewards": [c["self"]]}, alloc_olists=True)

    def ensures(self, c):
        h = c.h
        return [("no-reward-yet", z3.And(h.get("rewards", c["self"]) >= c.h0.alloc,
                                         h.len(rewards_list(h, c["self"])) == 0))]


def _appended(h0, h, o, value):
    l = rewards_list(h0, o)
    n = h0.len(l)
    return z3.And(h.len(l) == n + 1, h.elarr(l) == z3.Store(h0.elarr(l), n, value))


@register
class MakespanRewardInit(Contract):
    name = "MakespanReward.__init__"
    properties = ("C13",)
    params = {"subscribe": BOOL}

    def requires(self, c):
        return ObserverInit().requires(c)

    def raises(self, c):
        return ObserverInit().raises(c)

    def modifies(self, c):
        s = c["self"]
        return Frame(fields={"dispatcher": [s], "rewards": [s], "current_makespan": [s]},
                     lists=[c.h0.get("subscribers", c["dispatcher"])], alloc_olists=True)

    def ensures(self, c):
        h, s = c.h, c["self"]
        return RewardInit().ensures(c) + [("records-the-current-makespan",
                                          is_makespan(h, c["dispatcher"], h.get("current_makespan", s)))]


@register
class MakespanRewardReset(Contract):
    name = "MakespanReward.reset"
    properties = ("C12", "C13")

    def requires(self, c):
        h = c.h0
        d = h.get("dispatcher", c["self"])
        return [("self", z3.And(c["self"] > 0, d > 0))] + reach(h, d)

    def modifies(self, c):
        return Frame(fields={"rewards": [c["self"]], "current_makespan": [c["self"]]}, alloc_olists=True)

    def ensures(self, c):
        h, s = c.h, c["self"]
        return RewardReset().ensures(c) + [("records-the-current-makespan",
                                           is_makespan(h, c.h0.get("dispatcher", s), h.get("current_makespan", s)))]


@register
class MakespanRewardUpdate(Contract):
    """pre: the recorded makespan is the makespan before this dispatch, i.e. maxed with the
    end of the new operation it is the makespan now.  post: exactly one reward
    r = old - new <= 0 is appended and the record equals the makespan now."""
    name = "MakespanReward.update"
    properties = ("C13",)

    def requires(self, c):
        h, s, x = c.h0, c["self"], c["scheduled_operation"]
        d = h.get("dispatcher", s)
        cm = h.get("current_makespan", s)
        return REGISTRY["DispatcherObserver.update"].requires(c) + [
            ("rewards-list", h.get("rewards", s) > 0),
            ("record-is-the-makespan-before-this-dispatch", is_makespan(h, d, zmax(cm, so_end(h, x))))]

    def modifies(self, c):
        return Frame(fields={"current_makespan": [c["self"]]}, olists=[c.h0.get("rewards", c["self"])])

    def ensures(self, c):
        h0, h, s, x = c.h0, c.h, c["self"], c["scheduled_operation"]
        d = h0.get("dispatcher", s)
        old = h0.get("current_makespan", s)
        new = h.get("current_makespan", s)
        return [("one-nonpositive-reward-equal-to-the-makespan-change",
                 z3.And(_appended(h0, h, s, old - new), old - new <= 0)),
                ("record-is-the-makespan-now", is_makespan(h0, d, new))]


@register
class IdleTimeRewardUpdate(Contract):
    name = "IdleTimeReward.update"
    properties = ("C13",)
    relevant = {"one-reward-equal-to-minus-the-new-idle-time": SHAPE + ["R4a-scheduled-are-ops"],
                "reward-nonpositive": SHAPE + ["R4a-scheduled-are-ops", "R6-forced-start"]}

    def requires(self, c):
        h, s = c.h0, c["self"]
        return REGISTRY["DispatcherObserver.update"].requires(c) + [("rewards-list", h.get("rewards", s) > 0)]

    def modifies(self, c):
        return Frame(olists=[c.h0.get("rewards", c["self"])], alloc_olists=True)

    def ensures(self, c):
        h0, h, s, x = c.h0, c.h, c["self"], c["scheduled_operation"]
        d = h0.get("dispatcher", s)
        D = Disp(h0, d)
        m = D.mid(x)
        n = D.nS(m)
        gap = D.start(x) - D.mp_end(m, n - 1)
        return [("one-reward-equal-to-minus-the-new-idle-time", _appended(h0, h, s, -gap)),
                ("reward-nonpositive", -gap <= 0)]


# ---------------------------------------------------------------------------
# step lemmas over dispatch's contract
# ---------------------------------------------------------------------------
def _dispatch_step():
    from pyvc.engine import Ctx
    from pyvc.values import Val, OPT
    from .core import _eff_machine
    from .lemmas import after_call
    con = REGISTRY["Dispatcher.dispatch"]
    d, o = fresh("d"), fresh("o")
    mid = Val(OPT(INT), Val(INT, fresh("m")), fresh("m_none", z3.BoolSort()))
    args = {"self": Val(REF("Dispatcher"), d), "operation": Val(REF("Operation"), o), "machine_id": mid}
    h0, h1, pc = after_call(con, args, "S")
    m = _eff_machine(Ctx(None, h0, h0, args))
    D0, D1 = Disp(h0, d), Disp(h1, d)
    x = D1.x(m, D0.nS(m))
    return h0, h1, d, o, m, x, pc, D0, D1


def install_lemmas():
    from .lemmas import lemma

    @lemma("dispatch-makespan-step", ("C13",))
    def _ms():
        """if r is the makespan before an accepted dispatch then max(r, end of the new
        operation) is the makespan after it (so MakespanReward.update's pre-condition holds
        whenever its record was right before the dispatch).  Guided: the machine attaining r is
        named (exists-elimination), the machine attaining the new maximum is given explicitly."""
        h0, h1, d, o, m, x, pc, D0, D1 = _dispatch_step()
        r, m0, mq = fresh("r"), fresh("m0"), fresh("mq")
        e = D1.end(x)
        new = zmax(r, e)
        last0 = lambda t: D0.end(D0.x(t, D0.nS(t) - 1))
        last1 = lambda t: D1.end(D1.x(t, D1.nS(t) - 1))
        mm = bv("mm")
        ge0 = forall([mm], imp(z3.And(rng(mm, 0, D0.M), D0.nS(mm) > 0), r >= last0(mm)), patterns=[D0.Sm(mm)])
        pre = pc + [r >= 0, ge0, z3.Or(r == 0, z3.And(rng(m0, 0, D0.M), D0.nS(m0) > 0, r == last0(m0)))]
        at = lambda t: z3.And(rng(t, 0, D1.M), D1.nS(t) > 0, new == last1(t))
        out = [
            ("new-end-is-the-last-end-of-the-chosen-machine", pre, z3.And(rng(m, 0, D1.M), D1.nS(m) > 0, last1(m) == e)),
            ("no-last-end-exceeds-the-new-maximum", pre + [rng(mq, 0, D1.M), D1.nS(mq) > 0], new >= last1(mq)),
            ("the-new-maximum-is-attained", pre + [last1(m) == e, rng(m, 0, D1.M), D1.nS(m) > 0],
             z3.Or(new == 0, at(m), at(m0))),
        ]
        ge1 = forall([mm], imp(z3.And(rng(mm, 0, D1.M), D1.nS(mm) > 0), new >= last1(mm)), patterns=[D1.Sm(mm)])
        out.append(("makespan-after-is-max-of-before-and-new-end",
                    [new >= 0, ge1, z3.Or(new == 0, at(m), at(m0))], is_makespan(h1, d, new)))
        return out

    @lemma("dispatch-idle-step", ("C13",))
    def _idle():
        """the idle time of the chosen machine (its next-available time minus the durations
        on it) grows by exactly start(new) - end(previous on the machine): the reward
        IdleTimeReward emits, negated"""
        h0, h1, d, o, m, x, pc, D0, D1 = _dispatch_step()
        n = D0.nS(m)
        dur = D0.it.dur(o)
        return [("idle-grows-by-the-gap", pc, (D1.mn(m) - dur) - D0.mn(m) == D1.start(x) - D0.mp_end(m, n)),
                ("gap-nonnegative", pc, D1.start(x) - D0.mp_end(m, n) >= 0)]


install_lemmas()
