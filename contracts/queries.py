"""C05: the dispatcher's state queries and the @_dispatcher_cache decorator.

Each cached query `q` has two contracts:
* `Dispatcher.q$raw`  -- the real body of q against `result ~ Spec_q(state)`;
* `Dispatcher.q`      -- what callers see: the REAL wrapper body of `_dispatcher_cache`
  (source `_dispatcher_cache.wrapper`), executed with `method` bound to q's raw contract
  and `method.__name__ = "q"`, against `result ~ Spec_q(state)` and the cache invariant.
The cache dictionary is modelled as one (present, value) pair of ghost fields per
decorated method name (the set of names is read from the decorators on every run).
"""
from __future__ import annotations

import z3

from pyvc.engine import AbstractCallable, Contract, Frame, LoopSpec
from pyvc.values import BOOL, FUNC, INT, LIST, REF, Val, forall, fresh, from_int

from .core import REGISTRY, ScheduleMakespan, reach, register
from .filters import OPS, is_now, ms_axiom, ms_term, ready_sorted
from .spec import CACHED, Disp, SHAPE, bv, cache_empty, cache_fields, imp, rng


# ---------------------------------------------------------------------------
# specs (relations between a result and the state)
# ---------------------------------------------------------------------------
def spec_raw_ready(h, d, L):
    """the next operation of every unfinished job, in job order"""
    D = Disp(h, d)
    j, r = bv("j"), bv("rr")
    return ready_sorted(h, d, L, "result") + [
        ("every-unfinished-job-is-represented", forall([j], imp(
            z3.And(rng(j, 0, D.it.J), D.kj(j) < D.it.L(j)),
            z3.Exists([r], z3.And(rng(r, 0, h.len(L)), h.at(L, r) == D.it.op(j, D.kj(j)))))))]


def us_index(D, o):
    """where operation o = (j, p), p >= k_j, sits in unscheduled_operations()"""
    j = D.it.jid(o)
    return D.it.cumL(j) - D.cumK(j) + D.it.pos(o) - D.kj(j)


def spec_unscheduled(h, d, U):
    """every operation with position >= its job's next index, job by job, in job order:
    operation (j, p) sits at index  sum_{j'<j} (L_j' - k_j') + (p - k_j)"""
    D = Disp(h, d)
    j, p = bv("j"), bv("p")
    r = bv("ru")
    return [("result-list", z3.And(U > 0, U < h.alloc)),
            ("elements-are-unscheduled-operations", forall([r], imp(rng(r, 0, h.len(U)), z3.And(
                D.it.is_op(h.at(U, r)), D.it.pos(h.at(U, r)) >= D.kj(D.it.jid(h.at(U, r))))), patterns=[h.at(U, r)])),
            ("as-many-as-not-scheduled", h.len(U) == D.it.N - D.n),
            ("each-element-sits-at-its-place", forall([r], imp(rng(r, 0, h.len(U)), r == us_index(D, h.at(U, r))),
                                                      patterns=[h.at(U, r)])),
            ("each-unscheduled-operation-at-its-place", forall([j, p], imp(
                z3.And(rng(j, 0, D.it.J), rng(p, D.kj(j), D.it.L(j))),
                h.at(U, D.it.cumL(j) - D.cumK(j) + p - D.kj(j)) == D.it.op(j, p)), patterns=[D.it.op(j, p)]))]


def spec_scheduled(h, d, Sx):
    D = Disp(h, d)
    j, p = bv("j"), bv("p")
    return [("result-list", z3.And(Sx > 0, Sx < h.alloc)),
            ("as-many-as-scheduled", h.len(Sx) == D.n),
            ("each-scheduled-operation-at-its-place", forall([j, p], imp(
                z3.And(rng(j, 0, D.it.J), rng(p, 0, D.kj(j))), h.at(Sx, D.cumK(j) + p) == D.it.op(j, p)),
                patterns=[D.it.op(j, p)]))]


def spec_available(h, d, A):
    """a sub-list of the ready operations in job order, non-empty while some job is unfinished;
    all of them when no filter is installed"""
    D = Disp(h, d)
    j, r = bv("j"), bv("rr")
    flt = h.get("ready_operations_filter", d)
    some = z3.Exists([j], z3.And(rng(j, 0, D.it.J), D.kj(j) < D.it.L(j)))
    complete = forall([j], imp(z3.And(rng(j, 0, D.it.J), D.kj(j) < D.it.L(j)),
                               z3.Exists([r], z3.And(rng(r, 0, h.len(A)), h.at(A, r) == D.it.op(j, D.kj(j))))))
    return ready_sorted(h, d, A, "result") + [
        ("non-empty-while-some-job-is-unfinished", imp(some, h.len(A) > 0)),
        ("all-ready-operations-without-filter", imp(flt == 0, complete))]


def spec_current_time(h, d, t):
    flt = h.get("ready_operations_filter", d)
    return [("unfiltered-current-time", imp(flt == 0, is_now(h, d, t)))]


SO_LIST = LIST(REF("ScheduledOperation"))
SO_LIST_O = LIST(REF("ScheduledOperation"), "o")


def spec_ongoing_entry(h, d, G):
    """what the CACHE INVARIANT carries about an ongoing_operations entry: a list of objects (what the body computes --
    exactly the scheduled operations that end after the current time -- is the post-condition of
    `Dispatcher.ongoing_operations$raw`, spec_ongoing below; it speaks about start times and the contents of every
    machine list and is therefore not carried around as an opaque atom over a few heap components)"""
    r = bv("rg")
    L = (G, "o")
    D = Disp(h, d)
    return [("result-list", z3.And(G > 0, G < h.alloc, h.len(L) >= 0)),
            ("elements-are-objects", forall([r], imp(rng(r, 0, h.len(L)), z3.And(
                h.at(L, r) > 0, D.it.is_op(D.opx(h.at(L, r))))), patterns=[h.at(L, r)]))]


def spec_uncompleted_entry(h, d, L):
    """what the cache invariant carries about an uncompleted_operations entry: a list of operations of the instance
    (its value -- unscheduled followed by ongoing -- is the post-condition of `Dispatcher.uncompleted_operations$raw`)"""
    from .filters import ops_wf
    return ops_wf(h, d, L, "result")


SPECS = {
    "ongoing_operations": (SO_LIST_O, spec_ongoing_entry),
    "uncompleted_operations": (OPS, spec_uncompleted_entry),
    "raw_ready_operations": (OPS, spec_raw_ready),
    "unscheduled_operations": (OPS, spec_unscheduled),
    "scheduled_operations": (OPS, spec_scheduled),
    "available_operations": (OPS, spec_available),
    "current_time": (INT, spec_current_time),
}


def _components(h, d, ty, val):
    """the local heap components the query specs depend on: the contents of the three tracking
    vectors, the filter, the ghost prefix sums, and the value itself (length and content for a
    list).  The instance is immutable (frame of every function under contract)."""
    D = Disp(h, d)
    out = [h.elarr(D.k), h.elarr(D.mnat), h.elarr(D.jnat), h.get("ready_operations_filter", d), D.I, d, D.M,
           h.get("$$cumS", D.sch), h.get("$$cumK", d), h.get("$$cumL", D.I)]
    if ty.kind == "list":
        L = (val, ty.region) if getattr(ty, "region", None) == "o" else val
        out += [h.len(L), h.elarr(L)]
    else:
        out.append(val)
    return out


def opaque_entry(key, h, d, val):
    """Spec_key(state, value) as an opaque atom over local components (opaque/reveal): the cache
    invariant is carried around as atoms and survives unrelated heap changes by array reasoning;
    `reveal` gives its definition where the meaning is needed"""
    ty, _ = SPECS[key]
    comps = _components(h, d, ty, val)
    P = z3.Function(f"CacheSpec:{key}", *[x.sort() for x in comps], z3.BoolSort())
    return P(*comps)


def reveal(key, h, d, val):
    ty, spec = SPECS[key]
    return opaque_entry(key, h, d, val) == z3.And([p for _, p in spec(h, d, val)])


def cache_ok(h, d):
    """CacheOK(d): every present entry equals the spec in the CURRENT state"""
    out = []
    for k, (ty, spec) in SPECS.items():
        has = h.get(f"$cache_has:{k}", d) != 0
        val = from_int(ty, h.get(f"$cache_val:{k}", d)).t
        exists = z3.And(val > 0, val < h.alloc) if ty.kind == "list" else z3.BoolVal(True)
        out.append((f"cache-entry-current:{k}", imp(has, z3.And(exists, opaque_entry(k, h, d, val)))))
    return out


def _old_or_fresh(h0, d, v):
    """v was allocated during the call or is one of the lists that were cached before it"""
    alts = [v >= h0.alloc]
    for k2, (ty2, _) in SPECS.items():
        if ty2.kind == "list":
            alts.append(z3.And(h0.get(f"$cache_has:{k2}", d) != 0, v == h0.get(f"$cache_val:{k2}", d)))
    return z3.Or(alts)


def cache_values_old_or_fresh(h0, h, d):
    """a callee cannot have cached a list of the caller: every cached list is one that was cached
    before the call (under some key: available_operations may hand out the raw ready list) or a
    reference allocated during the call"""
    out = []
    for k, (ty, _) in SPECS.items():
        if ty.kind == "list":
            out.append(imp(h.get(f"$cache_has:{k}", d) != 0, _old_or_fresh(h0, d, h.get(f"$cache_val:{k}", d))))
    return [("cached-values-old-or-fresh", z3.And(out))]


def cached_entries_kept(h0, h, d):
    """the cache is write-once between invalidations: an entry present before a query is the same
    entry afterwards (the wrapper only stores under an absent key)"""
    return [("cached-entries-kept", z3.And([
        imp(h0.get(f"$cache_has:{k}", d) != 0, z3.And(h.get(f"$cache_has:{k}", d) != 0,
                                                       h.get(f"$cache_val:{k}", d) == h0.get(f"$cache_val:{k}", d)))
        for k in CACHED]))]


def cache_effect(h0, h, d):
    return cache_values_old_or_fresh(h0, h, d) + cached_entries_kept(h0, h, d)


_Q_CLAUSES = ["result-are-operations", "result-are-ready", "result-in-job-order", "every-unfinished-job-is-represented",
              "result-list", "as-many-as-not-scheduled", "each-unscheduled-operation-at-its-place",
              "as-many-as-scheduled", "each-scheduled-operation-at-its-place",
              "non-empty-while-some-job-is-unfinished", "all-ready-operations-without-filter",
              "unfiltered-current-time", "placed-so-far", "elements-so-far", "elements-are-unscheduled-operations",
              "each-element-sits-at-its-place"]
_Q_REL = {n: SHAPE + ["R9-count-per-machine", "R9-count-per-job", "R9-count-per-job-monotone", "R9-counts-agree",
                      "R9-deficit-monotone", "inst-cum",
                      "inst-cum-monotone", "inst-machines"] for n in _Q_CLAUSES}


class _Raw(Contract):
    key = ""
    params = {"self": REF("Dispatcher")}
    properties = ("C05",)
    relevant = _Q_REL

    def requires(self, c):
        return reach(c.h0, c["self"]) + cache_ok(c.h0, c["self"])

    def modifies(self, c):
        fields = {f: [c["self"]] for f in cache_fields()}
        fields["$oidx"] = "ALL"
        return Frame(fields=fields, alloc_lists=True)

    def ensures(self, c):
        ty, spec = SPECS[self.key]
        fresh_or_cached = []
        if ty.kind == "list":
            fresh_or_cached = [("result-is-a-cached-list-or-new", _old_or_fresh(c.h0, c["self"], c.result))]
        return spec(c.h, c["self"], c.result) + cache_ok(c.h, c["self"]) + \
            cache_effect(c.h0, c.h, c["self"]) + fresh_or_cached


class _Cached(Contract):
    """public contract of a cached query = the real `_dispatcher_cache.wrapper` body"""
    key = ""
    source = "_dispatcher_cache.wrapper"
    params = {"self": REF("Dispatcher")}
    properties = ("C05",)
    borrowed = True
    relevant = _Q_REL

    def setup(self, eng, st, args):
        self.globals = {"method": Val(FUNC, AbstractCallable(f"Dispatcher.{self.key}$raw", self.key))}

    def ghost_entry(self, c, st):
        # reveal the meaning of the entry that may be returned from the cache
        ty, _ = SPECS[self.key]
        val = from_int(ty, c.h0.get(f"$cache_val:{self.key}", c["self"])).t
        st.assume(reveal(self.key, c.h0, c["self"], val), "definition:cachespec")

    @property
    def ghost_after(self):
        def stored(c, st):
            # ... and of the entry just stored
            st.assume(reveal(self.key, st.heap, c["self"], st.env["result"].t), "definition:cachespec")
        return {"self._cache[cache_key] = result": stored}

    def requires(self, c):
        return reach(c.h0, c["self"]) + cache_ok(c.h0, c["self"])

    def modifies(self, c):
        fields = {f: [c["self"]] for f in cache_fields()}
        fields["$oidx"] = "ALL"
        if self.key in ("ongoing_operations", "uncompleted_operations"):   # the list is built in the second region, with a ghost index
            fields["$$og_idx"] = [c["self"]]
            return Frame(fields=fields, alloc_lists=True, alloc_olists=True)
        return Frame(fields=fields, alloc_lists=True)

    def ensures(self, c):
        ty, spec = SPECS[self.key]
        fresh_or_cached = []
        if ty.kind == "list":
            fresh_or_cached = [("result-is-a-cached-list-or-new", _old_or_fresh(c.h0, c["self"], c.result))]
        from pyvc.values import to_int
        stored = [("entry-is-cached-afterwards", z3.And(
            c.h.get(f"$cache_has:{self.key}", c["self"]) != 0,
            c.h.get(f"$cache_val:{self.key}", c["self"]) == to_int(c.res)))]
        return spec(c.h, c["self"], c.result) + cache_ok(c.h, c["self"]) + \
            cache_effect(c.h0, c.h, c["self"]) + fresh_or_cached + stored


def make(key):
    ty, spec = SPECS[key]
    raw = type(f"Raw_{key}", (_Raw,), {"name": f"Dispatcher.{key}$raw", "key": key, "ret": ty})
    rel = {n: v + [f"cache-entry-current:{key}"] for n, v in _Q_REL.items()}
    pub = type(f"Cached_{key}", (_Cached,), {"name": f"Dispatcher.{key}", "key": key, "ret": ty, "relevant": rel})
    register(raw)
    register(pub)
    return REGISTRY[f"Dispatcher.{key}$raw"], REGISTRY[f"Dispatcher.{key}"]


RAW, PUB = {}, {}
for _k in SPECS:
    RAW[_k], PUB[_k] = make(_k)


def _slice_loop(list_name, scheduled):
    """invariant of `for job_id, next_position in enumerate(k): out.extend(jobs[job_id][...])`"""
    def inv(k):
        h0, h, d = k.h0, k.h, k["self"]
        D = Disp(h0, d)
        U = k.v(list_name)
        j, p = bv("j"), bv("p")
        if scheduled:
            size = D.cumK(k.i)
            placed = forall([j, p], imp(z3.And(rng(j, 0, k.i), rng(p, 0, D.kj(j))),
                                        h.at(U, D.cumK(j) + p) == D.it.op(j, p)), patterns=[D.it.op(j, p)])
        else:
            size = D.it.cumL(k.i) - D.cumK(k.i)
            placed = forall([j, p], imp(z3.And(rng(j, 0, k.i), rng(p, D.kj(j), D.it.L(j))),
                                        h.at(U, D.it.cumL(j) - D.cumK(j) + p - D.kj(j)) == D.it.op(j, p)),
                            patterns=[D.it.op(j, p)])
        r = bv("ru")
        elems = forall([r], imp(rng(r, 0, h.len(U)), z3.And(
            D.it.is_op(h.at(U, r)), (D.it.pos(h.at(U, r)) < D.kj(D.it.jid(h.at(U, r)))) if scheduled
            else z3.And(D.it.pos(h.at(U, r)) >= D.kj(D.it.jid(h.at(U, r))), r == us_index(D, h.at(U, r))))),
            patterns=[h.at(U, r)])
        return [("result-list", z3.And(U >= h0.alloc, U < h.alloc, h.len(U) == size)),
                ("elements-so-far", elems),
                ("placed-so-far", placed)] + reach(h, d)

    def mod(k):
        return Frame(lists=[k.v(list_name)], alloc_lists=True)
    return inv, mod


_inv_u, _mod_u = _slice_loop("unscheduled_operations", False)
type(RAW["unscheduled_operations"]).loops = property(lambda self: {
    0: LoopSpec("for (job_id, next_position) in enumerate(self._job_next_operation_index)", _inv_u, _mod_u)})
_inv_s, _mod_s = _slice_loop("scheduled_operations", True)
type(RAW["scheduled_operations"]).loops = property(lambda self: {
    0: LoopSpec("for (job_id, next_position) in enumerate(self._job_next_operation_index)", _inv_s, _mod_s)})


# ---------------------------------------------------------------------------
# the cache invariant in the contracts of the core (C05/C10: observers are notified when the
# cache has already been cleared, and whatever they query keeps it consistent)
# ---------------------------------------------------------------------------
# ---------------------------------------------------------------------------
# ongoing_operations: the body (reversed scan of every machine's list with `break` against the current time)
# ---------------------------------------------------------------------------
CT_HAS, CT_VAL = "$cache_has:current_time", "$cache_val:current_time"


def spec_ongoing(h, d, G, t):
    """G lists exactly the scheduled operations that end after t: machine by machine in machine order, latest first"""
    D = Disp(h, d)
    r, r2, m, i = bv("rg"), bv("rg2"), bv("mg"), bv("ig")
    Gref, G = G, (G, "o")       # the list lives in the second list region (see OngoingRaw.alloc_region)
    x = h.at(G, r)
    o = D.opx(x)
    x2 = h.at(G, r2)
    return [
        ("result-list", z3.And(Gref > 0, Gref < h.alloc, h.len(G) >= 0)),
        ("elements-are-scheduled-operations-that-end-after-the-current-time", forall([r], imp(rng(r, 0, h.len(G)), z3.And(
            rng(D.posm(o), 0, D.M), rng(D.posi(o), 0, D.nS(D.posm(o))), D.x(D.posm(o), D.posi(o)) == x, D.end(x) > t)),
            patterns=[h.at(G, r)])),
        ("machine-by-machine-latest-first", forall([r, r2], imp(
            z3.And(rng(r, 0, h.len(G)), rng(r2, 0, h.len(G)), r < r2),
            z3.Or(D.posm(o) < D.posm(D.opx(x2)), z3.And(D.posm(o) == D.posm(D.opx(x2)), D.posi(o) > D.posi(D.opx(x2))))),
            patterns=[z3.MultiPattern(h.at(G, r), h.at(G, r2))])),
        ("every-operation-that-ends-after-the-current-time-is-listed", forall([m, i], imp(
            z3.And(rng(m, 0, D.M), rng(i, 0, D.nS(m)), D.end(D.x(m, i)) > t),
            z3.Exists([r], z3.And(rng(r, 0, h.len(G)), h.at(G, r) == D.x(m, i)))), patterns=[D.x(m, i)])),
    ]


def _og_idx(h, d, x):
    """ghost: index at which the scheduled operation x was appended to the list being built"""
    return z3.Select(h.get("$$og_idx", d), x)


@register
class LemmaMachineEndsMonotone(Contract):
    """ghost lemma (contracts/ghost_src.py), an induction written as a loop"""
    name = "lemma_machine_ends_monotone"
    ret = INT
    pure = True
    properties = ("C05",)
    params = {"dispatcher": REF("Dispatcher"), "machine_id": INT, "index": INT}

    def requires(self, c):
        D = Disp(c.h0, c["dispatcher"])
        return reach(c.h0, c["dispatcher"]) + [("a-scheduled-position", z3.And(
            rng(c["machine_id"], 0, D.M), rng(c["index"], 0, D.nS(c["machine_id"]))))]

    def ensures(self, c):
        D = Disp(c.h0, c["dispatcher"])
        m, q = c["machine_id"], c["index"]
        i = bv("il")
        return [("earlier-operations-on-the-machine-end-no-later", forall([i], imp(
            rng(i, 0, q + 1), D.end(D.x(m, i)) <= D.end(D.x(m, q))), patterns=[D.x(m, i)]))]

    @property
    def loops(self):
        def inv(k):
            D = Disp(k.h0, k["dispatcher"])
            m, q, p = k["machine_id"], k["index"], k.v("position")
            i = bv("il")
            return [("from-here-on-no-later", z3.And(p >= 0, p <= q, D.end(D.x(m, p)) <= D.end(D.x(m, q)), forall([i], imp(
                rng(i, p, q + 1), D.end(D.x(m, i)) <= D.end(D.x(m, q))), patterns=[D.x(m, i)])))]
        return {0: LoopSpec("while position > 0", inv, decreases=lambda k: k.v("position"))}


@register
class OngoingRaw(Contract):
    """the body of ongoing_operations: returns exactly the scheduled operations whose end is after the value
    current_time() returned (which is in the cache afterwards), machine by machine, latest first.  (That a CACHED answer
    is still current is not part of this contract: dispatch / reset clear the whole cache -- proved for every key --
    and the public contract below stays the assumed one.)"""
    name = "Dispatcher.ongoing_operations$raw"
    ret = SO_LIST_O
    params = {"self": REF("Dispatcher")}
    properties = ("C05",)
    # the list built here is allocated in the second list region (the regions are a static partition of the list
    # objects, see DESIGN 0.3): appending to it then cannot, syntactically, touch the schedule's own lists
    alloc_region = "o"

    def requires(self, c):
        return reach(c.h0, c["self"]) + cache_ok(c.h0, c["self"])

    def modifies(self, c):
        fields = {f: [c["self"]] for f in cache_fields()}
        fields["$oidx"] = "ALL"
        fields["$$og_idx"] = [c["self"]]
        return Frame(fields=fields, alloc_lists=True, alloc_olists=True)

    def ensures(self, c):
        h, d = c.h, c["self"]
        return [("the-current-time-is-cached", h.get(CT_HAS, d) != 0),
                ("result-is-a-new-list", z3.And(c.result >= c.h0.alloc, c.result < h.alloc))] \
            + spec_ongoing(h, d, c.result, h.get(CT_VAL, d)) + cache_ok(h, d) + cache_effect(c.h0, h, d)

    @property
    def ghost_after(self):
        def broke(c, st):
            # ghost call of the verified lemma at the operation the scan stops at: everything before it on this machine
            # has ended by then as well
            h, d = st.heap, c["self"]
            D = Disp(h, d)
            m, i = c.eng.loop_stack[-2], c.eng.loop_stack[-1]
            q = D.nS(m) - 1 - i
            con = REGISTRY["lemma_machine_ends_monotone"]
            c.eng.apply_bound(con, {"dispatcher": c.val("self"), "machine_id": Val(INT, m), "index": Val(INT, q)}, st, None)

        def appended(c, st):
            # ghost: remember where the operation was put (the witness of `is listed`)
            h, d = st.heap, c["self"]
            G = (st.env["ongoing_operations"].t, "o")
            so = st.env["scheduled_operation"].t
            st.heap = h.put("$$og_idx", d, z3.Store(h.get("$$og_idx", d), so, h.len(G) - 1))
        return {"is_completed = scheduled_operation.end_time <= current_time": broke,
                "ongoing_operations.append(scheduled_operation)": appended}

    @property
    def loops(self):
        def common(k, m, upto):
            """facts about the list built so far; `upto` = number of entries of machine m's list already scanned
            (from the end), None between machines"""
            h, d = k.h, k["self"]
            D = Disp(h, d)
            Gref = k.v("ongoing_operations")
            G = (Gref, "o")
            t = k.v("current_time")
            r, r2, mm, i = bv("rg"), bv("rg2"), bv("mg"), bv("ig")
            x = h.at(G, r)
            o = D.opx(x)
            x2 = h.at(G, r2)
            before = D.posm(o) < m if upto is None else z3.Or(
                D.posm(o) < m, z3.And(D.posm(o) == m, D.posi(o) >= D.nS(m) - upto))
            seen = mm < m if upto is None else z3.Or(mm < m, z3.And(mm == m, i >= D.nS(m) - upto))
            return [
                ("list-so-far", z3.And(Gref >= k.h0.alloc, Gref < h.alloc, h.len(G) >= 0, h.get(CT_HAS, d) != 0,
                                       h.get(CT_VAL, d) == t)),
                ("elements-so-far", forall([r], imp(rng(r, 0, h.len(G)), z3.And(
                    rng(D.posm(o), 0, D.M), rng(D.posi(o), 0, D.nS(D.posm(o))), D.x(D.posm(o), D.posi(o)) == x,
                    D.end(x) > t, before)), patterns=[h.at(G, r)])),
                ("order-so-far", forall([r, r2], imp(
                    z3.And(rng(r, 0, h.len(G)), rng(r2, 0, h.len(G)), r < r2),
                    z3.Or(D.posm(o) < D.posm(D.opx(x2)),
                          z3.And(D.posm(o) == D.posm(D.opx(x2)), D.posi(o) > D.posi(D.opx(x2))))),
                    patterns=[z3.MultiPattern(h.at(G, r), h.at(G, r2))])),
                ("listed-so-far", forall([mm, i], imp(
                    z3.And(rng(mm, 0, D.M), rng(i, 0, D.nS(mm)), seen, D.end(D.x(mm, i)) > t),
                    z3.And(rng(_og_idx(h, d, D.x(mm, i)), 0, h.len(G)), h.at(G, _og_idx(h, d, D.x(mm, i))) == D.x(mm, i))),
                    patterns=[D.x(mm, i)])),
            ] + reach(h, d) + cache_ok(h, d) + cache_effect(k.h0, h, d)

        def outer(k):
            return common(k, k.i, None)

        def inner(k):
            h, d = k.h, k["self"]
            D = Disp(h, d)
            m = k.outer[-1]
            return [("machine", z3.And(rng(m, 0, D.M), k.v("machine_schedule") == D.Sm(m), k.n == D.nS(m)))] \
                + common(k, m, k.i)

        def mod(k):
            return Frame(fields={"$$og_idx": [k["self"]]}, olists=[k.v("ongoing_operations")])
        return {0: LoopSpec("for machine_schedule in self.schedule.schedule", outer, mod),
                1: LoopSpec("for scheduled_operation in reversed(machine_schedule)", inner, mod)}


# ---------------------------------------------------------------------------
# the three small queries about single operations
# ---------------------------------------------------------------------------
@register
class DispIsScheduled(Contract):
    """is_scheduled(operation): its position lies before the next-operation index of its job"""
    name = "Dispatcher.is_scheduled"
    ret = BOOL
    pure = True
    properties = ("C05",)
    params = {"self": REF("Dispatcher"), "operation": REF("Operation")}

    def requires(self, c):
        D = Disp(c.h0, c["self"])
        return reach(c.h0, c["self"]) + [("an-operation-of-the-instance", D.it.is_op(c["operation"]))]

    def ensures(self, c):
        D = Disp(c.h0, c["self"])
        o = c["operation"]
        return [("scheduled-iff-before-the-next-index-of-its-job", c.result == (D.it.pos(o) < D.kj(D.it.jid(o))))]


class _TimeQuery(Contract):
    """queries that compare a scheduled operation with current_time() (which they call: cache effects only)"""
    properties = ("C05",)
    params = {"self": REF("Dispatcher"), "scheduled_operation": REF("ScheduledOperation")}

    def requires(self, c):
        x = c["scheduled_operation"]
        return reach(c.h0, c["self"]) + cache_ok(c.h0, c["self"]) + [
            ("a-scheduled-operation", z3.And(x > 0, x < c.h0.alloc, c.h0.get("operation", x) > 0))]

    def modifies(self, c):
        fields = {f: [c["self"]] for f in cache_fields()}
        fields["$oidx"] = "ALL"
        return Frame(fields=fields, alloc_lists=True)

    def common(self, c):
        h, d = c.h, c["self"]
        return [("the-current-time-is-cached", h.get(CT_HAS, d) != 0)] + cache_ok(h, d) + cache_effect(c.h0, h, d) \
            + reach(h, d)


@register
class DispIsOngoing(_TimeQuery):
    """is_ongoing(so): so has started by the value current_time() answers with"""
    name = "Dispatcher.is_ongoing"
    ret = BOOL

    def ensures(self, c):
        h, d, x = c.h, c["self"], c["scheduled_operation"]
        return [("started-by-the-current-time", c.result == (h.get("start_time", x) <= h.get(CT_VAL, d)))] + self.common(c)


@register
class DispRemainingDuration(_TimeQuery):
    """remaining_duration(so) = end - max(start, current_time())"""
    name = "Dispatcher.remaining_duration"
    ret = INT

    def ensures(self, c):
        h, d, x = c.h, c["self"], c["scheduled_operation"]
        D = Disp(h, d)
        t = h.get(CT_VAL, d)
        st_ = h.get("start_time", x)
        return [("end-minus-the-later-of-start-and-now",
                 c.result == D.end(x) - z3.If(st_ >= t, st_, t))] + self.common(c)


@register
class UncompletedRaw(Contract):
    """uncompleted_operations: what is proved here is the part that matters for the cache (C05's
    `never reflects an earlier state`): the body does not mutate any list it borrowed from another
    cached query, and the cache invariant still holds afterwards; its value (unscheduled + ongoing)
    is decided by the bounded run"""
    name = "Dispatcher.uncompleted_operations$raw"
    ret = OPS
    params = {"self": REF("Dispatcher")}
    properties = ("C05",)
    relevant = _Q_REL

    def requires(self, c):
        return reach(c.h0, c["self"]) + cache_ok(c.h0, c["self"])

    def modifies(self, c):
        fields = {f: [c["self"]] for f in cache_fields()}
        fields["$oidx"] = "ALL"
        fields["$$og_idx"] = [c["self"]]
        return Frame(fields=fields, alloc_lists=True, alloc_olists=True)

    def ensures(self, c):
        h, d, R = c.h, c["self"], c.result
        U = h.get("$cache_val:unscheduled_operations", d)
        G = (h.get("$cache_val:ongoing_operations", d), "o")
        r = bv("rq")
        return [("result-is-a-new-list", z3.And(c.result >= c.h0.alloc, c.result < c.h.alloc))] \
            + spec_uncompleted_entry(h, d, R) + [
                # the value: the unscheduled operations followed by the operations of ongoing_operations(), where both
                # lists are the ones the two queries answer with in this state (they are in the cache afterwards)
                ("unscheduled-then-ongoing", z3.And(
                    h.get("$cache_has:unscheduled_operations", d) != 0, h.get("$cache_has:ongoing_operations", d) != 0,
                    h.len(R) == h.len(U) + h.len(G),
                    forall([r], imp(rng(r, 0, h.len(U)), h.at(R, r) == h.at(U, r)), patterns=[h.at(R, r), h.at(U, r)]),
                    forall([r], imp(rng(r, h.len(U), h.len(R)), h.at(R, r) == h.get("operation", h.at(G, r - h.len(U)))),
                           patterns=[h.at(R, r)])))] + \
            cache_ok(c.h, c["self"]) + cache_effect(c.h0, c.h, c["self"])


def install_cache_contracts():
    from .core import _observer_dispatcher
    for nm in ("DispatcherObserver.update", "DispatcherObserver.reset"):
        con = REGISTRY[nm]
        old_req, old_ens = con.requires, con.ensures

        def req(c, old_req=old_req):
            return old_req(c) + cache_ok(c.h0, _observer_dispatcher(c))

        def ens(c, old_ens=old_ens):
            return old_ens(c) + cache_ok(c.h, _observer_dispatcher(c))
        con.requires, con.ensures = req, ens
    for nm, empty in (("Dispatcher._update_tracking_attributes", False), ("Dispatcher.dispatch", False),
                      ("Dispatcher.reset", False), ("Dispatcher.__init__", True)):
        con = REGISTRY[nm]
        old_ens = con.ensures

        def ens2(c, old_ens=old_ens, empty=empty):
            extra = cache_ok(c.h, c["self"])
            if empty:
                extra = [("cache-empty", cache_empty(c.h, c["self"]))] + extra
            return old_ens(c) + extra
        con.ensures = ens2
    # loops that call observers keep the cache invariant
    for nm in ("Dispatcher._update_tracking_attributes", "Dispatcher.reset"):
        con = REGISTRY[nm]
        spec0 = type(con).loops.fget(con)[0]

        def inv(k, spec0=spec0):
            return spec0.invariant(k) + cache_ok(k.h, k["self"])
        type(con).loops = property(lambda self, spec0=spec0, inv=inv: {0: LoopSpec(spec0.header, inv, spec0.modifies)})


install_cache_contracts()
