"""C05: the dispatcher's state queries and the @_dispatcher_cache decorator.

Each cached query `q` has two contracts:
* `Dispatcher.q$raw`  -- the real body of q against `result ~ Spec_q(state)`;
* `Dispatcher.q`      -- what callers see: the REAL wrapper body of `_dispatcher_cache`
  (source `_dispatcher_cache.wrapper`), executed with `method` bound to q's raw contract
  and `method.__name__ = "q"`, against `result ~ Spec_q(state)` and the cache invariant.
The cache dictionary is modelled as one (present, value) pair of ghost fields per
decorated method name (the set of names is read from the decorators on every run).
"""
from __future__ import annotations

import z3

from pyvc.engine import AbstractCallable, Contract, Frame, LoopSpec
from pyvc.values import BOOL, FUNC, INT, LIST, REF, Val, forall, fresh, from_int

from .core import REGISTRY, ScheduleMakespan, reach, register
from .filters import OPS, is_now, ms_axiom, ms_term, ready_sorted
from .spec import CACHED, Disp, SHAPE, bv, cache_empty, cache_fields, imp, rng


# ---------------------------------------------------------------------------
# specs (relations between a result and the state)
# ---------------------------------------------------------------------------
def spec_raw_ready(h, d, L):
    """the next operation of every unfinished job, in job order"""
    D = Disp(h, d)
    j, r = bv("j"), bv("rr")
    return ready_sorted(h, d, L, "result") + [
        ("every-unfinished-job-is-represented", forall([j], imp(
            z3.And(rng(j, 0, D.it.J), D.kj(j) < D.it.L(j)),
            z3.Exists([r], z3.And(rng(r, 0, h.len(L)), h.at(L, r) == D.it.op(j, D.kj(j)))))))]


def us_index(D, o):
    """where operation o = (j, p), p >= k_j, sits in unscheduled_operations()"""
    j = D.it.jid(o)
    return D.it.cumL(j) - D.cumK(j) + D.it.pos(o) - D.kj(j)


def spec_unscheduled(h, d, U):
    """every operation with position >= its job's next index, job by job, in job order:
    operation (j, p) sits at index  sum_{j'<j} (L_j' - k_j') + (p - k_j)"""
    D = Disp(h, d)
    j, p = bv("j"), bv("p")
    r = bv("ru")
    return [("result-list", z3.And(U > 0, U < h.alloc)),
            ("elements-are-unscheduled-operations", forall([r], imp(rng(r, 0, h.len(U)), z3.And(
                D.it.is_op(h.at(U, r)), D.it.pos(h.at(U, r)) >= D.kj(D.it.jid(h.at(U, r))))), patterns=[h.at(U, r)])),
            ("as-many-as-not-scheduled", h.len(U) == D.it.N - D.n),
            ("each-element-sits-at-its-place", forall([r], imp(rng(r, 0, h.len(U)), r == us_index(D, h.at(U, r))),
                                                      patterns=[h.at(U, r)])),
            ("each-unscheduled-operation-at-its-place", forall([j, p], imp(
                z3.And(rng(j, 0, D.it.J), rng(p, D.kj(j), D.it.L(j))),
                h.at(U, D.it.cumL(j) - D.cumK(j) + p - D.kj(j)) == D.it.op(j, p)), patterns=[D.it.op(j, p)]))]


def spec_scheduled(h, d, Sx):
    D = Disp(h, d)
    j, p = bv("j"), bv("p")
    return [("result-list", z3.And(Sx > 0, Sx < h.alloc)),
            ("as-many-as-scheduled", h.len(Sx) == D.n),
            ("each-scheduled-operation-at-its-place", forall([j, p], imp(
                z3.And(rng(j, 0, D.it.J), rng(p, 0, D.kj(j))), h.at(Sx, D.cumK(j) + p) == D.it.op(j, p)),
                patterns=[D.it.op(j, p)]))]


def spec_available(h, d, A):
    """a sub-list of the ready operations in job order, non-empty while some job is unfinished;
    all of them when no filter is installed"""
    D = Disp(h, d)
    j, r = bv("j"), bv("rr")
    flt = h.get("ready_operations_filter", d)
    some = z3.Exists([j], z3.And(rng(j, 0, D.it.J), D.kj(j) < D.it.L(j)))
    complete = forall([j], imp(z3.And(rng(j, 0, D.it.J), D.kj(j) < D.it.L(j)),
                               z3.Exists([r], z3.And(rng(r, 0, h.len(A)), h.at(A, r) == D.it.op(j, D.kj(j))))))
    return ready_sorted(h, d, A, "result") + [
        ("non-empty-while-some-job-is-unfinished", imp(some, h.len(A) > 0)),
        ("all-ready-operations-without-filter", imp(flt == 0, complete))]


def spec_current_time(h, d, t):
    flt = h.get("ready_operations_filter", d)
    return [("unfiltered-current-time", imp(flt == 0, is_now(h, d, t)))]


SPECS = {
    "raw_ready_operations": (OPS, spec_raw_ready),
    "unscheduled_operations": (OPS, spec_unscheduled),
    "scheduled_operations": (OPS, spec_scheduled),
    "available_operations": (OPS, spec_available),
    "current_time": (INT, spec_current_time),
}


def _components(h, d, ty, val):
    """the local heap components the query specs depend on: the contents of the three tracking
    vectors, the filter, the ghost prefix sums, and the value itself (length and content for a
    list).  The instance is immutable (frame of every function under contract)."""
    D = Disp(h, d)
    out = [h.elarr(D.k), h.elarr(D.mnat), h.elarr(D.jnat), h.get("ready_operations_filter", d), D.I, d, D.M,
           h.get("$$cumS", D.sch), h.get("$$cumK", d), h.get("$$cumL", D.I)]
    if ty.kind == "list":
        out += [h.len(val), h.elarr(val)]
    else:
        out.append(val)
    return out


def opaque_entry(key, h, d, val):
    """Spec_key(state, value) as an opaque atom over local components (opaque/reveal): the cache
    invariant is carried around as atoms and survives unrelated heap changes by array reasoning;
    `reveal` gives its definition where the meaning is needed"""
    ty, _ = SPECS[key]
    comps = _components(h, d, ty, val)
    P = z3.Function(f"CacheSpec:{key}", *[x.sort() for x in comps], z3.BoolSort())
    return P(*comps)


def reveal(key, h, d, val):
    ty, spec = SPECS[key]
    return opaque_entry(key, h, d, val) == z3.And([p for _, p in spec(h, d, val)])


def cache_ok(h, d):
    """CacheOK(d): every present entry equals the spec in the CURRENT state"""
    out = []
    for k, (ty, spec) in SPECS.items():
        has = h.get(f"$cache_has:{k}", d) != 0
        val = from_int(ty, h.get(f"$cache_val:{k}", d)).t
        exists = z3.And(val > 0, val < h.alloc) if ty.kind == "list" else z3.BoolVal(True)
        out.append((f"cache-entry-current:{k}", imp(has, z3.And(exists, opaque_entry(k, h, d, val)))))
    return out


def _old_or_fresh(h0, d, v):
    """v was allocated during the call or is one of the lists that were cached before it"""
    alts = [v >= h0.alloc]
    for k2, (ty2, _) in SPECS.items():
        if ty2.kind == "list":
            alts.append(z3.And(h0.get(f"$cache_has:{k2}", d) != 0, v == h0.get(f"$cache_val:{k2}", d)))
    return z3.Or(alts)


def cache_values_old_or_fresh(h0, h, d):
    """a callee cannot have cached a list of the caller: every cached list is one that was cached
    before the call (under some key: available_operations may hand out the raw ready list) or a
    reference allocated during the call"""
    out = []
    for k, (ty, _) in SPECS.items():
        if ty.kind == "list":
            out.append(imp(h.get(f"$cache_has:{k}", d) != 0, _old_or_fresh(h0, d, h.get(f"$cache_val:{k}", d))))
    return [("cached-values-old-or-fresh", z3.And(out))]


def cached_entries_kept(h0, h, d):
    """the cache is write-once between invalidations: an entry present before a query is the same
    entry afterwards (the wrapper only stores under an absent key)"""
    return [("cached-entries-kept", z3.And([
        imp(h0.get(f"$cache_has:{k}", d) != 0, z3.And(h.get(f"$cache_has:{k}", d) != 0,
                                                       h.get(f"$cache_val:{k}", d) == h0.get(f"$cache_val:{k}", d)))
        for k in CACHED]))]


def cache_effect(h0, h, d):
    return cache_values_old_or_fresh(h0, h, d) + cached_entries_kept(h0, h, d)


_Q_CLAUSES = ["result-are-operations", "result-are-ready", "result-in-job-order", "every-unfinished-job-is-represented",
              "result-list", "as-many-as-not-scheduled", "each-unscheduled-operation-at-its-place",
              "as-many-as-scheduled", "each-scheduled-operation-at-its-place",
              "non-empty-while-some-job-is-unfinished", "all-ready-operations-without-filter",
              "unfiltered-current-time", "placed-so-far", "elements-so-far", "elements-are-unscheduled-operations",
              "each-element-sits-at-its-place"]
_Q_REL = {n: SHAPE + ["R9-count-per-machine", "R9-count-per-job", "R9-count-per-job-monotone", "R9-counts-agree",
                      "R9-deficit-monotone", "inst-cum",
                      "inst-cum-monotone", "inst-machines"] for n in _Q_CLAUSES}


class _Raw(Contract):
    key = ""
    params = {"self": REF("Dispatcher")}
    properties = ("C05",)
    relevant = _Q_REL

    def requires(self, c):
        return reach(c.h0, c["self"]) + cache_ok(c.h0, c["self"])

    def modifies(self, c):
        fields = {f: [c["self"]] for f in cache_fields()}
        fields["$oidx"] = "ALL"
        return Frame(fields=fields, alloc_lists=True)

    def ensures(self, c):
        ty, spec = SPECS[self.key]
        fresh_or_cached = []
        if ty.kind == "list":
            fresh_or_cached = [("result-is-a-cached-list-or-new", _old_or_fresh(c.h0, c["self"], c.result))]
        return spec(c.h, c["self"], c.result) + cache_ok(c.h, c["self"]) + \
            cache_effect(c.h0, c.h, c["self"]) + fresh_or_cached


class _Cached(Contract):
    """public contract of a cached query = the real `_dispatcher_cache.wrapper` body"""
    key = ""
    source = "_dispatcher_cache.wrapper"
    params = {"self": REF("Dispatcher")}
    properties = ("C05",)
    borrowed = True
    relevant = _Q_REL

    def setup(self, eng, st, args):
        self.globals = {"method": Val(FUNC, AbstractCallable(f"Dispatcher.{self.key}$raw", self.key))}

    def ghost_entry(self, c, st):
        # reveal the meaning of the entry that may be returned from the cache
        ty, _ = SPECS[self.key]
        val = from_int(ty, c.h0.get(f"$cache_val:{self.key}", c["self"])).t
        st.assume(reveal(self.key, c.h0, c["self"], val), "definition:cachespec")

    @property
    def ghost_after(self):
        def stored(c, st):
            # ... and of the entry just stored
            st.assume(reveal(self.key, st.heap, c["self"], st.env["result"].t), "definition:cachespec")
        return {"self._cache[cache_key] = result": stored}

    def requires(self, c):
        return reach(c.h0, c["self"]) + cache_ok(c.h0, c["self"])

    def modifies(self, c):
        fields = {f: [c["self"]] for f in cache_fields()}
        fields["$oidx"] = "ALL"
        return Frame(fields=fields, alloc_lists=True)

    def ensures(self, c):
        ty, spec = SPECS[self.key]
        fresh_or_cached = []
        if ty.kind == "list":
            fresh_or_cached = [("result-is-a-cached-list-or-new", _old_or_fresh(c.h0, c["self"], c.result))]
        from pyvc.values import to_int
        stored = [("entry-is-cached-afterwards", z3.And(
            c.h.get(f"$cache_has:{self.key}", c["self"]) != 0,
            c.h.get(f"$cache_val:{self.key}", c["self"]) == to_int(c.res)))]
        return spec(c.h, c["self"], c.result) + cache_ok(c.h, c["self"]) + \
            cache_effect(c.h0, c.h, c["self"]) + fresh_or_cached + stored


def make(key):
    ty, spec = SPECS[key]
    raw = type(f"Raw_{key}", (_Raw,), {"name": f"Dispatcher.{key}$raw", "key": key, "ret": ty})
    rel = {n: v + [f"cache-entry-current:{key}"] for n, v in _Q_REL.items()}
    pub = type(f"Cached_{key}", (_Cached,), {"name": f"Dispatcher.{key}", "key": key, "ret": ty, "relevant": rel})
    register(raw)
    register(pub)
    return REGISTRY[f"Dispatcher.{key}$raw"], REGISTRY[f"Dispatcher.{key}"]


RAW, PUB = {}, {}
for _k in SPECS:
    RAW[_k], PUB[_k] = make(_k)


def _slice_loop(list_name, scheduled):
    """invariant of `for job_id, next_position in enumerate(k): out.extend(jobs[job_id][...])`"""
    def inv(k):
        h0, h, d = k.h0, k.h, k["self"]
        D = Disp(h0, d)
        U = k.v(list_name)
        j, p = bv("j"), bv("p")
        if scheduled:
            size = D.cumK(k.i)
            placed = forall([j, p], imp(z3.And(rng(j, 0, k.i), rng(p, 0, D.kj(j))),
                                        h.at(U, D.cumK(j) + p) == D.it.op(j, p)), patterns=[D.it.op(j, p)])
        else:
            size = D.it.cumL(k.i) - D.cumK(k.i)
            placed = forall([j, p], imp(z3.And(rng(j, 0, k.i), rng(p, D.kj(j), D.it.L(j))),
                                        h.at(U, D.it.cumL(j) - D.cumK(j) + p - D.kj(j)) == D.it.op(j, p)),
                            patterns=[D.it.op(j, p)])
        r = bv("ru")
        elems = forall([r], imp(rng(r, 0, h.len(U)), z3.And(
            D.it.is_op(h.at(U, r)), (D.it.pos(h.at(U, r)) < D.kj(D.it.jid(h.at(U, r)))) if scheduled
            else z3.And(D.it.pos(h.at(U, r)) >= D.kj(D.it.jid(h.at(U, r))), r == us_index(D, h.at(U, r))))),
            patterns=[h.at(U, r)])
        return [("result-list", z3.And(U >= h0.alloc, U < h.alloc, h.len(U) == size)),
                ("elements-so-far", elems),
                ("placed-so-far", placed)] + reach(h, d)

    def mod(k):
        return Frame(lists=[k.v(list_name)], alloc_lists=True)
    return inv, mod


_inv_u, _mod_u = _slice_loop("unscheduled_operations", False)
type(RAW["unscheduled_operations"]).loops = property(lambda self: {
    0: LoopSpec("for (job_id, next_position) in enumerate(self._job_next_operation_index)", _inv_u, _mod_u)})
_inv_s, _mod_s = _slice_loop("scheduled_operations", True)
type(RAW["scheduled_operations"]).loops = property(lambda self: {
    0: LoopSpec("for (job_id, next_position) in enumerate(self._job_next_operation_index)", _inv_s, _mod_s)})


# ---------------------------------------------------------------------------
# the cache invariant in the contracts of the core (C05/C10: observers are notified when the
# cache has already been cleared, and whatever they query keeps it consistent)
# ---------------------------------------------------------------------------
SO_LIST = LIST(REF("ScheduledOperation"))


@register
class OngoingAbstract(Contract):
    """assumed contract of the cached query ongoing_operations (its body -- reversed scan with break
    against the current time -- is decided by the bounded run): returns well-formed scheduled
    operations and keeps the cache invariant"""
    name = "Dispatcher.ongoing_operations"
    abstract = True
    trusted = True
    ret = SO_LIST
    params = {"self": REF("Dispatcher")}
    borrowed = True

    def requires(self, c):
        return reach(c.h0, c["self"]) + cache_ok(c.h0, c["self"])

    def modifies(self, c):
        fields = {f: [c["self"]] for f in cache_fields()}
        fields["$oidx"] = "ALL"
        return Frame(fields=fields, alloc_lists=True)

    def ensures(self, c):
        h, L = c.h, c.result
        r = bv("r")
        D = Disp(h, c["self"])
        return [("scheduled-operations", z3.And(L > 0, L < h.alloc, forall([r], imp(rng(r, 0, h.len(L)), z3.And(
            h.at(L, r) > 0, h.at(L, r) < h.alloc, D.it.is_op(D.opx(h.at(L, r))))), patterns=[h.at(L, r)])))] \
            + cache_ok(h, c["self"]) + reach(h, c["self"]) + cache_effect(c.h0, h, c["self"])


@register
class UncompletedRaw(Contract):
    """uncompleted_operations: what is proved here is the part that matters for the cache (C05's
    `never reflects an earlier state`): the body does not mutate any list it borrowed from another
    cached query, and the cache invariant still holds afterwards; its value (unscheduled + ongoing)
    is decided by the bounded run"""
    name = "Dispatcher.uncompleted_operations$raw"
    ret = OPS
    params = {"self": REF("Dispatcher")}
    properties = ("C05",)
    relevant = _Q_REL

    def requires(self, c):
        return reach(c.h0, c["self"]) + cache_ok(c.h0, c["self"])

    def modifies(self, c):
        fields = {f: [c["self"]] for f in cache_fields()}
        fields["$oidx"] = "ALL"
        return Frame(fields=fields, alloc_lists=True)

    def ensures(self, c):
        return [("result-is-a-new-list", z3.And(c.result >= c.h0.alloc, c.result < c.h.alloc))] + \
            cache_ok(c.h, c["self"]) + cache_effect(c.h0, c.h, c["self"])


def install_cache_contracts():
    from .core import _observer_dispatcher
    for nm in ("DispatcherObserver.update", "DispatcherObserver.reset"):
        con = REGISTRY[nm]
        old_req, old_ens = con.requires, con.ensures

        def req(c, old_req=old_req):
            return old_req(c) + cache_ok(c.h0, _observer_dispatcher(c))

        def ens(c, old_ens=old_ens):
            return old_ens(c) + cache_ok(c.h, _observer_dispatcher(c))
        con.requires, con.ensures = req, ens
    for nm, empty in (("Dispatcher._update_tracking_attributes", False), ("Dispatcher.dispatch", False),
                      ("Dispatcher.reset", False), ("Dispatcher.__init__", True)):
        con = REGISTRY[nm]
        old_ens = con.ensures

        def ens2(c, old_ens=old_ens, empty=empty):
            extra = cache_ok(c.h, c["self"])
            if empty:
                extra = [("cache-empty", cache_empty(c.h, c["self"]))] + extra
            return old_ens(c) + extra
        con.ensures = ens2
    # loops that call observers keep the cache invariant
    for nm in ("Dispatcher._update_tracking_attributes", "Dispatcher.reset"):
        con = REGISTRY[nm]
        spec0 = type(con).loops.fget(con)[0]

        def inv(k, spec0=spec0):
            return spec0.invariant(k) + cache_ok(k.h, k["self"])
        type(con).loops = property(lambda self, spec0=spec0, inv=inv: {0: LoopSpec(spec0.header, inv, spec0.modifies)})


install_cache_contracts()
