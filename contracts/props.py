"""Which functions under contract, lemmas and bounded checks decide which property."""

CORE_SCHEDULE = [
    "Operation.machine_id",
    "ScheduledOperation.__init__", "ScheduledOperation.machine_id", "ScheduledOperation.machine_id.setter",
    "ScheduledOperation.job_id", "ScheduledOperation.position_in_job", "ScheduledOperation.end_time",
    "Schedule._is_valid_start_time", "Schedule.check_schedule", "Schedule.schedule", "Schedule.schedule.setter",
    "Schedule.__init__", "Schedule.reset", "Schedule._check_start_time_of_new_operation", "Schedule.add",
]
CORE_DISPATCH = [
    "JobShopInstance.num_jobs",
    "Dispatcher.is_operation_ready", "Dispatcher.start_time", "Dispatcher._update_tracking_attributes",
    "Dispatcher.dispatch", "Dispatcher.__init__", "Dispatcher.reset",
]

T_OBSERVERS = ("abstract contract of third-party DispatcherObserver.update/reset: writes only observer fields and "
               "lists allocated by observer methods (observer region), may call dispatcher queries, never "
               "dispatch/reset/subscribe; built-in observers are checked against it")
T_NUM_MACHINES = ("JobShopInstance.num_machines used through its contract `result == $num_machines` "
                  "(body verified under C14)")
A_VALID = ("instances satisfy ValidInstance: >=1 job, >=1 operation per job, >=1 machine per operation, machine ids >= 0, "
           "integer durations >= 0, job_id/position_in_job as set by JobShopInstance.__init__")
A_REGIONS = ("list memory is split by static type into a core and an observer region; the engine rejects any store that "
             "would mix them (checked, not assumed) ")

PROPS = {
    "C01": dict(
        level="proof",
        functions=CORE_SCHEDULE + CORE_DISPATCH + ["Schedule.num_scheduled_operations", "Schedule.is_complete",
                                                  "JobShopInstance.num_operations"],
        lemmas=["reach-implies-feasible", "complete-iff-every-job-finished"],
        tierb=True,
        trusted=[T_OBSERVERS, T_NUM_MACHINES],
        assumptions=[A_VALID, A_REGIONS,
                     "`complete after exactly N accepted dispatches`: dispatch's post-condition one-more-operation-scheduled "
                     "(ghost count = sum of the machine list lengths), Schedule.num_scheduled_operations and is_complete "
                     "against that count (sum rule), N = JobShopInstance.num_operations; the arithmetic `0 + 1 * N = N` over "
                     "a whole history is the induction the invariant encodes"],
    ),
    "C02": dict(
        level="proof",
        functions=CORE_SCHEDULE + CORE_DISPATCH + ["Schedule.makespan", "Dispatcher.machine_next_available_time",
                                                  "Dispatcher.job_next_operation_index",
                                                  "Dispatcher.job_next_available_time"],
        lemmas=["reach-implies-derived", "dispatch-post-deterministic"],
        tierb=True,
        trusted=[T_OBSERVERS, T_NUM_MACHINES],
        assumptions=[A_VALID, A_REGIONS],
    ),
    "C05": dict(
        level="proof",
        functions=[f"Dispatcher.{k}" for k in ("raw_ready_operations", "available_operations", "current_time",
                                                "unscheduled_operations", "scheduled_operations", "ongoing_operations",
                                                "uncompleted_operations")]
        + [f"Dispatcher.{k}$raw" for k in ("raw_ready_operations", "available_operations", "current_time",
                                            "unscheduled_operations", "scheduled_operations", "uncompleted_operations",
                                            "ongoing_operations")]
        + ["lemma_machine_ends_monotone", "Dispatcher.is_scheduled", "Dispatcher.is_ongoing", "Dispatcher.remaining_duration"]
        + ["Dispatcher.next_operation", "Dispatcher.earliest_start_time", "Dispatcher.start_time",
           "Dispatcher.min_start_time", "Dispatcher.is_operation_ready", "Dispatcher._update_tracking_attributes",
           "Dispatcher.reset", "Dispatcher.__init__", "Dispatcher.dispatch",
           "UnscheduledOperationsObserver.reset", "UnscheduledOperationsObserver.update"],
        lemmas=["min-start-unique", "complete-iff-every-job-finished"],
        tierb=True,
        trusted=[T_OBSERVERS,
                 "ghost lemma contracts/ghost_src.py::lemma_machine_ends_monotone (sidecar Python, verified like repository "
                 "code): on one machine the end times do not decrease with the position",
                 "the list ongoing_operations builds is placed in the second list region (a static partition of list objects)",
                 "abstract filter contract for third-party ready_operations_filter callables",
                 "query specs are carried in the cache invariant as opaque atoms over the local heap components they "
                 "depend on (contents of the three tracking vectors, filter, ghost prefix sums, the value); the "
                 "instance is immutable (frames)"],
        assumptions=[A_VALID,
                     "proved: the real @_dispatcher_cache wrapper body composed with each of raw_ready_operations, "
                     "available_operations, current_time (exact without filter), unscheduled_operations, "
                     "scheduled_operations returns the spec value whether the entry is cached or not and keeps CacheOK; "
                     "dispatch/reset/__init__ clear the cache before observers run; no verified body mutates a list borrowed "
                     "from a cached query (uncompleted_operations included); next_operation, earliest_start_time, start_time, "
                     "is_operation_ready equal their definitions",
                     "proved: the body of ongoing_operations returns EXACTLY the scheduled operations that end after the value "
                     "current_time() answered with (every element is one, every one is listed, machine by machine, latest "
                     "first, no duplicates; reversed scan with break justified by the ghost lemma); its public contract is "
                     "the real wrapper composed with that body (no assumed contract left); uncompleted_operations returns the "
                     "unscheduled operations followed by the operations of ongoing_operations()",
                     "bounded only: that a CACHED ongoing_operations answer still equals the recomputation (the cache invariant "
                     "carries only its shape; dispatch / reset clear every key: proved), the values of completed_operations, "
                     "available_machines, available_jobs (sets: outside the verified subset), current_time under a filter "
                     "(is_scheduled, is_ongoing and remaining_duration equal their definitions: proved); the "
                     "UnscheduledOperationsObserver mirror is proved per call (reset establishes it, update re-establishes it "
                     "after each dispatch); its construction on a dispatcher with history (itertools.chain) is bounded"],
    ),
    "C06": dict(
        level="proof",
        functions=["Dispatcher.min_start_time", "Dispatcher.start_time", "Schedule.makespan",
                   "create_composite_operation_filter.composite_pruning_function$builtin",
                   "filter_non_idle_machines", "filter_non_immediate_operations", "filter_non_immediate_machines",
                   "filter_dominated_operations", "Dispatcher.dispatch"],
        lemmas=["now-monotone", "complete-now-is-makespan", "min-start-unique",
                "filter-keeps-now:filter_non_idle_machines", "filter-keeps-now:filter_non_immediate_operations",
                "filter-keeps-now:filter_non_immediate_machines", "filter-keeps-now:filter_dominated_operations",
                "complete-iff-every-job-finished"],
        tierb=True,
        trusted=[T_OBSERVERS,
                 "MinStart(h, d, L) is introduced as a Skolem term for the minimum start time of a non-empty list: "
                 "existence is Dispatcher.min_start_time's verified post-condition, uniqueness the lemma min-start-unique; "
                 "both are proved without the definition"],
        assumptions=[A_VALID,
                     "current time = min_start_time(available_operations()) and available_operations() = filter(raw ready "
                     "operations): the cached query bodies are tied to these specs under C05 (current_time exactly when no "
                     "filter is installed; under a filter through the filter-keeps-now lemmas for the built-in filters, "
                     "third-party filters by the bounded run only)",
                     "now-monotone is proved for the unfiltered dispatcher and every instance; with built-in filters and "
                     "positive durations the filtered current time equals the unfiltered one (composition lemma), hence is "
                     "monotone too"],
    ),
    "C07": dict(
        level="proof",
        functions=["Dispatcher.min_start_time", "Dispatcher.earliest_start_time", "Dispatcher.start_time",
                   "_get_non_idle_machines", "filter_non_idle_machines", "filter_non_immediate_operations",
                   "_get_immediate_machines", "filter_non_immediate_machines", "_get_min_machine_end_times",
                   "filter_dominated_operations", "create_composite_operation_filter.composite_pruning_function",
                   "Schedule.makespan", "ScheduledOperation.end_time", "ScheduledOperation.machine_id",
                   "Schedule.schedule"],
        lemmas=["min-start-unique"],
        tierb=True,
        trusted=["third-party filters are only known through the abstract filter contract (sub-list, non-empty); each "
                 "built-in filter's post-condition contains it",
                 "MinStart Skolem term (see C06)"],
        assumptions=[A_VALID,
                     "the input list is a sub-list of the ready operations in raw_ready_operations order (strictly increasing "
                     "job ids) -- the property's own quantifier",
                     "ready_operations_filter_factory / the string->function table and the enum are exercised by the "
                     "bounded run only",
                     "dominated-operations filter with a zero-duration operation in the input: the documented shortcut "
                     "(result = [first zero-duration operation]) is what is proved; the criterion clause is for positive "
                     "durations"],
    ),
    "C09": dict(
        level="proof",
        functions=CORE_SCHEDULE + CORE_DISPATCH + ["Dispatcher.next_operation", "SingleJobShopGraphEnv.step"],
        lemmas=[],
        tierb=True,
        trusted=[T_OBSERVERS, T_NUM_MACHINES],
        assumptions=[A_VALID, A_REGIONS,
                     "the request carries an operation of the dispatcher's instance (requests with foreign operation objects "
                     "are outside the quantifier)",
                     "the environment part: SingleJobShopGraphEnv.step is verified around the dispatcher call -- a finished job, "
                     "an out-of-range job or machine id, -1 for an operation with several machines and an ineligible machine "
                     "raise exactly the declared errors and leave everything that existed unchanged; get_observation and the "
                     "reward / composite observer reads are opaque read-only contracts (numpy/gymnasium), MultiJobShopGraphEnv "
                     "is exercised by the bounded run"],
    ),
    "C10": dict(
        level="proof",
        functions=CORE_SCHEDULE + CORE_DISPATCH + [
            "Dispatcher.subscribe", "Dispatcher.unsubscribe", "DispatcherObserver.__init__",
            "Dispatcher.create_or_get_observer", "HistoryObserver.__init__", "HistoryObserver.update",
            "HistoryObserver.reset"],
        lemmas=[],
        tierb=True,
        trusted=[T_OBSERVERS, T_NUM_MACHINES,
                 "abstract contract of an observer class held in a variable (`observer(self, **kwargs)` in "
                 "create_or_get_observer): DispatcherObserver.__init__'s contract lifted to an unknown subclass",
                 "`condition` is a pure predicate on the observer"],
        assumptions=[A_VALID, A_REGIONS,
                     "the ghost notification trace records the update()/reset() calls the dispatcher code makes (ghost "
                     "statements anchored after `subscriber.update(scheduled_operation)` / `subscriber.reset()`); "
                     "`history = dispatch sequence` follows from HistoryObserver.update's post-condition along that trace "
                     "(composition over the history is exercised by the bounded run)",
                     "arguments have (a subclass of) their annotated class"],
    ),
    "C13": dict(
        level="proof",
        functions=["RewardObserver.__init__", "RewardObserver.last_reward", "RewardObserver.reset",
                   "MakespanReward.__init__", "MakespanReward.reset", "MakespanReward.update", "IdleTimeReward.update",
                   "Schedule.makespan", "ScheduledOperation.end_time", "ScheduledOperation.machine_id",
                   "Schedule.schedule", "DispatcherObserver.__init__", "Dispatcher.dispatch",
                   "Dispatcher._update_tracking_attributes"],
        lemmas=["dispatch-makespan-step", "dispatch-idle-step"],
        tierb=True,
        trusted=[T_OBSERVERS],
        assumptions=[A_VALID, A_REGIONS,
                     "proved per dispatch: each update appends exactly one reward r <= 0 with r = -(objective after - "
                     "objective before) (method contracts + step lemmas over dispatch's contract); the sum over a whole "
                     "history telescopes because every accepted dispatch calls update exactly once in the post-state (C10, "
                     "proved) -- that composition step itself is not mechanised and is exercised by the bounded run",
                     "`step returns the reward emitted for that step`: SingleJobShopGraphEnv.step is proved to return "
                     "reward_function.last_reward read AFTER the dispatch (opaque read), RewardObserver.last_reward is proved to "
                     "return the last emitted reward; that the env's reward object is the subscribed observer that was updated "
                     "is exercised by the bounded run (C18 harness)"],
    ),
    "C03": dict(
        level="proof",
        functions=["ORToolsSolver.solve", "ORToolsSolver.__call__", "ORToolsSolver._initialize_model",
                   "ORToolsSolver._create_variables", "ORToolsSolver._add_constraints", "ORToolsSolver._add_job_constraints",
                   "ORToolsSolver._add_machine_constraints", "ORToolsSolver._set_objective", "ORToolsSolver._create_schedule",
                   "Schedule.__init__", "Schedule.check_schedule", "Schedule._is_valid_start_time",
                   "ScheduledOperation.__init__", "ScheduledOperation.end_time", "ScheduledOperation.machine_id",
                   "Operation.machine_id", "JobShopInstance.total_duration", "JobShopInstance.job_durations"],
        lemmas=[],
        tierb=True,
        trusted=["OR-Tools CP-SAT through the contracts of contracts/cpsat.py: CpModel() is empty; NewIntVar / NewIntervalVar create "
                 "new variables / intervals with the given bounds / (start, size, end); `v == w + c` and `v <= w` build the "
                 "constraint expression of that meaning and model.Add appends exactly it; AddNoOverlap, AddMaxEquality, Minimize "
                 "append / set what their names say (ghost constraint store: a sequence of records); CpSolver.Solve returns a "
                 "status, and when that is OPTIMAL or FEASIBLE the values Value(v) satisfy every record of the store and all "
                 "variable bounds; search parameters (time limit, logging) do not change what a reported solution satisfies",
                 "NOT provable here and trusted as a sentence: when Solve reports OPTIMAL no assignment satisfying the store has a "
                 "smaller objective, and without a time limit CP-SAT reports OPTIMAL on a satisfiable model (compared with brute "
                 "force, dispatching rules and lower bounds by the bounded run)",
                 "the textbook equivalence `assignments satisfying the disjunctive model = feasible schedules of the instance` "
                 "is used in one direction only, and that direction is proved: the schedule reconstructed from a solution is "
                 "complete, job-ordered, machine-disjoint and accepted by Schedule's validation",
                 "ghost witnesses (iv_pos / iv_op, mo_pos / mo_op, us_pos / us_op, sch_pos, no_list: inverse index maps), "
                 "prophecy variable $no_solution resolved at the Solve call, consequences by induction of the prefix sums cumL "
                 "(monotone, cumL(j) >= j, index order) stated as pre-conditions",
                 "sorted(key=...) returns a permutation of its argument ordered by the key (stability not modelled); a dict "
                 "keyed by the operations of one instance is keyed by identity (operations of an instance are pairwise unequal)"],
        assumptions=[A_VALID, "non-flexible instance (every operation has exactly one machine): the property's own quantifier; "
                     "operations numbered by JobShopInstance (job_id, position_in_job)",
                     "proved, for every valid non-flexible instance (zero durations included): solve() builds a NEW model, solver "
                     "and variable map; at the moment CpSolver.Solve is called its argument contains exactly: two variables in "
                     "[0, total duration] per operation with end == start + duration, end(pred) <= start(succ) for every "
                     "successive pair of a job, one no-overlap constraint per machine over exactly the intervals (start, "
                     "duration, end) of that machine's operations, makespan variable in [0, total duration] == max of all end "
                     "variables, minimised -- 2N - J + M + 1 constraints and 2N + 1 variables, nothing else; NoSolutionFoundError "
                     "is raised exactly when Solve reports neither OPTIMAL nor FEASIBLE and no other exception escapes (in "
                     "particular Schedule's validation cannot reject the reconstructed schedule: the sort key orders equal "
                     "start times by end time); the returned schedule places every operation exactly once, on its machine, at "
                     "the solution value of its start variable, machine lists in time order without overlap, job order respected, "
                     "no negative start; the makespan put into the metadata is the latest end of the schedule",
                     "bounded only: optimality itself (see trusted), the metadata dictionary of the Schedule object, reuse of one "
                     "solver object across solves as an end-to-end run, benchmark lower bounds, ORToolsSolver.__init__"],
    ),
    "C04": dict(
        level="proof",
        functions=["lemma_unfinished_job", "DispatchingRuleSolver.step", "DispatchingRuleSolver.solve",
                   "shortest_processing_time_rule", "first_come_first_served_rule", "most_work_remaining_rule",
                   "score_based_rule.rule", "score_based_rule_with_tie_breaker.rule",
                   "shortest_processing_time_score", "first_come_first_served_score", "BaseSolver.__call__",
                   "Dispatcher.available_operations", "Dispatcher.available_operations$raw",
                   "Dispatcher.unscheduled_operations", "Dispatcher.unscheduled_operations$raw", "Dispatcher.dispatch",
                   "Schedule.is_complete",
                   # the rules rely on the cache invariant, which every cached query body has to keep (a rule may be
                   # asked after any other query in the same state)
                   "most_operations_remaining_rule", "most_operations_remaining_score",
                   "Dispatcher.uncompleted_operations", "Dispatcher.uncompleted_operations$raw",
                   "Dispatcher.ongoing_operations", "Dispatcher.ongoing_operations$raw",
                   "Dispatcher.scheduled_operations", "Dispatcher.scheduled_operations$raw",
                   "Dispatcher.current_time", "Dispatcher.current_time$raw",
                   "Dispatcher.raw_ready_operations", "Dispatcher.raw_ready_operations$raw"],
        lemmas=["reach-implies-feasible", "complete-iff-every-job-finished"],
        tierb=True,
        trusted=[T_OBSERVERS,
                 "time.perf_counter() is a monotone clock (successive readings do not decrease)",
                 "the rule, machine chooser and scoring function stored in a solver / closure are used through abstract "
                 "contracts (rule: returns a ready operation of the instance and keeps the cache invariant; chooser: "
                 "returns one of the operation's machines; score: one integer per job); the built-in rules and two "
                 "built-in scoring functions are verified AGAINST these contracts, the machine choosers, "
                 "random rules and the observer-based scorer are not (bounded run)",
                 "CountOfJob(job-id field, list content, i, j): spec function `how many of the first i entries belong to job "
                 "j`, defined by recursion on i (conservative definition, assumed where it is used)",
                 "MemberIdx(content, length, o): Skolem index for `o occurs in the list` (conservative definition, "
                 "instantiated for the elements of the cached available list only)",
                 "ghost lemma contracts/ghost_src.py::lemma_unfinished_job (sidecar Python, verified like repository "
                 "code): a dispatcher whose schedule is not complete has a job with operations left"],
        assumptions=[A_VALID,
                     "proved: DispatchingRuleSolver.solve terminates (variant: operations left) with a complete schedule "
                     "satisfying Reach (hence Feasible, lemma reach-implies-feasible) for ANY rule/chooser honouring the "
                     "abstract contracts and any filter honouring the abstract filter contract, when a dispatcher is "
                     "supplied (the `dispatcher is None` branch only constructs one); step() never raises; SPT and FCFS "
                     "return an element of available_operations() minimal under duration / position_in_job; MWKR returns "
                     "an available operation whose job has the MOST remaining work (the accumulation loop over "
                     "unscheduled_operations() computes, per job, the sum of the durations of its unscheduled operations: "
                     "ghost prefix sums; every unscheduled operation sits at exactly one index of the list); "
                     "score_based_rule(f).rule returns an available operation with a HIGHEST score in the list f returned, "
                     "for ANY scoring function f; the tie-breaker rule returns an element of available_operations(), "
                     "never raises (no empty max, no index error) and its selection is LEXICOGRAPHICALLY BEST under the "
                     "score lists the functions returned, for ANY scoring functions (ghost: the list each function returned, "
                     "the best score of each round, the round in which each available operation dropped out; rounds that "
                     "were not evaluated cannot matter because the selected operation is then the only survivor); "
                     "SPT/FCFS scoring functions "
                     "give each available operation's job the documented score; BaseSolver.__call__ stores a "
                     "non-negative elapsed_time and the class name of the solver",
                     "proved: most_operations_remaining_rule returns an available operation whose job has the MOST entries in "
                     "uncompleted_operations() (spec function CountOfJob, defined by recursion over the list; the list itself is "
                     "proved to be unscheduled followed by ongoing, and ongoing to be exactly the scheduled operations ending "
                     "after the current time); most_operations_remaining_score gives every job that count and is a scoring "
                     "function in the sense of the abstract contract",
                     "bounded only: equality of the direct and the observer-based MWKR rule (numpy), "
                     "the factories and the 5 x 2 x filter configuration matrix, machine choosers"],
    ),
    "C11": dict(
        level="exploration",
        functions=["PositionInJobObserver.update", "RemainingOperationsObserver.update",
                   "UnscheduledOperationsObserver.update", "UnscheduledOperationsObserver.reset"],
        lemmas=[],
        tierb=True,
        trusted=[T_OBSERVERS,
                 "numpy through the contract of contracts/features.py: `observer.features` maps a FeatureType to a one-column "
                 "array; a[i, 0] reads, a[i, 0] = v / += v / -= v write exactly that entry (IndexError outside), a[:] = v sets "
                 "every entry, `t in features` tells whether t is tracked; the float32 entries hold small integers (exact)"],
        assumptions=[A_VALID,
                     "assumed (true at the only call site, not part of the abstract observer contract): the operation handed to "
                     "update() is the latest dispatched operation of its job",
                     "proved (step specifications, reported; the property itself stays bounded): PositionInJobObserver.update "
                     "sets the entry of every later operation of the job to its new position among the unscheduled ones "
                     "(p - p0 - 1) and leaves every other entry alone; RemainingOperationsObserver.update lowers exactly the "
                     "job's and the machine's counter by one (for the tracked feature types); UnscheduledOperationsObserver "
                     "update / reset keep the per-job deques a mirror of the dispatcher's next-operation indices",
                     "bounded only: the absolute values after every history (induction from the initial values), all other "
                     "feature observers (fancy indexing, vectorised arithmetic), the composite, constructibility"],
    ),
    "C12": dict(
        level="exploration",
        # the part within reach of contracts is proved and reported, but the property is about numpy feature
        # observers, the graph updater and the environments as much as about these objects: claimed as bounded
        functions=["Dispatcher.reset", "Dispatcher.__init__", "Schedule.reset", "HistoryObserver.reset",
                   "RewardObserver.reset", "MakespanReward.reset", "Dispatcher.dispatch",
                   "UnscheduledOperationsObserver.reset", "UnscheduledOperationsObserver.update"],
        lemmas=["reset-state-equals-fresh-state", "dispatch-post-deterministic"],
        tierb=True,
        trusted=[T_OBSERVERS],
        assumptions=[A_VALID,
                     "proved (not enough to claim the property): Dispatcher.reset and Dispatcher.__init__ establish the same "
                     "abstract state (lemma reset-state-equals-fresh-state) from which dispatch is deterministic; reset clears "
                     "the cache BEFORE notifying subscribers (cache invariant in the loop invariant of reset); "
                     "HistoryObserver / RewardObserver / MakespanReward resets re-establish their constructor state; "
                     "UnscheduledOperationsObserver.reset lists every operation of every job (the state its constructor "
                     "builds) and update keeps the per-job deques a mirror of the dispatcher's next-operation indices",
                     "bounded only: the seven numpy feature observers and the composite, "
                     "ResidualGraphUpdater, both environments, creation orders"],
    ),
    "C14": dict(
        level="proof",
        functions=["JobShopInstance.__init__", "JobShopInstance.set_operation_attributes", "JobShopInstance.num_jobs",
                   "JobShopInstance.num_operations", "JobShopInstance.num_machines$body", "JobShopInstance.is_flexible",
                   "JobShopInstance.durations_matrix", "JobShopInstance.machines_matrix", "JobShopInstance.max_duration",
                   "JobShopInstance.max_duration_per_job", "JobShopInstance.max_duration_per_machine",
                   "JobShopInstance.job_durations", "JobShopInstance.total_duration",
                   "JobShopInstance.from_matrices", "JobShopInstance.from_matrices$flexible",
                   "JobShopInstance.to_dict", "Schedule.to_dict", "lemma_matrices_round_trip",
                   "lemma_matrices_round_trip_flexible",
                   "Dispatcher.dispatch", "Dispatcher.reset", "DispatchingRuleSolver.solve"],
        lemmas=[],
        tierb=True,
        trusted=[T_OBSERVERS,
                 "functools.cached_property: the body runs once and its value is stored; the instance is not modified "
                 "afterwards (frames), so the stored value stays the value of the body",
                 "spec-level sums are ghost prefix-sum arrays ($$cumL job lengths, $$cumD durations within a job, $$cumT job "
                 "durations) introduced by their recursive definitions (conservative); the verifier's sum rule proves "
                 "sum(...) == prefix-sum(n) from the two defining equations",
                 "RawInstance: the operations passed to JobShopInstance are pairwise distinct objects (ghost inverse maps "
                 "$gj/$gp); with a shared Operation object the numbering property is false for the real code as well"],
        assumptions=[A_VALID,
                     "proved: set_operation_attributes / __init__ number the operations densely in job-major order "
                     "(job_id = j, position_in_job = p, operation_id = sum of earlier job lengths + p) and touch no other "
                     "object; num_jobs, num_operations, the body of num_machines (largest machine id + 1), is_flexible, "
                     "durations_matrix, machines_matrix (both branches), max_duration, max_duration_per_job, "
                     "max_duration_per_machine, job_durations, total_duration equal their definitions; dispatch, reset and "
                     "the dispatching-rule solver loop have frames that exclude every field and list of the instance",
                     "proved: JobShopInstance.from_matrices (machine ids or lists of machine ids) builds one job per row and one "
                     "NEW operation per entry with the duration and the machine(s) of that entry, numbered, for ragged matrices too "
                     "; to_dict() of an instance holds its name, metadata and the two matrices as the views compute them; "
                     "Schedule.to_dict() holds, per machine, the job ids of its operations in order; the round trip "
                     "from_matrices(I.durations_matrix, I.machines_matrix) rebuilds the same number of jobs and operations with "
                     "the same durations and machines, for non-flexible instances (matrix of machine ids) and for flexible ones "
                     "(matrix of machine-id lists) (ghost lemmas contracts/ghost_src.py::lemma_matrices_round_trip[_flexible]: the "
                     "three contracts executed one after the other; the lemma names which of from_matrices' two contracts -- one per "
                     "argument shape -- the call goes through, and has to establish that contract's pre-condition)",
                     "bounded only: numpy arrays (padded matrices), operations_by_machine, machine_loads, the round trip through JSON "
                     "text / "
                     "from_taillard_file, Schedule.from_dict / "
                     "from_job_sequences (acceptance iff acyclic, no hang), immutability under observers, graph builders and "
                     "environments"],
    ),
    "C15": dict(
        level="proof",
        functions=["Operation.__eq__", "Operation.__hash__", "ScheduledOperation.__eq__", "Schedule.__eq__",
                   "JobShopInstance.__eq__", "ScheduledOperation.machine_id", "Schedule.schedule"],
        lemmas=["equality-is-an-equivalence:Operation", "equality-is-an-equivalence:ScheduledOperation",
                "equality-is-an-equivalence:Schedule", "equality-is-an-equivalence:JobShopInstance",
                "equal-operations-hash-equally"],
        tierb=True,
        trusted=["CPython list equality = same length and element-wise == (identity shortcut is subsumed by reflexivity)",
                 "hash(int) is a function of the value"],
        assumptions=["the other operand is None or an instance of the same class (the isinstance test of a foreign class is "
                     "the first statement of each __eq__ and returns False; exercised by the bounded run)"],
    ),
    "C16": dict(
        level="proof",
        functions=["build_disjunctive_graph", "build_agent_task_graph", "build_agent_task_graph_with_jobs",
                   "build_complete_agent_task_graph",
                   "add_disjunctive_edges", "add_conjunctive_edges", "add_source_sink_nodes", "add_source_sink_edges",
                   "add_machine_nodes", "add_operation_machine_edges", "add_machine_machine_edges",
                   "add_same_job_operations_edges", "add_job_nodes", "add_operation_job_edges", "add_job_job_edges",
                   "add_global_node", "add_machine_global_edges", "add_job_global_edges",
                   "JobShopGraph.__init__", "JobShopGraph.add_operation_nodes", "JobShopGraph.add_node", "JobShopGraph.add_edge",
                   "JobShopGraph.nodes", "JobShopGraph.nodes_by_type", "JobShopGraph.nodes_by_job", "JobShopGraph.nodes_by_machine",
                   "Node.__init__", "Node.node_id", "Node.node_id.setter", "Node.operation", "Node.machine_id", "Node.job_id"],
        lemmas=[],
        tierb=True,
        trusted=["networkx through the contracts of contracts/graphs.py: a DiGraph is a node set and an edge map over an injective "
                 "pairing of node ids (0 = no edge, else 1 + type code, 100 = no type attribute); add_node, add_edge (overwrites "
                 "the type of an existing edge), remove_node (with every incident edge), remove_nodes_from, isolates, `in` mean "
                 "what their names say",
                 "collections.defaultdict(list) keyed by NodeType = a total map type -> list, all lists empty at creation; "
                 "itertools.combinations(xs, 2) = each index pair i < j exactly once (ghost bijection CombK / CombA / CombB)",
                 "allocation layout of the graph's lists as left by JobShopGraph.__init__ (TablesOK: the rows of the type / "
                 "machine / job tables lie between the tables; proved for __init__, preserved by every verified mutator)",
                 "ghost maps: $$mpos (node id -> index in its machine row), $jbase / $gid (id of the first job node / of the "
                 "global node); consequences by induction of the prefix sums cumL stated as pre-conditions"],
        assumptions=[A_VALID, "operations numbered by JobShopInstance (operation_id = number of earlier operations); the instance "
                     "is older than the graph",
                     "NON-FLEXIBLE instances for everything that goes through the per-machine rows (disjunctive edges, "
                     "operation-machine edges and the four composite builders); the node bookkeeping, conjunctive / source-sink / "
                     "same-job / job / global builders are proved for flexible instances as well",
                     "proved: JobShopGraph(instance) has exactly one node per operation and node k carries the operation whose "
                     "operation_id is k; add_node gives the next id and keeps GraphOK; add_edge sets exactly the edge (u, v) to "
                     "the given type and raises ValidationError iff an end is not in the graph; each of the 14 building blocks "
                     "adds EXACTLY its edges / nodes (stated for all pairs (u, v): new edge map = If(condition, type, old)); "
                     "build_disjunctive_graph: N + 2 nodes (operations by id, source, sink), conjunctive for source->first, "
                     "last->sink and successive operations of a job, else disjunctive between two different operations sharing a "
                     "machine, else no edge; build_agent_task_graph / _with_jobs / build_complete_agent_task_graph: operations, "
                     "then one node per machine, per job, the global node, and exactly the operation-machine, machine-machine, "
                     "same-job, operation-job, job-job and global edges of that variant, no more, no fewer",
                     "bounded only: flexible instances for the machine-row based builders, the solved disjunctive graph "
                     "(acyclic; longest path <= makespan, = for dispatcher-built schedules: a graph-theoretic theorem, no "
                     "function computes it), default-argument / shared-node effects across graphs, unused machine ids in the "
                     "agent-task graphs are covered by the proof (one node per machine id below num_machines)"],
    ),
    "C17": dict(
        level="exploration",
        functions=["JobShopGraph.remove_node", "remove_completed_operations", "JobShopGraph.add_node", "JobShopGraph.__init__"],
        lemmas=[],
        tierb=True,
        trusted=["networkx (see C16)", T_OBSERVERS],
        assumptions=[A_VALID,
                     "proved (reported, not enough to claim the property): JobShopGraph.remove_node keeps GraphOK -- the flags "
                     "removed_nodes mirror the networkx node set, no remaining edge touches a removed node --, marks the node "
                     "(and the nodes that became isolated) removed, and never un-removes a node; remove_completed_operations "
                     "removes the node of every operation it is given (node id = operation id) and keeps removals permanent",
                     "bounded only: that no unscheduled operation's node and no machine / job node with unscheduled operations "
                     "is ever removed (needs the structure of the graph built -- isolated-node sweeping -- and the numpy-based "
                     "IsCompletedObserver), that everything is removed at completion, ResidualGraphUpdater.update / reset, "
                     "episodes after reset"],
    ),
    "C18": dict(
        level="exploration",
        functions=["SingleJobShopGraphEnv.step", "Schedule.is_complete", "Dispatcher.next_operation", "Dispatcher.dispatch"],
        lemmas=["legal-decisions-in-action-space"],
        tierb=True,
        trusted=[T_OBSERVERS, "SingleJobShopGraphEnv.get_observation, composite_observer.column_names and "
                 "reward_function.last_reward are opaque read-only contracts (numpy / gymnasium objects)"],
        assumptions=[A_VALID,
                     "proved (reported, not enough to claim the property): SingleJobShopGraphEnv.step dispatches the next "
                     "operation of the chosen job on the chosen machine (-1 = its only machine), returns done == (every operation "
                     "is scheduled) and truncated == False, and raises without changing anything for every illegal decision",
                     "proved from the extracted statement `self.action_space = MultiDiscrete([..], start=[..])` of "
                     "SingleJobShopGraphEnv.__init__ (trusted: MultiDiscrete contains x iff start <= x < start + nvec): every "
                     "(job, machine) with 0 <= job < J and -1 <= machine < M is in the action space, for all J, M >= 1",
                     "bounded only: observations belong to the declared spaces and mirror the graph, padding, the action space "
                     "of the multi-instance environment, MultiJobShopGraphEnv (configuration kept across "
                     "episodes, instances within the generator's ranges), reset"],
    ),
    "C19": dict(
        level="proof",
        functions=["GeneralInstanceGenerator.generate", "GeneralInstanceGenerator.create_random_operation",
                   "GeneralInstanceGenerator._choose_one_machine", "GeneralInstanceGenerator._choose_multiple_machines",
                   "GeneralInstanceGenerator.__init__", "InstanceGenerator.__init__", "InstanceGenerator._next_name",
                   "InstanceGenerator.__iter__", "InstanceGenerator.__next__", "InstanceGenerator.__len__",
                   "InstanceGenerator.max_num_jobs", "InstanceGenerator.min_num_jobs",
                   "InstanceGenerator.max_num_machines", "InstanceGenerator.min_num_machines",
                   "Operation.__init__", "Operation.__init__$list",
                   "JobShopInstance.__init__", "JobShopInstance.set_operation_attributes"],
        lemmas=[],
        tierb=True,
        trusted=["random.seed / random.randint / random.choice through the contracts of pyvc/library.py: the global generator "
                 "is a deterministic state machine (RngSeed, RngNext) whose draws are functions of the state with "
                 "a <= randint(a, b) <= b (ValueError when a > b) and choice(seq) = seq[i], 0 <= i < len(seq) (IndexError "
                 "when empty); one abstract step per call",
                 "str(int) is injective and an f-string is determined by the values formatted into it (names "
                 "`{suffix}_{counter}` differ when the counters differ)",
                 "InstanceGenerator.generate (abstract method) is used by __next__ through an abstract contract that "
                 "GeneralInstanceGenerator.generate's contract implies (same frame, stronger post-condition)",
                 "ghost witnesses ($$visit: machine -> position in the job; $$pidx / $$used inside the loops; $rmw index of "
                 "the removed pool element; $gj / $gp inverse maps of the new operations; $$cumL prefix sums of the new "
                 "instance, introduced by their recursive definition when the object is created)"],
        assumptions=["the request is satisfiable (pre-condition of generate, otherwise random.randint raises ValueError / "
                     "random.choice IndexError, and no instance is produced): duration range and the effective job / machine "
                     "ranges are not empty, counts are >= 0, and with several machines per operation the upper bound does not "
                     "exceed the machine count",
                     "proved, for every state of the random generator: job count within the requested range (raised to the "
                     "minimum machine count when fewer jobs than machines are disallowed) or as given; every job has exactly M "
                     "operations, M within the machine range (capped by the job count when fewer jobs are disallowed) or as "
                     "given, J >= M in that mode (ValidationError exactly when both are given and J < M); durations within "
                     "range; with several machines per operation each operation has k distinct machine ids below M, k within "
                     "the requested range, the first one drawn from the WHOLE pool of M machines; with one machine per "
                     "operation the id is below M and drawn from the whole remaining pool; without recirculation every job uses "
                     "every machine (ghost witness; with M operations per job: exactly once); operations numbered; the "
                     "constructor seeds the global generator with the given seed whenever one is given (0 included) and leaves "
                     "it alone otherwise; _next_name advances the counter by one and formats the NEW counter; __iter__ changes "
                     "nothing but the iteration counter (frame); __next__ raises StopIteration iff the limit is reached and "
                     "otherwise yields one instance and advances the iteration counter by one; __len__ is the limit",
                     "bounded only: `two generators with the same seed produce identical sequences` as a whole (the proof "
                     "gives: seeded state is a function of the seed, every draw is a function of the state; the composition "
                     "over a whole generate() call -- a relational property -- is exercised by the bounded run), "
                     "`iteration yields exactly the configured number` as a count over a whole loop (arithmetic over the "
                     "per-call contracts), the `available_machines=None` default of create_random_operation, module-level "
                     "state shared between generator objects (a field the sidecar does not declare is drift)"],
    ),
    "C20": dict(
        level="proof",
        functions=["plot_gantt_chart", "_initialize_plot", "_plot_machine_schedules", "_plot_scheduled_operation",
                   "_get_job_label", "_configure_legend", "_configure_axes",
                   "Schedule.schedule", "Schedule.makespan", "ScheduledOperation.end_time", "ScheduledOperation.job_id",
                   "JobShopInstance.num_jobs"],
        lemmas=["frames-loaded-in-save-order"],
        tierb=True,
        trusted=["matplotlib through the contracts of contracts/plotting.py: Axes.broken_barh([(x, w)], (y, h), facecolors=c) draws "
                 "exactly one bar; set_xlim / set_xticks / legend(handles=) record their arguments; set_xlabel, set_ylabel, "
                 "grid, set_ylim, set_yticks, set_yticklabels, yaxis.grid, pyplot.title leave bars, x-limits, x-ticks and "
                 "legend alone; pyplot.subplots() returns a new empty Axes; cmap(norm(j)) is a function of the two objects and "
                 "j; Patch(facecolor=c, label=l) is a new patch with that colour",
                 "strings (contracts/frames.py): `\"\".join(c for c in s if c.isdigit())` keeps exactly the decimal digits and "
                 "distributes over concatenation; format(i, '0Nd') = str(i) left-padded with '0' to width N for i >= 0; int() of "
                 "a non-empty digit string is its decimal value; os.listdir returns the base names of the files written and "
                 "nothing else; tuples compare lexicographically, strings by code point (SMT-LIB str.<, str.to_int, "
                 "str.from_int)",
                 "ghost prefix sums $$cumS of the machine-list lengths (given by their defining equations as a pre-condition) "
                 "index the bars: bar cumS(m) + i is operation i of machine m"],
        assumptions=["the schedule is well-formed (a list of pairwise distinct machine lists of scheduled operations with "
                     "operations), job_labels -- if given -- cover the job ids that occur",
                     "proved: plot_gantt_chart draws on a NEW Axes exactly one bar per scheduled operation, bar cumS(m)+i spanning "
                     "start_time .. end_time (width = duration) of operation i of machine m in the row of machine m "
                     "(y = 1 + 10 m, height 9), coloured cmap(norm(job_id)); every plotted job has a legend handle whose face "
                     "colour is the SAME colour term, and the legend lists the handles in increasing job id; the x-axis runs "
                     "from 0 to the requested limit, or to the makespan (max of the last ends) when none is given, and the last "
                     "tick is that value; ZeroDivisionError iff number_of_x_ticks == 0, IndexError iff a negative limit is "
                     "requested; for ALL frame numbers 1 <= i < j the sort key `_load_images` uses orders the file name "
                     "`_save_frame` writes for i strictly before the one for j (extracted from the source on every run; "
                     "counterexamples are searched among the neighbours of the powers of ten)",
                     "bounded only: that frame k is saved right after the k-th dispatch of the recorded history and shows "
                     "exactly those k operations (create_gantt_chart_frames, the partial plotter with the current-time line, "
                     "GanttChartCreator), the image files and the GIF/video encoding, distinctness of the colours matplotlib "
                     "assigns to different jobs, tick positions other than the last"],
    ),
}
