"""Tiny functions with deliberately WRONG (and a few right) contracts: soundness probes of the verifier
(tools/unsound_probe.py).  Not part of any property."""


def probe_inner_max(rows: list[list[int]]) -> list[int]:
    return [max(x for x in row) for row in rows]


def probe_inner_sum(rows: list[list[int]]) -> list[int]:
    return [sum(x for x in row) for row in rows]


def probe_alias(xs: list[int]) -> list[int]:
    ys = xs
    ys.append(1)
    return xs


def probe_slice_fresh(xs: list[int]) -> list[int]:
    ys = xs[:]
    ys.append(1)
    return xs


def probe_loop_sum(xs: list[int]) -> int:
    total = 0
    for x in xs:
        total += x
    return total


def probe_off_by_one(xs: list[int]) -> int:
    best = 0
    for i in range(1, len(xs)):
        if xs[i] > xs[best]:
            best = i
    return best


def probe_empty_max(xs: list[int]) -> int:
    return max(x for x in xs)


def probe_matrix(rows: list[list[int]]) -> list[list[int]]:
    return [[x + 1 for x in row] for row in rows]
