"""C11 (deductive part): the update step of the feature observers that only use element-wise numpy access.

numpy is used through a [TRUSTED] contract: `observer.features` is a mapping FeatureType -> 2-d array with one column;
`a[i, 0]` reads, `a[i, 0] = v` / `a[i, 0] += v` write exactly that entry (IndexError outside the array), `a[:] = v`
sets every entry, `t in features` tells whether the type is tracked.  Values are integers (the arrays are float32
arrays holding small integers: exact).  Ghost: `$$feat:k[F]` (entry array of feature type k of the mapping F),
`$feat_has:k[F]`, `$feat_len:k[F]`.

What is proved are STEP specifications: which entries an update changes and to what, and that every other entry is
left alone; the absolute values (equal to a recomputation after every history) then follow by induction over the
history from the initial values, which the bounded run checks.
"""
from __future__ import annotations

import z3

from pyvc.engine import Contract, Frame, LoopSpec, OutsideSubset
from pyvc.library import ext_method
from pyvc.values import EXT, INT, REF, VNONE, Val, forall, vbool, vint

from .core import REGISTRY, register
from .spec import FIELD_TYPES, Disp, bv, imp, rng

FIELD_TYPES.update({"FeatureObserver.features": EXT("FeatureDict")})
OPS, MACHINES, JOBS = 0, 1, 2
FEAT_FIELDS = [f"$$feat:{k}" for k in range(3)]


def feat(h, F, k, i):
    return z3.Select(h.get(f"$$feat:{k}", F), i)


def feat_has(h, F, k):
    return h.get(f"$feat_has:{k}", F) != 0


def feat_len(h, F, k):
    return h.get(f"$feat_len:{k}", F)


def _ft_const(v):
    t = z3.simplify(v.t)
    if not z3.is_int_value(t):
        raise OutsideSubset("feature type that is not a constant member of FeatureType")
    return t.as_long()


@ext_method("FeatureDict", "__getitem__", "features[t]: the array of feature type t (KeyError when t is not tracked)")
def _fd_getitem(eng, node, st, base, idx):
    k = _ft_const(idx)
    okst, bad = eng.split(st, feat_has(st.heap, base.t, k), "KeyError", node)
    out = [(b, None) for b in bad]
    if okst is not None:
        out.append((okst, Val(EXT("NDArray"), base.t, z3.IntVal(k))))
    return out


@ext_method("FeatureDict", "__contains__", "t in features: whether feature type t is tracked")
def _fd_contains(eng, st, coll, x):
    return feat_has(st.heap, coll.t, _ft_const(x))


def _entry(eng, st, arr, idx, node):
    if idx.ty.kind != "tuple" or len(idx.t) != 2 or not z3.is_int_value(z3.simplify(idx.t[1].t)) \
            or z3.simplify(idx.t[1].t).as_long() != 0 or idx.t[0].ty.kind not in ("int", "bool"):
        raise OutsideSubset("array access other than a[i, 0] with an integer i")
    F, k = arr.t, z3.simplify(arr.aux).as_long()
    i = idx.t[0].t
    n = feat_len(st.heap, F, k)
    iw = z3.If(i < 0, i + n, i)
    okst, bad = eng.split(st, rng(iw, 0, n), "IndexError", node)
    return okst, bad, F, k, iw


@ext_method("NDArray", "__getitem__", "a[i, 0]: the entry of row i (IndexError outside the array)")
def _nd_getitem(eng, node, st, base, idx):
    okst, bad, F, k, iw = _entry(eng, st, base, idx, node)
    out = [(b, None) for b in bad]
    if okst is not None:
        out.append((okst, vint(feat(okst.heap, F, k, iw))))
    return out


@ext_method("NDArray", "__setitem__", "a[i, 0] = v writes exactly that entry")
def _nd_setitem(eng, node, st, base, idx, v):
    okst, bad, F, k, iw = _entry(eng, st, base, idx, node)
    out = list(bad)
    if okst is not None:
        h = okst.heap
        okst.heap = h.put(f"$$feat:{k}", F, z3.Store(h.get(f"$$feat:{k}", F), iw, eng.num(v)))
        out.append(okst)
    return out


@ext_method("NDArray", "__setslice__", "a[:] = v sets every entry to v")
def _nd_setslice(eng, node, st, base, v):
    F, k = base.t, z3.simplify(base.aux).as_long()
    st.heap = st.heap.put(f"$$feat:{k}", F, z3.K(z3.IntSort(), eng.num(v)))
    return [st]


# ---------------------------------------------------------------------------
def _obs_pre(c):
    """the abstract observer pre-condition plus: the features mapping exists; the operation handed to update() is the
    latest operation of its job (true at the one call site, Dispatcher._update_tracking_attributes, which advances the
    job's index just before notifying; NOT part of the abstract observer contract -- stated as an assumption)"""
    h, s, x = c.h0, c["self"], c["scheduled_operation"]
    d = h.get("dispatcher", s)
    D = Disp(h, d)
    o = D.opx(x)
    return REGISTRY["DispatcherObserver.update"].requires(c) + [
        ("features", h.get("features", s) > 0),
        ("assumed:update-gets-the-latest-operation-of-its-job", D.it.pos(o) == D.kj(D.it.jid(o)) - 1)]


def others_kept(h0, h, F, k, changed):
    i = bv("fi")
    return forall([i], imp(z3.Not(changed(i)), feat(h, F, k, i) == feat(h0, F, k, i)), patterns=[feat(h, F, k, i)])


@register
class PositionInJobUpdate(Contract):
    name = "PositionInJobObserver.update"
    properties = ("C11",)

    def requires(self, c):
        from .instance import numbered
        h, s = c.h0, c["self"]
        F = h.get("features", s)
        D = Disp(h, h.get("dispatcher", s))
        return _obs_pre(c) + [("operations-feature-tracked", z3.And(feat_has(h, F, OPS), feat_len(h, F, OPS) == D.it.N)),
                              ("operations-numbered", numbered(h, D.I))]

    def modifies(self, c):
        F = c.h0.get("features", c["self"])
        return Frame(fields={"$$feat:0": [F]}, alloc_lists=True)

    def ensures(self, c):
        h0, h, s, x = c.h0, c.h, c["self"], c["scheduled_operation"]
        F = h0.get("features", s)
        D = Disp(h0, h0.get("dispatcher", s))
        it = D.it
        o = D.opx(x)
        j0, p0 = it.jid(o), it.pos(o)
        p = bv("fp")
        later = it.op(j0, p)
        i = bv("fi")
        return [("later-operations-of-the-job-move-up-by-one", forall([p], imp(
            rng(p, p0 + 1, it.L(j0)), feat(h, F, OPS, h0.get("operation_id", later)) == p - p0 - 1), patterns=[it.op(j0, p)])),
            ("every-other-entry-unchanged", forall([i], imp(
                z3.Not(z3.And(it.cumL(j0) + p0 < i, i < it.cumL(j0) + it.L(j0))), feat(h, F, OPS, i) == feat(h0, F, OPS, i)),
                patterns=[feat(h, F, OPS, i)]))]

    @property
    def loops(self):
        def inv(k):
            h0, h, s, x = k.h0, k.h, k["self"], k["scheduled_operation"]
            F = h0.get("features", s)
            D = Disp(h0, h0.get("dispatcher", s))
            it = D.it
            o = D.opx(x)
            j0, p0 = it.jid(o), it.pos(o)
            p, i = bv("fp"), bv("fi")
            return [("tail-of-the-job", z3.And(k.n == it.L(j0) - p0 - 1, k.v("job") == it.job(j0))),
                    ("moved-so-far", forall([p], imp(rng(p, p0 + 1, p0 + 1 + k.i),
                                                    feat(h, F, OPS, h0.get("operation_id", it.op(j0, p))) == p - p0 - 1),
                                            patterns=[it.op(j0, p)])),
                    ("every-other-entry-unchanged", forall([i], imp(
                        z3.Not(z3.And(it.cumL(j0) + p0 < i, i < it.cumL(j0) + p0 + 1 + k.i)),
                        feat(h, F, OPS, i) == feat(h0, F, OPS, i)), patterns=[feat(h, F, OPS, i)]))]

        def mod(k):
            F = k.h0.get("features", k["self"])
            return Frame(fields={"$$feat:0": [F]})
        return {0: LoopSpec("for (new_position_in_job, operation) in enumerate(job[scheduled_operation.position_in_job + 1:])",
                            inv, mod)}


@register
class RemainingOperationsUpdate(Contract):
    name = "RemainingOperationsObserver.update"
    properties = ("C11",)

    def requires(self, c):
        h, s = c.h0, c["self"]
        F = h.get("features", s)
        D = Disp(h, h.get("dispatcher", s))
        return _obs_pre(c) + [("tracked-features-have-one-row-per-entity", z3.And(
            imp(feat_has(h, F, JOBS), feat_len(h, F, JOBS) == D.it.J), imp(feat_has(h, F, MACHINES), feat_len(h, F, MACHINES) == D.M)))]

    def modifies(self, c):
        F = c.h0.get("features", c["self"])
        return Frame(fields={"$$feat:1": [F], "$$feat:2": [F]})

    def ensures(self, c):
        h0, h, s, x = c.h0, c.h, c["self"], c["scheduled_operation"]
        F = h0.get("features", s)
        D = Disp(h0, h0.get("dispatcher", s))
        j0, m0 = D.it.jid(D.opx(x)), D.mid(x)
        i = bv("fi")
        return [("the-job's-count-drops-by-one-nothing-else", imp(feat_has(h0, F, JOBS), forall([i], feat(h, F, JOBS, i) == feat(
            h0, F, JOBS, i) - z3.If(i == j0, 1, 0), patterns=[feat(h, F, JOBS, i)]))),
            ("the-machine's-count-drops-by-one-nothing-else", imp(feat_has(h0, F, MACHINES), forall([i], feat(
                h, F, MACHINES, i) == feat(h0, F, MACHINES, i) - z3.If(i == m0, 1, 0), patterns=[feat(h, F, MACHINES, i)]))),
            ("untracked-features-untouched", z3.And(
                imp(z3.Not(feat_has(h0, F, JOBS)), h.get("$$feat:2", F) == h0.get("$$feat:2", F)),
                imp(z3.Not(feat_has(h0, F, MACHINES)), h.get("$$feat:1", F) == h0.get("$$feat:1", F))))]
