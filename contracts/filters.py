"""C07 / C06: ready-operation filters and the start-time helpers they use."""
from __future__ import annotations

import z3

from pyvc.engine import Contract, Frame, LoopSpec
from pyvc.values import BOOL, INT, LIST, REF, SET, XINT, forall, fresh

from .core import REGISTRY, ScheduleMakespan, reach, register, so_end
from .spec import Disp, SHAPE, bv, imp, rng, zmax

OPS = LIST(REF("Operation"))


def st_of(D, o, m):
    """start time of operation o on machine m in the current state"""
    return zmax(D.mn(m), D.jn(D.it.jid(o)))


def ops_wf(h, d, L, name="operations"):
    """L is a list of operations of the instance (objects distinct from the dispatcher's lists)"""
    D = Disp(h, d)
    r = bv("r")
    return [(name + "-are-operations", z3.And(L > 0, L < h.alloc, h.len(L) >= 0,
                                              forall([r], imp(rng(r, 0, h.len(L)), D.it.is_op(h.at(L, r))),
                                                     patterns=[h.at(L, r)])))]


def ready_sorted(h, d, L, name="operations"):
    """L is a sub-list of the ready operations: every element is the next operation of its
    job, and job ids increase strictly (the order of raw_ready_operations; hence no duplicates)"""
    D = Disp(h, d)
    r, r2 = bv("r"), bv("r2")
    o = h.at(L, r)
    return ops_wf(h, d, L, name) + [
        (name + "-are-ready", forall([r], imp(rng(r, 0, h.len(L)), D.it.pos(o) == D.kj(D.it.jid(o))),
                                    patterns=[h.at(L, r)])),
        (name + "-in-job-order", forall([r, r2], imp(z3.And(rng(r, 0, h.len(L)), rng(r2, 0, h.len(L)), r < r2),
                                                     D.it.jid(h.at(L, r)) < D.it.jid(h.at(L, r2))),
                                        patterns=[z3.MultiPattern(h.at(L, r), h.at(L, r2))])),
    ]


def is_min_start(h, d, L, t, upto=None, inner=None):
    """t = min over operations L[r] (r < upto) and their machines of st; with `inner` =
    (r0, q0): additionally over machines q < q0 of operation L[r0]"""
    D = Disp(h, d)
    r, q = bv("r"), bv("q")
    n = h.len(L) if upto is None else upto
    o = h.at(L, r)
    le = [forall([r, q], imp(z3.And(rng(r, 0, n), rng(q, 0, D.it.nmach(o))), t <= st_of(D, o, D.it.mach(o, q))),
                 patterns=[D.it.mach(h.at(L, r), q)])]
    hit = [z3.Exists([r, q], z3.And(rng(r, 0, n), rng(q, 0, D.it.nmach(o)), t == st_of(D, o, D.it.mach(o, q))))]
    if inner is not None:
        r0, q0 = inner
        o0 = h.at(L, r0)
        le.append(forall([q], imp(rng(q, 0, q0), t <= st_of(D, o0, D.it.mach(o0, q)))))
        hit.append(z3.Exists([q], z3.And(rng(q, 0, q0), t == st_of(D, o0, D.it.mach(o0, q)))))
    return z3.And(z3.And(le), z3.Or(hit))


def min_start_unique_fact(h, d, L):
    """instance of lemma `min-start-unique` (proved in the same run) for this list"""
    t1, t2 = bv("t1"), bv("t2")
    return forall([t1, t2], imp(z3.And(is_min_start(h, d, L, t1), is_min_start(h, d, L, t2)), t1 == t2))


def ms_term(h, d, L):
    """MinStart(h, d, L) as a *term*: an uninterpreted function of exactly the *local* heap
    components the minimum start time depends on -- the content of the two next-available
    vectors of d, the length and content of L, and the (never written) `machines` / `job_id`
    field arrays.  Unrelated heap changes (allocating a result list, ghost fields) leave these
    arguments equal by plain array reasoning, so the term is stable across them.
    `Dispatcher.min_start_time`'s contract ties it to its definition (`is_min_start`).
    Assumes the machine lists of the instance's operations are never mutated (the frame of
    every function under contract proves that for the verified code)."""
    D = Disp(h, d)
    comps = [h.elarr(D.mnat), h.elarr(D.jnat), h.len(L), h.elarr(L), h.farr("machines"), h.farr("job_id")]
    F = z3.Function("MinStart", *[x.sort() for x in comps], z3.IntSort())
    return F(*comps)


def ms_axiom(h, d, L):
    """definition of the MinStart term: for a non-empty list it IS the minimum start time.
    Justified (Skolem function of a proven exists-unique statement) by the first
    post-condition of `Dispatcher.min_start_time` (existence: the verified loop) and the
    lemma `min-start-unique`; those are proved WITHOUT this fact."""
    return imp(h.len(L) > 0, is_min_start(h, d, L, ms_term(h, d, L)))


@register
class MinStartTime(Contract):
    name = "Dispatcher.min_start_time"
    ret = INT
    pure = True
    params = {"operations": OPS}
    properties = ("C05", "C06", "C07")
    relevant = {n: SHAPE + ["R4a-scheduled-are-ops", "inst-machines"]
                for n in ("min-start-or-makespan", "partial-minimum", "partial-minimum-inner", "op-is-current",
                          "is-the-min-start-term")}
    uses_definitions = ("is-the-min-start-term",)
    lemma_deps = ("min-start-unique",)

    def ghost_entry(self, c, st):
        h, d, L = c.h0, c["self"], c["operations"]
        st.assume(ms_axiom(h, d, L), "definition:MinStart")
        st.assume(min_start_unique_fact(h, d, L), "definition:min-start-unique")

    def requires(self, c):
        return reach(c.h0, c["self"]) + ops_wf(c.h0, c["self"], c["operations"])

    def ensures(self, c):
        h, d, L = c.h0, c["self"], c["operations"]
        D = Disp(h, d)
        return [("min-start-or-makespan", z3.If(h.len(L) == 0, ScheduleMakespan.spec(h, D.S, D.M, c.result),
                                                is_min_start(h, d, L, c.result))),
                ("is-the-min-start-term", imp(h.len(L) > 0, c.result == ms_term(h, d, L)))]

    @property
    def loops(self):
        def outer(k):
            h, d, L = k.h0, k["self"], k["operations"]
            v = k.env["min_start_time"]
            return [("partial-minimum", z3.If(v.aux, k.i == 0, is_min_start(h, d, L, v.t, upto=k.i)))]

        def inner(k):
            h, d, L = k.h0, k["self"], k["operations"]
            v = k.env["min_start_time"]
            r0 = k.outer[-1]
            return [("op-is-current", z3.And(k.v("op") == h.at(L, r0), rng(r0, 0, h.len(L)))),
                    ("partial-minimum-inner", z3.If(v.aux, z3.And(r0 == 0, k.i == 0),
                                                    is_min_start(h, d, L, v.t, upto=r0, inner=(r0, k.i))))]
        return {0: LoopSpec("for op in operations", outer), 1: LoopSpec("for machine_id in op.machines", inner)}


def is_est(h, d, o, r):
    """r = earliest start of o over all its machines = min_q max(machine free, job ready)"""
    D = Disp(h, d)
    q = bv("q")
    return z3.And(forall([q], imp(rng(q, 0, D.it.nmach(o)), r <= st_of(D, o, D.it.mach(o, q))),
                         patterns=[D.it.mach(o, q)]),
                  z3.Exists([q], z3.And(rng(q, 0, D.it.nmach(o)), r == st_of(D, o, D.it.mach(o, q)))))


@register
class EarliestStartTime(Contract):
    name = "Dispatcher.earliest_start_time"
    ret = INT
    pure = True
    properties = ("C05", "C07")
    relevant = {"earliest-start-over-eligible-machines": SHAPE + ["inst-machines"]}

    def requires(self, c):
        D = Disp(c.h0, c["self"])
        return reach(c.h0, c["self"]) + [("operation-of-the-instance", D.it.is_op(c["operation"]))]

    def ensures(self, c):
        return [("earliest-start-over-eligible-machines", is_est(c.h0, c["self"], c["operation"], c.result))]


def busy(D, m, t):
    """machine m still runs something at time t"""
    return z3.And(rng(m, 0, D.M), D.nS(m) > 0, D.end(D.x(m, D.nS(m) - 1)) > t)


@register
class GetNonIdleMachines(Contract):
    name = "_get_non_idle_machines"
    ret = SET(INT)
    pure = True
    properties = ("C07",)
    relevant = {n: SHAPE + ["R4a-scheduled-are-ops", "R5-machine-eligible"]
                for n in ("exactly-the-busy-machines", "busy-machines-so-far", "row", "others", "this-machine")}

    def requires(self, c):
        return reach(c.h0, c["dispatcher"])

    def ensures(self, c):
        D = Disp(c.h0, c["dispatcher"])
        m = bv("m")
        return [("exactly-the-busy-machines",
                 forall([m], z3.Select(c.result, m) == busy(D, m, c["current_time"]), patterns=[z3.Select(c.result, m)]))]

    @property
    def loops(self):
        def outer(k):
            D = Disp(k.h0, k["dispatcher"])
            m = bv("m")
            s = k.v("non_idle_machines")
            return [("busy-machines-so-far", forall([m], z3.Select(s, m) == z3.And(m < k.i, busy(D, m, k["current_time"])),
                                                    patterns=[z3.Select(s, m)]))]

        def inner(k):
            D = Disp(k.h0, k["dispatcher"])
            m, r = bv("m"), bv("r")
            s = k.v("non_idle_machines")
            r0 = k.outer[-1]
            t = k["current_time"]
            n = D.nS(r0)
            return [("row", z3.And(k.v("machine_schedule") == D.Sm(r0), rng(r0, 0, D.M))),
                    ("others", forall([m], imp(m != r0, z3.Select(s, m) == z3.And(m < r0, busy(D, m, t))),
                                      patterns=[z3.Select(s, m)])),
                    ("this-machine", z3.And(z3.Select(s, r0) == (k.i > 0),
                                            imp(k.i > 0, D.end(D.x(r0, n - 1)) > t)))]
        return {0: LoopSpec("for machine_schedule in dispatcher.schedule.schedule", outer),
                1: LoopSpec("for scheduled_operation in reversed(machine_schedule)", inner)}


# ---------------------------------------------------------------------------
# the four filters: result = [o in L | criterion(o)], in order
# ---------------------------------------------------------------------------
def opaque_crit(tag, h, d, L, crit):
    """An opaque name for a filter criterion (opaque/reveal): `C(o)` with the definitional fact
    `forall o. C(o) == crit(o)`.  Invariants and post-conditions mention only C(out[r]) /
    C(L[r]), so the proofs about untouched elements are propositional; the definition is
    unfolded (by e-matching on C(o)) only where an element is tested.  The symbol is a
    function of (contract, heap, dispatcher, list): the same state gives the same symbol."""
    Len, El, _ = h.arrs("c")
    key = f"crit!{tag}!{Len.get_id()}!{El.get_id()}!{d.get_id()}!{L.get_id()}!" \
          f"{h.farr('_machine_next_available_time').get_id()}!{h.farr('_job_next_available_time').get_id()}"
    C = z3.Function(key, z3.IntSort(), z3.BoolSort())
    o = bv("oc")
    return C, forall([o], C(o) == crit(o), patterns=[C(o)])


def in_list(h, lst, o, idx_field):
    """o occurs in lst at the ghost index recorded for it"""
    i = h.get(idx_field, o)
    return z3.And(rng(i, 0, h.len(lst)), h.at(lst, i) == o)


def filter_post(h0, h, d, L, out, crit, require_crit=True, name=""):
    """out is a fresh list; out = [o in L | crit_t(o)] in the order of L, non-empty if L is;
    crit(t) gives the criterion for the earliest start time t of L (quantified outside:
    `for every t that is the minimum start time of L`)"""
    D = Disp(h0, d)
    r, r2 = bv("r"), bv("r2")
    res = [("result-is-a-new-list", z3.And(out >= h0.alloc, out < h.alloc, h.len(out) >= 0))]
    res += ready_sorted(h, d, out, "result")
    res += [
        ("result-elements-come-from-the-input", forall([r], imp(rng(r, 0, h.len(out)), z3.Exists(
            [r2], z3.And(rng(r2, 0, h0.len(L)), h0.at(L, r2) == h.at(out, r)))), patterns=[h.at(out, r)])),
        ("never-empties-a-non-empty-list", imp(h0.len(L) > 0, h.len(out) > 0)),
    ]
    if require_crit:
        t = ms_term(h0, d, L)
        C, definition = opaque_crit(name, h0, d, L, crit(t))
        res += [
            ("criterion", definition),
            ("keeps-every-operation-meeting-the-criterion", forall([r2], imp(
                z3.And(rng(r2, 0, h0.len(L)), C(h0.at(L, r2))), in_list(h, out, h0.at(L, r2), "$oidx")),
                patterns=[h0.at(L, r2)])),
            ("keeps-only-operations-meeting-the-criterion", forall(
                [r], imp(rng(r, 0, h.len(out)), C(h.at(out, r))), patterns=[h.at(out, r)])),
        ]
    return res


def filter_loop_inv(k, L, out_name, crit, extra=None):
    """loop invariant of `for operation in operations: if crit: out.append(operation)`"""
    h0, h, d = k.h0, k.h, k["dispatcher"]
    D = Disp(h0, d)
    out = k.v(out_name)
    r, r2 = bv("r"), bv("r2")
    inv = [("out-is-new", z3.And(out >= h0.alloc, out < h.alloc, h.len(out) >= 0, h.len(out) <= k.i))]
    inv += ready_sorted(h, d, out, "result")
    inv += [
        ("out-from-prefix", forall([r], imp(rng(r, 0, h.len(out)), z3.Exists(
            [r2], z3.And(rng(r2, 0, k.i), h0.at(L, r2) == h.at(out, r)))), patterns=[h.at(out, r)])),
        ("out-jobs-below-current", forall([r], imp(z3.And(rng(r, 0, h.len(out)), k.i < h0.len(L)),
                                                   D.it.jid(h.at(out, r)) < D.it.jid(h0.at(L, k.i))),
                                          patterns=[h.at(out, r)])),
        ("prefix-kept-iff-criterion", forall([r2], imp(z3.And(rng(r2, 0, k.i), crit(h0.at(L, r2))),
                                                       in_list(h, out, h0.at(L, r2), "$oidx")),
                                             patterns=[h0.at(L, r2)])),
        ("out-only-criterion", forall([r], imp(rng(r, 0, h.len(out)), crit(h.at(out, r))), patterns=[h.at(out, r)])),
        ("input-untouched", z3.And(h.len(L) == h0.len(L), z3.Select(h.El, L) == z3.Select(h0.El, L))),
    ]
    return inv + (extra or [])


def record_index(out_name):
    """ghost statement after `out.append(operation)`: remember where the operation sits"""
    def hook(c, st):
        out = st.env[out_name].t
        op = st.env["operation"].t
        st.heap = st.heap.put("$oidx", op, st.heap.len(out) - 1)
    return hook


def crit_non_idle(h, d, L):
    """has an eligible machine with nothing still running at the earliest start time t"""
    D = Disp(h, d)

    def crit(t):
        def c(o):
            q = bv("q")
            return z3.Exists([q], z3.And(rng(q, 0, D.it.nmach(o)), z3.Not(busy(D, D.it.mach(o, q), t))))
        return c
    return crit


_FILTER_CLAUSES = ["out-is-new", "result-are-operations", "result-are-ready", "result-in-job-order", "out-from-prefix",
                   "out-jobs-below-current", "prefix-kept-iff-criterion", "out-only-criterion", "input-untouched",
                   "time-and-busy-set", "result-is-a-new-list", "result-elements-come-from-the-input",
                   "never-empties-a-non-empty-list", "keeps-every-operation-meeting-the-criterion",
                   "keeps-only-operations-meeting-the-criterion", "helper-state", "criterion"]


def ghost_min_start(disp_name, ops_name):
    """ghost entry code: the MinStart term of the input list with its definition"""
    def entry(c, st):
        st.assume(ms_axiom(c.h0, c[disp_name], c[ops_name]), "definition:MinStart")
    return entry


class _Filter(Contract):
    ret = OPS
    lemma_deps = ("min-start-unique",)

    def ghost_entry(self, c, st):
        ghost_min_start("dispatcher", "operations")(c, st)
        C, definition = self.opaque(c.h0, c["dispatcher"], c["operations"])
        st.assume(definition, "criterion")
    params = {"operations": OPS}
    properties = ("C06", "C07")
    out_name = ""
    relevant = {n: SHAPE + ["R4a-scheduled-are-ops", "R5-machine-eligible", "inst-machines"] for n in _FILTER_CLAUSES}

    def requires(self, c):
        return reach(c.h0, c["dispatcher"]) + ready_sorted(c.h0, c["dispatcher"], c["operations"])

    def modifies(self, c):
        return Frame(fields={"$oidx": "ALL"}, alloc_lists=True)

    def crit(self, h, d, L):
        raise NotImplementedError

    def ensures(self, c):
        return filter_post(c.h0, c.h, c["dispatcher"], c["operations"], c.result,
                           self.crit(c.h0, c["dispatcher"], c["operations"]), name=self.name)

    def opaque(self, h0, d, L):
        return opaque_crit(self.name, h0, d, L, self.crit(h0, d, L)(ms_term(h0, d, L)))


@register
class FilterNonIdleMachines(_Filter):
    name = "filter_non_idle_machines"
    out_name = "filtered_operations"

    def crit(self, h, d, L):
        return crit_non_idle(h, d, L)

    @property
    def loops(self):
        def inv(k):
            h0, d, L = k.h0, k["dispatcher"], k["operations"]
            D = Disp(h0, d)
            m = bv("m")
            t = k.v("current_time")
            s = k.v("non_idle_machines")
            extra = [("time-and-busy-set", z3.And(
                imp(h0.len(L) > 0, t == ms_term(h0, d, L)),
                forall([m], z3.Select(s, m) == busy(D, m, t), patterns=[z3.Select(s, m)])))]
            return filter_loop_inv(k, L, "filtered_operations", self.opaque(h0, d, L)[0], extra)

        def mod(k):
            return Frame(fields={"$oidx": "ALL"}, lists=[k.v("filtered_operations")])
        return {0: LoopSpec("for operation in operations", inv, mod)}

    @property
    def ghost_after(self):
        return {"filtered_operations.append(operation)": record_index("filtered_operations")}


def crit_immediate_operation(h, d, L):
    """can itself start at the earliest start time t"""
    def crit(t):
        return lambda o: is_est(h, d, o, t)
    return crit


@register
class FilterNonImmediateOperations(_Filter):
    name = "filter_non_immediate_operations"

    def crit(self, h, d, L):
        return crit_immediate_operation(h, d, L)

    @property
    def loops(self):
        def inv(k):
            h0, d, L = k.h0, k["dispatcher"], k["operations"]
            t = k.v("min_start_time")
            extra = [("helper-state", imp(h0.len(L) > 0, t == ms_term(h0, d, L)))]
            return filter_loop_inv(k, L, "immediate_operations", self.opaque(h0, d, L)[0], extra)

        def mod(k):
            return Frame(fields={"$oidx": "ALL"}, lists=[k.v("immediate_operations")])
        return {0: LoopSpec("for operation in operations", inv, mod)}

    @property
    def ghost_after(self):
        return {"immediate_operations.append(operation)": record_index("immediate_operations")}


def immediate_machine(h, d, L, t, m, upto=None, inner=None):
    """some operation of L (index < upto; plus machines < q0 of operation r0) can start on m at time t"""
    D = Disp(h, d)
    r, q = bv("ri"), bv("qi")
    n = h.len(L) if upto is None else upto
    o = h.at(L, r)
    alts = [z3.Exists([r, q], z3.And(rng(r, 0, n), rng(q, 0, D.it.nmach(o)), D.it.mach(o, q) == m, st_of(D, o, m) == t))]
    if inner is not None:
        r0, q0 = inner
        o0 = h.at(L, r0)
        alts.append(z3.Exists([q], z3.And(rng(q, 0, q0), D.it.mach(o0, q) == m, st_of(D, o0, m) == t)))
    return z3.Or(alts)


@register
class GetImmediateMachines(Contract):
    name = "_get_immediate_machines"
    ret = LIST(BOOL)
    params = {"available_operations": OPS}
    properties = ("C07",)
    relevant = {n: SHAPE + ["inst-machines"] for n in ("flags-so-far", "flags-inner", "op-is-current",
                                                        "one-flag-per-machine",
                                                        "flag-iff-some-operation-starts-there-at-the-earliest-time")}

    def requires(self, c):
        return reach(c.h0, c["self"]) + ops_wf(c.h0, c["self"], c["available_operations"])

    def modifies(self, c):
        return Frame(alloc_lists=True)

    def ensures(self, c):
        h0, h, d, L, out = c.h0, c.h, c["self"], c["available_operations"], c.result
        D = Disp(h0, d)
        m = bv("m")
        t = ms_term(h0, d, L)
        return [("one-flag-per-machine", z3.And(out >= h0.alloc, out < h.alloc, h.len(out) == D.M)),
                ("flag-iff-some-operation-starts-there-at-the-earliest-time", imp(h0.len(L) > 0, forall(
                    [m], imp(rng(m, 0, D.M), (h.at(out, m) != 0) == immediate_machine(h0, d, L, t, m)),
                    patterns=[h.at(out, m)])))]

    @property
    def loops(self):
        def flags(k, upto, inner):
            h0, h, d, L = k.h0, k.h, k["self"], k["available_operations"]
            D = Disp(h0, d)
            out = k.v("working_machines")
            t = k.v("current_time")
            m = bv("m")
            return z3.And(out >= h0.alloc, h.len(out) == D.M,
                          imp(h0.len(L) > 0, t == ms_term(h0, d, L)),
                          forall([m], imp(rng(m, 0, D.M),
                                          (h.at(out, m) != 0) == immediate_machine(h0, d, L, t, m, upto, inner)),
                                 patterns=[h.at(out, m)]))

        def outer(k):
            return [("flags-so-far", flags(k, k.i, None))]

        def inner(k):
            h0, L = k.h0, k["available_operations"]
            r0 = k.outer[-1]
            return [("op-is-current", z3.And(k.v("op") == h0.at(L, r0), rng(r0, 0, h0.len(L)))),
                    ("flags-inner", flags(k, r0, (r0, k.i)))]

        def mod(k):
            return Frame(lists=[k.v("working_machines")])
        return {0: LoopSpec("for op in available_operations", outer, mod),
                1: LoopSpec("for machine_id in op.machines", inner, mod)}


def crit_immediate_machine(h, d, L):
    """shares a machine with an operation that can start at the earliest start time"""
    D = Disp(h, d)

    def crit(t):
        def c(o):
            q = bv("q")
            return z3.Exists([q], z3.And(rng(q, 0, D.it.nmach(o)), immediate_machine(h, d, L, t, D.it.mach(o, q))))
        return c
    return crit


@register
class FilterNonImmediateMachines(_Filter):
    name = "filter_non_immediate_machines"

    def crit(self, h, d, L):
        return crit_immediate_machine(h, d, L)

    @property
    def loops(self):
        def inv(k):
            h0, h, d, L = k.h0, k.h, k["dispatcher"], k["operations"]
            D = Disp(h0, d)
            flags = k.v("is_immediate_machine")
            t = ms_term(h0, d, L)
            m = bv("m")
            extra = [("helper-state", z3.And(
                flags > 0, flags != k.v("non_dominated_operations"), h.len(flags) == D.M,
                imp(h0.len(L) > 0, forall([m], imp(rng(m, 0, D.M),
                                                  (h.at(flags, m) != 0) == immediate_machine(h0, d, L, t, m)),
                                          patterns=[h.at(flags, m)]))))]
            return filter_loop_inv(k, L, "non_dominated_operations", self.opaque(h0, d, L)[0], extra)

        def mod(k):
            return Frame(fields={"$oidx": "ALL"}, lists=[k.v("non_dominated_operations")])
        return {0: LoopSpec("for operation in operations", inv, mod)}

    @property
    def ghost_after(self):
        return {"non_dominated_operations.append(operation)": record_index("non_dominated_operations")}



def install_lemmas():
    from .lemmas import lemma
    from pyvc.values import Heap

    @lemma("min-start-unique", ("C06", "C07"))
    def _u():
        """the minimum start time of a list of operations is unique"""
        h = Heap(tag="U")
        d, L, t1, t2 = fresh("d"), fresh("L"), fresh("t1"), fresh("t2")
        return [("unique", [is_min_start(h, d, L, t1), is_min_start(h, d, L, t2)], t1 == t2)]


install_lemmas()


# ---------------------------------------------------------------------------
# dominated operations
# ---------------------------------------------------------------------------
def min_end_on(h, d, L, m, val, isinf, upto=None, inner=None):
    """(isinf, val) = minimum of st + duration over the pairs (operation of L, eligible machine
    = m) among operations < upto (plus machines < q0 of operation r0); +inf if there is none"""
    D = Disp(h, d)
    r, q = bv("re"), bv("qe")
    n = h.len(L) if upto is None else upto
    o = h.at(L, r)
    on_m = z3.And(rng(r, 0, n), rng(q, 0, D.it.nmach(o)), D.it.mach(o, q) == m)
    end = st_of(D, o, m) + D.it.dur(o)
    some = [z3.Exists([r, q], on_m)]
    le = [forall([r, q], imp(on_m, val <= end), patterns=[D.it.mach(h.at(L, r), q)])]
    hit = [z3.Exists([r, q], z3.And(on_m, val == end))]
    if inner is not None:
        r0, q0 = inner
        o0 = h.at(L, r0)
        on0 = z3.And(rng(q, 0, q0), D.it.mach(o0, q) == m)
        end0 = st_of(D, o0, m) + D.it.dur(o0)
        some.append(z3.Exists([q], on0))
        le.append(forall([q], imp(on0, val <= end0)))
        hit.append(z3.Exists([q], z3.And(on0, val == end0)))
    return z3.And(isinf == z3.Not(z3.Or(some)), imp(z3.Not(isinf), z3.And(z3.And(le), z3.Or(hit))))


@register
class GetMinMachineEndTimes(Contract):
    name = "_get_min_machine_end_times"
    ret = LIST(XINT)
    params = {"available_operations": OPS}
    properties = ("C07",)
    relevant = {n: SHAPE + ["inst-machines"] for n in ("ends-so-far", "ends-inner", "op-is-current",
                                                       "one-entry-per-machine", "earliest-completion-per-machine")}

    def requires(self, c):
        return reach(c.h0, c["dispatcher"]) + ops_wf(c.h0, c["dispatcher"], c["available_operations"])

    def modifies(self, c):
        return Frame(alloc_lists=True)

    def ensures(self, c):
        h0, h, d, L, out = c.h0, c.h, c["dispatcher"], c["available_operations"], c.result
        D = Disp(h0, d)
        m = bv("m")
        return [("one-entry-per-machine", z3.And(out >= h0.alloc, out < h.alloc, h.len(out) == D.M)),
                ("earliest-completion-per-machine", forall([m], imp(rng(m, 0, D.M), min_end_on(
                    h0, d, L, m, h.at(out, m), h.atx(out, m))),
                    patterns=[h.at(out, m), z3.Select(h.elxarr(out), m)]))]

    @property
    def loops(self):
        def ends(k, upto, inner):
            h0, h, d, L = k.h0, k.h, k["dispatcher"], k["available_operations"]
            D = Disp(h0, d)
            out = k.v("end_times_per_machine")
            m = bv("m")
            return z3.And(out >= h0.alloc, h.len(out) == D.M,
                          forall([m], imp(rng(m, 0, D.M), min_end_on(h0, d, L, m, h.at(out, m), h.atx(out, m), upto,
                                                                     inner)),
                                 patterns=[h.at(out, m), z3.Select(h.elxarr(out), m)]))

        def outer(k):
            return [("ends-so-far", ends(k, k.i, None))]

        def inner(k):
            h0, L = k.h0, k["available_operations"]
            r0 = k.outer[-1]
            return [("op-is-current", z3.And(k.v("op") == h0.at(L, r0), rng(r0, 0, h0.len(L)))),
                    ("ends-inner", ends(k, r0, (r0, k.i)))]

        def mod(k):
            return Frame(lists=[k.v("end_times_per_machine")])
        return {0: LoopSpec("for op in available_operations", outer, mod),
                1: LoopSpec("for machine_id in op.machines", inner, mod)}


def crit_non_dominated(h, d, L):
    """starts on some eligible machine before the earliest completion there"""
    D = Disp(h, d)

    def crit(t):
        def c(o):
            q, r, q2 = bv("q"), bv("rd"), bv("qd")
            m = D.it.mach(o, q)
            o2 = h.at(L, r)
            return z3.Exists([q], z3.And(rng(q, 0, D.it.nmach(o)), forall([r, q2], imp(
                z3.And(rng(r, 0, h.len(L)), rng(q2, 0, D.it.nmach(o2)), D.it.mach(o2, q2) == m),
                st_of(D, o, m) < st_of(D, o2, m) + D.it.dur(o2)))))
        return c
    return crit


def first_zero_duration(h, d, L, z):
    D = Disp(h, d)
    r = bv("rz")
    return z3.And(rng(z, 0, h.len(L)), D.it.dur(h.at(L, z)) == 0,
                  forall([r], imp(rng(r, 0, z), D.it.dur(h.at(L, r)) > 0)))


@register
class FilterDominatedOperations(_Filter):
    name = "filter_dominated_operations"

    def crit(self, h, d, L):
        return crit_non_dominated(h, d, L)

    def ensures(self, c):
        h0, h, d, L, out = c.h0, c.h, c["dispatcher"], c["operations"], c.result
        D = Disp(h0, d)
        z, r = bv("z"), bv("r")
        has_zero = z3.Exists([r], z3.And(rng(r, 0, h0.len(L)), D.it.dur(h0.at(L, r)) == 0))
        full = filter_post(h0, h, d, L, out, self.crit(h0, d, L), name=self.name)
        res = []
        for nm, p in full:
            if nm in ("keeps-every-operation-meeting-the-criterion", "keeps-only-operations-meeting-the-criterion"):
                res.append((nm, imp(z3.Not(has_zero), p)))   # documented shortcut: criterion only for positive durations
            else:
                res.append((nm, p))
        res.append(("zero-duration-shortcut", imp(has_zero, z3.Exists([z], z3.And(
            first_zero_duration(h0, d, L, z), h.len(out) == 1, h.at(out, 0) == h0.at(L, z))))))
        return res

    @property
    def loops(self):
        def ends_known(k):
            h0, h, d, L = k.h0, k.h, k["dispatcher"], k["operations"]
            D = Disp(h0, d)
            me = k.v("min_machine_end_times")
            m = bv("m")
            return z3.And(me > 0, me != k.v("non_dominated_operations"), h.len(me) == D.M,
                          forall([m], imp(rng(m, 0, D.M), min_end_on(h0, d, L, m, h.at(me, m), h.atx(me, m))),
                                 patterns=[h.at(me, m), z3.Select(h.elxarr(me), m)]))

        def outer(k):
            h0, d, L = k.h0, k["dispatcher"], k["operations"]
            D = Disp(h0, d)
            r = bv("rp")
            extra = [("helper-state", ends_known(k)),
                     ("no-zero-duration-so-far", forall([r], imp(rng(r, 0, k.i), D.it.dur(h0.at(L, r)) > 0)))]
            return filter_loop_inv(k, L, "non_dominated_operations", self.opaque(h0, d, L)[0], extra)

        def inner(k):
            h0, h, d, L = k.h0, k.h, k["dispatcher"], k["operations"]
            D = Disp(h0, d)
            r0 = k.outer[-1]
            op = k.v("operation")
            me = k.v("min_machine_end_times")
            q, r = bv("qj"), bv("rp")
            m = D.it.mach(op, q)
            dominated_so_far = forall([q], imp(rng(q, 0, k.i), z3.Or(
                z3.Not(h.atx(me, m)) & (st_of(D, op, m) >= h.at(me, m)), z3.BoolVal(False))))
            # the outer invariant at index r0 still holds (nothing appended for this operation yet)
            saved_i = k.i
            k.i = r0
            base = filter_loop_inv(k, L, "non_dominated_operations", self.opaque(h0, d, L)[0],
                                   [("helper-state", ends_known(k)),
                                    ("no-zero-duration-so-far", forall([r], imp(rng(r, 0, r0 + 1),
                                                                               D.it.dur(h0.at(L, r)) > 0)))])
            k.i = saved_i
            return base + [("op-is-current", z3.And(op == h0.at(L, r0), rng(r0, 0, h0.len(L)))),
                           ("dominated-on-the-machines-tried", dominated_so_far)]

        def mod(k):
            return Frame(fields={"$oidx": "ALL"}, lists=[k.v("non_dominated_operations")])
        return {0: LoopSpec("for operation in operations", outer, mod),
                1: LoopSpec("for machine_id in operation.machines", inner, mod)}

    @property
    def ghost_after(self):
        return {"non_dominated_operations.append(operation)": record_index("non_dominated_operations")}


# ---------------------------------------------------------------------------
# abstract filter contract and composition
# ---------------------------------------------------------------------------
def abstract_filter_post(h0, h, d, L, out):
    return [x for x in filter_post(h0, h, d, L, out, None, require_crit=False)]


@register
class AbstractFilter(Contract):
    """what every ready-operations filter guarantees (each built-in filter's post-condition
    contains these clauses literally): a new list that is a sub-list of its input -- same
    order, no duplicates, no foreign operation -- and non-empty for a non-empty input"""
    name = "abstract:ready_operations_filter"
    abstract = True
    ret = OPS
    params = {"dispatcher": REF("Dispatcher"), "operations": OPS}

    def requires(self, c):
        return reach(c.h0, c["dispatcher"]) + ready_sorted(c.h0, c["dispatcher"], c["operations"])

    def modifies(self, c):
        return Frame(fields={"$oidx": "ALL"}, alloc_lists=True)

    def ensures(self, c):
        return abstract_filter_post(c.h0, c.h, c["dispatcher"], c["operations"], c.result)


@register
class CompositeFilter(Contract):
    name = "create_composite_operation_filter.composite_pruning_function"
    ret = OPS
    params = {"operations": OPS}
    properties = ("C06", "C07")
    relevant = {n: SHAPE for n in _FILTER_CLAUSES + ["pruned-is-a-sublist-of-the-input", "filters-list"]}

    def setup(self, eng, st, args):
        # the closure variable: a list of filter callables, each under the abstract filter contract
        from pyvc.values import CALLREF, Val
        lst = fresh("filter_functions")
        st.assume(z3.And(lst > 0, lst < st.heap.alloc, st.heap.len(lst) >= 0))
        q = bv("qf")
        st.assume(forall([q], imp(rng(q, 0, st.heap.len(lst)), st.heap.at(lst, q) != 0)))
        self.globals = {"filter_functions": Val(LIST(CALLREF("abstract:ready_operations_filter")), lst)}

    def requires(self, c):
        return reach(c.h0, c["dispatcher"]) + ready_sorted(c.h0, c["dispatcher"], c["operations"])

    def modifies(self, c):
        return Frame(fields={"$oidx": "ALL"}, alloc_lists=True)

    def _sub(self, h0, h, d, L, cur):
        """cur is a sub-list of the input L (in h0), non-empty if L is"""
        r, r2 = bv("r"), bv("r2")
        return ready_sorted(h, d, cur, "result") + [
            ("result-elements-come-from-the-input", forall([r], imp(rng(r, 0, h.len(cur)), z3.Exists(
                [r2], z3.And(rng(r2, 0, h0.len(L)), h0.at(L, r2) == h.at(cur, r)))), patterns=[h.at(cur, r)])),
            ("never-empties-a-non-empty-list", imp(h0.len(L) > 0, h.len(cur) > 0))]

    def ensures(self, c):
        return self._sub(c.h0, c.h, c["dispatcher"], c["operations"], c.result)

    @property
    def loops(self):
        def inv(k):
            h0, h, d, L = k.h0, k.h, k["dispatcher"], k["operations"]
            fl = self.globals["filter_functions"].t
            return self._sub(h0, h, d, L, k.v("pruned_operations")) + reach(h, d) + [
                ("filters-list", z3.And(h.len(fl) == h0.len(fl), h.elarr(fl) == h0.elarr(fl))),
                ("input-untouched", z3.And(h.len(L) == h0.len(L), h.elarr(L) == h0.elarr(L)))]

        def mod(k):
            return Frame(fields={"$oidx": "ALL"}, alloc_lists=True)
        return {0: LoopSpec("for pruning_function in filter_functions", inv, mod)}


# ---------------------------------------------------------------------------
# C06: time only moves forward; filters keep the current time
# ---------------------------------------------------------------------------
def positive_durations(h, d):
    D = Disp(h, d)
    j, p = bv("jp"), bv("pp")
    return forall([j, p], imp(z3.And(rng(j, 0, D.it.J), rng(p, 0, D.it.L(j))), D.it.dur(D.it.op(j, p)) > 0),
                  patterns=[D.it.op(j, p)])


def is_now(h, d, t):
    """t is the current time of the unfiltered dispatcher: the minimum start time over the next
    operation of every unfinished job and its machines; the makespan if every job is finished"""
    D = Disp(h, d)
    j, q = bv("jn"), bv("qn")
    o = D.it.op(j, D.kj(j))
    unfinished = z3.And(rng(j, 0, D.it.J), D.kj(j) < D.it.L(j))
    some = z3.Exists([j], unfinished)
    le = forall([j, q], imp(z3.And(unfinished, rng(q, 0, D.it.nmach(o))), t <= st_of(D, o, D.it.mach(o, q))),
                patterns=[D.it.mach(o, q)])
    hit = z3.Exists([j, q], z3.And(unfinished, rng(q, 0, D.it.nmach(o)), t == st_of(D, o, D.it.mach(o, q))))
    return z3.If(some, z3.And(le, hit), ScheduleMakespan.spec(h, D.S, D.M, t))


def install_c06_lemmas():
    from .lemmas import lemma, after_call
    from pyvc.values import Heap, Val, OPT

    def dispatch_step():
        from pyvc.engine import Ctx
        from .core import _eff_machine
        con = REGISTRY["Dispatcher.dispatch"]
        d, o = fresh("d"), fresh("o")
        mid = Val(OPT(INT), Val(INT, fresh("m")), fresh("m_none", z3.BoolSort()))
        args = {"self": Val(REF("Dispatcher"), d), "operation": Val(REF("Operation"), o), "machine_id": mid}
        h0, h1, pc = after_call(con, args, "N")
        m = _eff_machine(Ctx(None, h0, h0, args))
        return h0, h1, d, o, m, pc

    @lemma("now-monotone", ("C06",))
    def _now():
        """an accepted dispatch never moves the (unfiltered) current time back, for every instance
        (zero durations included); and every operation that was completed stays completed.
        The proof is by cases on the pair attaining the new current time, with the existential
        witnesses named explicitly (exists-elimination of hypotheses that are themselves proved)."""
        h0, h1, d, o, m, pc = dispatch_step()
        t0, t1 = fresh("t0"), fresh("t1")
        D0, D1 = Disp(h0, d), Disp(h1, d)
        it = D0.it
        j0 = it.jid(o)
        start = zmax(D0.mn(m), D0.jn(j0))
        out = []
        # step 1: the chosen machine is one of the operation's machines (witness qm)
        qq = bv("qq")
        elig = z3.Exists([qq], z3.And(rng(qq, 0, it.nmach(o)), it.mach(o, qq) == m))
        out.append(("chosen-machine-is-eligible", pc, elig))
        qm = fresh("qm")
        pc1 = pc + [rng(qm, 0, it.nmach(o)), it.mach(o, qm) == m]
        core = pc.only("operation-of-the-instance", "inst-refs", "inst-jobs", "inst-ops", "inst-machines", "R1-shape",
                       "R2-next-index", "tracking-advanced", "same-list-objects", "forced-start-time",
                       "appended-on-chosen-machine", pre=("R8-machine-free", "R8-job-ready", "R8-job-ready-0")) \
            + [rng(qm, 0, it.nmach(o)), it.mach(o, qm) == m]
        # step 2: the old current time is at most the start of the dispatched operation
        out.append(("old-now-at-most-the-new-start", core + [is_now(h0, d, t0)], t0 <= start))
        # step 3: every start time the new state offers is >= the old one / the new start
        j, q = fresh("j"), fresh("q")
        o1 = D1.it.op(j, D1.kj(j))
        unfinished1 = z3.And(rng(j, 0, it.J), D1.kj(j) < it.L(j), rng(q, 0, it.nmach(o1)))
        st1 = st_of(D1, o1, D1.it.mach(o1, q))
        same = z3.And(D0.kj(j) == D1.kj(j), D0.kj(j) < it.L(j), o1 == it.op(j, D0.kj(j)),
                      st1 >= st_of(D0, o1, it.mach(o1, q)))
        out.append(("other-jobs-start-no-earlier", core + [unfinished1, j != j0], same))
        out.append(("successor-starts-after-the-dispatched-operation", core + [unfinished1, j == j0], st1 >= start))
        # step 4: conclusion, with the pair attaining the new current time named (j, q)
        some1 = z3.Exists([bv("jn")], z3.And(rng(bv("jn"), 0, it.J), D1.kj(bv("jn")) < it.L(bv("jn"))))
        facts = [is_now(h0, d, t0), t0 <= start]
        # (only the facts established by steps 2 and 3 are needed: the dispatch post-condition is dropped)
        out.append(("current-time-never-decreases:some-job-unfinished",
                    facts + [unfinished1, t1 == st1, imp(j != j0, same), imp(j == j0, st1 >= start)],
                    t0 <= t1))
        x1 = D1.x(m, D0.nS(m))
        out.append(("current-time-never-decreases:all-finished",
                    pc1 + facts + [z3.Not(some1), ScheduleMakespan.spec(h1, D1.S, D1.M, t1)], t0 <= t1))
        mm, ii = fresh("mm"), fresh("ii")
        x0 = D0.x(mm, ii)
        out.append(("completed-stays-completed", pc1 + [t0 <= t1, rng(mm, 0, D0.M), rng(ii, 0, D0.nS(mm)),
                                                        D0.end(x0) <= t0],
                    z3.And(D1.x(mm, ii) == x0, D1.end(x0) <= t1)))
        return out

    @lemma("complete-now-is-makespan", ("C06",))
    def _complete():
        h = Heap(tag="M")
        d, t = fresh("d"), fresh("t")
        D = Disp(h, d)
        pc = [p for _, p in reach(h, d)] + [D.n == D.it.N, is_now(h, d, t)]
        return [("now-equals-makespan-when-complete", pc, ScheduleMakespan.spec(h, D.S, D.M, t))]

    def keeps_now(name, needs_positive):
        @lemma(f"filter-keeps-now:{name}", ("C06",))
        def _l():
            """the filter keeps an operation attaining the minimum start time, so the minimum start
            time of its result equals that of its input (filtering never changes the current time).
            Guided proof: the pair (rs, qs) attaining the minimum in the input is named; it meets the
            filter's criterion, hence is kept at ghost index $oidx, hence attains the minimum in the
            result; every start time in the result is one of the input's."""
            from pyvc.engine import Ctx
            con = REGISTRY[name]
            d, L, out = fresh("d"), fresh("L"), fresh("out")
            args = {"dispatcher": Val(REF("Dispatcher"), d), "operations": Val(OPS, L)}
            h0, h1, pc = after_call(con, args, "F")
            pc = list(pc) + [p for _, p in con.ensures(Ctx(None, h0, h1, args, Val(OPS, out)))]
            D0, D1 = Disp(h0, d), Disp(h1, d)
            it = D0.it
            t = ms_term(h0, d, L)
            rs, qs = fresh("rs"), fresh("qs")
            os_ = h0.at(L, rs)
            r, q = bv("r"), bv("q")
            o_ = h0.at(L, r)
            le0 = forall([r, q], imp(z3.And(rng(r, 0, h0.len(L)), rng(q, 0, it.nmach(o_))),
                                     t <= st_of(D0, o_, it.mach(o_, q))), patterns=[it.mach(h0.at(L, r), q)])
            pc += [h0.len(L) > 0, le0, rng(rs, 0, h0.len(L)), rng(qs, 0, it.nmach(os_)),
                   t == st_of(D0, os_, it.mach(os_, qs))]
            if needs_positive:
                pc.append(positive_durations(h0, d))
            obl = []
            crit = con.crit(h0, d, L)(t)(os_)
            obl.append(("the-operation-attaining-the-minimum-meets-the-criterion", pc, crit))
            C, _ = con.opaque(h0, d, L)
            idx = h1.get("$oidx", os_)
            kept = z3.And(rng(idx, 0, h1.len(out)), h1.at(out, idx) == os_)
            obl.append(("so-it-is-kept", pc + [crit], kept))
            o1 = h1.at(out, idx)
            attains = z3.And(rng(qs, 0, D1.it.nmach(o1)), t == st_of(D1, o1, D1.it.mach(o1, qs)))
            obl.append(("so-the-minimum-is-attained-in-the-result", pc + [kept], attains))
            r1, q1 = fresh("r1"), fresh("q1")
            oo = h1.at(out, r1)
            obl.append(("no-start-time-in-the-result-is-smaller",
                        pc + [rng(r1, 0, h1.len(out)), rng(q1, 0, D1.it.nmach(oo))],
                        t <= st_of(D1, oo, D1.it.mach(oo, q1))))
            o_r = h1.at(out, r)
            le1 = forall([r, q], imp(z3.And(rng(r, 0, h1.len(out)), rng(q, 0, D1.it.nmach(o_r))),
                                     t <= st_of(D1, o_r, D1.it.mach(o_r, q))), patterns=[D1.it.mach(h1.at(out, r), q)])
            obl.append(("result-has-the-same-minimum-start-time", [le1, kept, attains], is_min_start(h1, d, out, t)))
            # as an equation between MinStart terms (used by the composition)
            obl.append(("min-start-term-of-the-result-equals-that-of-the-input",
                        [is_min_start(h1, d, out, t), ms_axiom(h1, d, out), h1.len(out) > 0],
                        ms_term(h1, d, out) == t))
            return obl
        return _l
    keeps_now("filter_non_idle_machines", False)
    keeps_now("filter_non_immediate_operations", False)
    keeps_now("filter_non_immediate_machines", False)
    keeps_now("filter_dominated_operations", True)


install_c06_lemmas()


@register
class BuiltinFilter(AbstractFilter):
    """a built-in filter: the abstract filter contract plus `keeps the minimum start time` (for
    instances with positive durations), which the four lemmas `filter-keeps-now:*` prove of each
    built-in filter from its own contract"""
    name = "abstract:builtin_filter"
    lemma_deps = ("filter-keeps-now:filter_non_idle_machines", "filter-keeps-now:filter_non_immediate_operations",
                  "filter-keeps-now:filter_non_immediate_machines", "filter-keeps-now:filter_dominated_operations")

    def ensures(self, c):
        h0, h, d, L, out = c.h0, c.h, c["dispatcher"], c["operations"], c.result
        return AbstractFilter.ensures(self, c) + [
            ("keeps-the-minimum-start-time", imp(z3.And(h0.len(L) > 0, positive_durations(h0, d)),
                                                 ms_term(h, d, out) == ms_term(h0, d, L)))]


@register
class CompositeOfBuiltins(CompositeFilter):
    """the same closure verified a second time, for a list of BUILT-IN filters: the composition
    keeps the minimum start time of its input (C06: filtering never changes the current time)"""
    name = "create_composite_operation_filter.composite_pruning_function$builtin"
    properties = ("C06",)
    relevant = dict(CompositeFilter.relevant, **{"keeps-the-minimum-start-time": SHAPE})

    def setup(self, eng, st, args):
        from pyvc.values import CALLREF, Val
        lst = fresh("filter_functions")
        st.assume(z3.And(lst > 0, lst < st.heap.alloc, st.heap.len(lst) >= 0))
        q = bv("qf")
        st.assume(forall([q], imp(rng(q, 0, st.heap.len(lst)), st.heap.at(lst, q) != 0)))
        self.globals = {"filter_functions": Val(LIST(CALLREF("abstract:builtin_filter")), lst)}

    def _keeps(self, h0, h, d, L, cur):
        return ("keeps-the-minimum-start-time", imp(z3.And(h0.len(L) > 0, positive_durations(h0, d)),
                                                    ms_term(h, d, cur) == ms_term(h0, d, L)))

    def ensures(self, c):
        return CompositeFilter.ensures(self, c) + [self._keeps(c.h0, c.h, c["dispatcher"], c["operations"], c.result)]

    @property
    def loops(self):
        base = CompositeFilter.loops.fget(self)[0]

        def inv(k):
            return base.invariant(k) + [self._keeps(k.h0, k.h, k["dispatcher"], k["operations"],
                                                    k.v("pruned_operations"))]
        return {0: LoopSpec(base.header, inv, base.modifies)}
