"""C19 (deductive part): GeneralInstanceGenerator / InstanceGenerator against the requested shape.

The `random` module is used through the [TRUSTED] contracts of pyvc/library.py: every draw is
`a <= RngInt(state, a, b) <= b` / `0 <= RngIdx(state, n) < n` for an ARBITRARY generator state, so what
is proved holds for every value the generator can return.  "Drawn from all M machines" is stated
functionally: the first machine drawn for an operation is element `RngIdx(state, n)` of the WHOLE pool of
n machines handed to the function.

Ghost state (names start with `$`; never read by the code):
  $rmw[g]        index at which `_choose_one_machine` removed the chosen machine from the pool
  $gen_m[g]      the machine count M of the instance being generated
  $$pidx[g]      machine id -> its index in the shrinking pool of the current job
  $$used[g]      machine id -> position in the current job of the operation that uses it (-1: none yet)
  $$visit[job]   machine id -> position of the operation of that job list that uses it (witness of
                 "each job visits each machine")
"""
from __future__ import annotations

import z3

from pyvc.engine import Contract, Frame, LoopSpec
from pyvc.library import RNG_FIELD, RNG_OBJ, RngIdx, RngInt, RngNext, RngSeed, rng_state
from pyvc.values import ANY, BOOL, INT, LIST, OPT, REF, STR, TUPLE, UNION, forall, fresh

from .core import register
from .instance import InstanceInit, gj, gp, numbered
from .spec import FIELD_TYPES, Inst, bv, imp, rng

PAIR = TUPLE(INT, INT)
FIELD_TYPES.update({
    "InstanceGenerator.num_jobs_range": PAIR,
    "InstanceGenerator.num_machines_range": PAIR,
    "InstanceGenerator.duration_range": PAIR,
    "InstanceGenerator.name_suffix": ANY,
    "InstanceGenerator._counter": INT,
    "InstanceGenerator._current_iteration": INT,
    "InstanceGenerator._iteration_limit": OPT(INT),
    "GeneralInstanceGenerator.machines_per_operation": PAIR,
    "GeneralInstanceGenerator.allow_less_jobs_than_machines": BOOL,
    "GeneralInstanceGenerator.allow_recirculation": BOOL,
})

BASE_FIELDS = ["num_jobs_range#0", "num_jobs_range#1", "num_machines_range#0", "num_machines_range#1",
               "duration_range#0", "duration_range#1", "name_suffix", "_counter", "_current_iteration",
               "_iteration_limit", "_iteration_limit#none"]
GEN_FIELDS = BASE_FIELDS + ["machines_per_operation#0", "machines_per_operation#1", "allow_less_jobs_than_machines",
                            "allow_recirculation"]
RNG_FRAME = {RNG_FIELD: [RNG_OBJ]}


class Gen:
    """terms of a generator g in heap h"""

    def __init__(self, h, g):
        self.h, self.g = h, g
        f = lambda n: h.get(n, g)  # noqa: E731
        self.minJ, self.maxJ = f("num_jobs_range#0"), f("num_jobs_range#1")
        self.minM, self.maxM = f("num_machines_range#0"), f("num_machines_range#1")
        self.dlo, self.dhi = f("duration_range#0"), f("duration_range#1")
        self.klo, self.khi = f("machines_per_operation#0"), f("machines_per_operation#1")
        self.allow_less = f("allow_less_jobs_than_machines") != 0
        self.recirc = f("allow_recirculation") != 0
        self.counter = f("_counter")
        self.cur = f("_current_iteration")
        self.limit = f("_iteration_limit")
        self.no_limit = f("_iteration_limit#none") != 0
        self.multi = self.khi > 1

    def same_config(self, other):
        return z3.And([self.h.get(n, self.g) == other.h.get(n, other.g) for n in GEN_FIELDS
                       if n not in ("_counter", "_current_iteration")])


def _pair_of(v, tagged):
    """(lo, hi) stored for an `int | tuple[int, int]` argument"""
    tag, a, b = tagged
    return z3.If(tag, a.t, b.t[0].t), z3.If(tag, a.t, b.t[1].t)


# ---------------------------------------------------------------------------
# Operation.__init__ (two call shapes: a machine id, or a list of machine ids)
# ---------------------------------------------------------------------------
OP_FIELDS = ["machines", "duration", "job_id", "position_in_job", "operation_id"]


class _OperationInit(Contract):
    properties = ("C19",)
    source = "Operation.__init__"

    def requires(self, c):
        return [("new-object", c["self"] > 0)]

    def modifies(self, c):
        return Frame(fields={f: [c["self"]] for f in OP_FIELDS}, alloc_lists=True)

    def _common(self, c):
        h, o = c.h, c["self"]
        return [("duration-stored", h.get("duration", o) == c["duration"]),
                ("ids-unset", z3.And(h.get("job_id", o) == -1, h.get("position_in_job", o) == -1,
                                     h.get("operation_id", o) == -1))]


@register
class OperationInitInt(_OperationInit):
    """Operation(machines=<int>, duration=...)"""
    name = "Operation.__init__"
    params = {"self": REF("Operation"), "machines": INT, "duration": INT}

    def select_variant(self, bound):
        v = bound.get("machines")
        return "Operation.__init__$list" if v is not None and v.ty.kind == "list" else None

    def ensures(self, c):
        h, o = c.h, c["self"]
        ml = h.get("machines", o)
        return self._common(c) + [
            ("machines-is-a-new-one-element-list", z3.And(ml >= c.h0.alloc, ml < h.alloc, h.len(ml) == 1,
                                                          h.at(ml, 0) == c["machines"]))]


@register
class OperationInitList(_OperationInit):
    """Operation(machines=<list of ids>, duration=...)"""
    name = "Operation.__init__$list"
    params = {"self": REF("Operation"), "machines": LIST(INT), "duration": INT}

    def requires(self, c):
        return [("new-object", c["self"] > 0), ("machines-list", z3.And(c["machines"] > 0, c["machines"] < c.h0.alloc))]

    def ensures(self, c):
        return self._common(c) + [("machines-stored", c.h.get("machines", c["self"]) == c["machines"])]


# ---------------------------------------------------------------------------
# InstanceGenerator
# ---------------------------------------------------------------------------
def _stored_base(c, h):
    g = Gen(h, c["self"])
    jl, jh = _pair_of(None, c.val("num_jobs").t)
    ml, mh = _pair_of(None, c.val("num_machines").t)
    dr = c.val("duration_range").t
    lim = c.val("iteration_limit")
    return [
        ("ranges-stored", z3.And(g.minJ == jl, g.maxJ == jh, g.minM == ml, g.maxM == mh,
                                 g.dlo == dr[0].t, g.dhi == dr[1].t)),
        ("counters-start-at-zero", z3.And(g.counter == 0, g.cur == 0)),
        ("limit-stored", z3.And(g.no_limit == lim.aux, imp(z3.Not(lim.aux), g.limit == lim.t.t))),
        ("suffix-stored", h.get("name_suffix", c["self"]) == c["name_suffix"]),
    ]


def _seeded(c, h):
    seed = c.val("seed")
    return [("global-generator-seeded-with-the-given-seed",
             imp(z3.Not(seed.aux), rng_state(h) == RngSeed(seed.t.t)))]


@register
class InstanceGeneratorInit(Contract):
    name = "InstanceGenerator.__init__"
    properties = ("C19",)
    params = {"self": REF("InstanceGenerator"), "num_jobs": UNION(INT, PAIR), "num_machines": UNION(INT, PAIR),
              "duration_range": PAIR, "name_suffix": ANY, "seed": OPT(INT), "iteration_limit": OPT(INT)}

    def requires(self, c):
        return [("new-object", c["self"] > 0)]

    def modifies(self, c):
        f = {n: [c["self"]] for n in BASE_FIELDS}
        f.update(RNG_FRAME)
        return Frame(fields=f)

    def ensures(self, c):
        seed = c.val("seed")
        return _stored_base(c, c.h) + _seeded(c, c.h) + [
            ("generator-untouched-without-a-seed", imp(seed.aux, rng_state(c.h) == rng_state(c.h0)))]


@register
class GeneralInstanceGeneratorInit(Contract):
    name = "GeneralInstanceGenerator.__init__"
    properties = ("C19",)
    params = {"self": REF("GeneralInstanceGenerator"), "num_jobs": UNION(INT, PAIR), "num_machines": UNION(INT, PAIR),
              "duration_range": PAIR, "allow_less_jobs_than_machines": BOOL, "allow_recirculation": BOOL,
              "machines_per_operation": UNION(INT, PAIR), "name_suffix": ANY, "seed": OPT(INT),
              "iteration_limit": OPT(INT)}

    def requires(self, c):
        return [("new-object", c["self"] > 0)]

    def modifies(self, c):
        f = {n: [c["self"]] for n in GEN_FIELDS}
        f.update(RNG_FRAME)
        return Frame(fields=f)

    def ensures(self, c):
        g = Gen(c.h, c["self"])
        kl, kh = _pair_of(None, c.val("machines_per_operation").t)
        return _stored_base(c, c.h) + _seeded(c, c.h) + [
            ("options-stored", z3.And(g.klo == kl, g.khi == kh,
                                      g.allow_less == c["allow_less_jobs_than_machines"],
                                      g.recirc == c["allow_recirculation"]))]


@register
class NextName(Contract):
    name = "InstanceGenerator._next_name"
    properties = ("C19",)
    params = {"self": REF("InstanceGenerator")}
    ret = STR
    structured_fstrings = True

    def requires(self, c):
        return [("self", c["self"] > 0)]

    def modifies(self, c):
        return Frame(fields={"_counter": [c["self"]]})

    def ensures(self, c):
        h, g = c.h, c["self"]
        out = [("counter-advances-by-one", h.get("_counter", g) == c.h0.get("_counter", g) + 1)]
        parts = getattr(c.res.t, "parts", None) if c.res is not None else None
        if parts is not None or (c.res is not None and c.eng is not None and c.eng.cur is self):
            # (only when the body is verified: the returned f-string's structure)
            ok = z3.BoolVal(False)
            if parts is not None and len(parts) == 3 and parts[0][0] == "val" and parts[1] == ("lit", "_") \
                    and parts[2][0] == "val" and parts[0][2] == "" and parts[2][2] == "":
                ok = z3.And(parts[0][1].t == h.get("name_suffix", g), parts[2][1].t == h.get("_counter", g))
            out.append(("name-is-suffix_counter-with-the-new-counter", ok))
        return out


@register
class GenIter(Contract):
    name = "InstanceGenerator.__iter__"
    properties = ("C19",)
    params = {"self": REF("InstanceGenerator")}
    ret = REF("InstanceGenerator")

    def requires(self, c):
        return [("self", c["self"] > 0)]

    def modifies(self, c):
        return Frame(fields={"_current_iteration": [c["self"]]})

    def ensures(self, c):
        return [("iteration-restarts", c.h.get("_current_iteration", c["self"]) == 0),
                ("returns-itself", c.result == c["self"])]


@register
class GenLen(Contract):
    name = "InstanceGenerator.__len__"
    properties = ("C19",)
    params = {"self": REF("InstanceGenerator")}
    ret = INT
    pure = True

    def requires(self, c):
        return [("self", c["self"] > 0)]

    def raises(self, c):
        return [("UninitializedAttributeError", "no-limit", Gen(c.h0, c["self"]).no_limit)]

    def ensures(self, c):
        return [("the-configured-number", c.result == Gen(c.h0, c["self"]).limit)]


class _RangeProp(Contract):
    properties = ("C19",)
    params = {"self": REF("InstanceGenerator")}
    ret = INT
    pure = True
    field = ""

    def requires(self, c):
        return [("self", c["self"] > 0)]

    def ensures(self, c):
        return [("value", c.result == c.h0.get(self.field, c["self"]))]


for _n, _f in (("max_num_jobs", "num_jobs_range#1"), ("min_num_jobs", "num_jobs_range#0"),
               ("max_num_machines", "num_machines_range#1"), ("min_num_machines", "num_machines_range#0")):
    register(type("GenProp_" + _n, (_RangeProp,), {"name": f"InstanceGenerator.{_n}", "field": _f}))


# ---------------------------------------------------------------------------
# generate(): the abstract method and the general generator
# ---------------------------------------------------------------------------
GHOST_GEN = ["$rmw", "$gen_m", "$$pidx", "$$used"]


def _gen_frame(c):
    g = c["self"]
    f = {"_counter": [g], "$$visit": "ALL", "$gj": "ALL", "$gp": "ALL", "$$cumL": "ALL"}
    f.update({n: [g] for n in GHOST_GEN})
    f.update(RNG_FRAME)
    return Frame(fields=f, alloc_objects=True, alloc_lists=True)


@register
class AbstractGenerate(Contract):
    """what every InstanceGenerator.generate must honour (used by __next__)"""
    name = "InstanceGenerator.generate"
    abstract = True
    properties = ("C19",)
    params = {"self": REF("InstanceGenerator"), "num_jobs": OPT(INT), "num_machines": OPT(INT)}
    ret = REF("JobShopInstance")

    def requires(self, c):
        return [("self", c["self"] > 0)]

    def modifies(self, c):
        return _gen_frame(c)

    def ensures(self, c):
        g = c["self"]
        return [("a-new-instance", z3.And(c.result >= c.h0.alloc, c.result < c.h.alloc)),
                ("one-more-name-used", c.h.get("_counter", g) == c.h0.get("_counter", g) + 1)]


@register
class GenNext(Contract):
    name = "InstanceGenerator.__next__"
    properties = ("C19",)
    params = {"self": REF("InstanceGenerator")}
    ret = REF("JobShopInstance")

    def requires(self, c):
        return [("self", c["self"] > 0)]

    def raises(self, c):
        g = Gen(c.h0, c["self"])
        return [("StopIteration", "limit-reached", z3.And(z3.Not(g.no_limit), g.cur >= g.limit))]

    def modifies(self, c):
        fr = _gen_frame(c)
        fr.fields["_current_iteration"] = [c["self"]]
        return fr

    def ensures(self, c):
        g = c["self"]
        return [("one-more-instance-yielded", c.h.get("_current_iteration", g) == c.h0.get("_current_iteration", g) + 1),
                ("a-new-instance", z3.And(c.result >= c.h0.alloc, c.result < c.h.alloc)),
                ("one-more-name-used", c.h.get("_counter", g) == c.h0.get("_counter", g) + 1)]


# -- machine choice -----------------------------------------------------------
def _pool_ok(h, l):
    return z3.And(l > 0, l < h.alloc, h.len(l) >= 0)


def identity_list(h, l, n=None):
    q = bv("q")
    n = h.len(l) if n is None else n
    return forall([q], imp(rng(q, 0, n), h.at(l, q) == q), patterns=[h.at(l, q)])


def removed_at(h0, h, l, w):
    """list l in h = list l in h0 without its element at index w"""
    q = bv("q")
    n = h0.len(l)
    return z3.And(h.len(l) == n - 1,
                  forall([q], imp(rng(q, 0, n - 1), h.at(l, q) == z3.If(q < w, h0.at(l, q), h0.at(l, q + 1))),
                         patterns=[h.at(l, q)]))


def same_list(h0, h, l):
    q = bv("q")
    return z3.And(h.len(l) == h0.len(l),
                  forall([q], imp(rng(q, 0, h0.len(l)), h.at(l, q) == h0.at(l, q)), patterns=[h.at(l, q)]))


@register
class ChooseOne(Contract):
    name = "GeneralInstanceGenerator._choose_one_machine"
    properties = ("C19",)
    params = {"self": REF("GeneralInstanceGenerator"), "available_machines": LIST(INT)}
    ret = INT

    def requires(self, c):
        l = c["available_machines"]
        return [("self", c["self"] > 0), ("pool-given", _pool_ok(c.h0, l)), ("pool-not-empty", c.h0.len(l) > 0)]

    def modifies(self, c):
        f = {"$rmw": [c["self"]]}
        f.update(RNG_FRAME)
        return Frame(fields=f, lists=[c["available_machines"]])

    @property
    def ghost_after(self):
        def record(c, st):
            w = st.aux.get("last_removed_index")
            if w is not None:
                st.heap = st.heap.put("$rmw", c["self"], w)
        return {"available_machines.remove(machine_id)": record}

    def ensures(self, c):
        h0, h, g, l = c.h0, c.h, c["self"], c["available_machines"]
        G = Gen(h0, g)
        w = h.get("$rmw", g)
        return [
            ("drawn-from-the-whole-pool", z3.And(c.result == h0.at(l, RngIdx(rng_state(h0), h0.len(l))),
                                                  rng(RngIdx(rng_state(h0), h0.len(l)), 0, h0.len(l)))),
            ("one-draw", rng_state(h) == RngNext(rng_state(h0))),
            ("without-recirculation-the-machine-leaves-the-pool",
             imp(z3.Not(G.recirc), z3.And(rng(w, 0, h0.len(l)), h0.at(l, w) == c.result, removed_at(h0, h, l, w)))),
            ("with-recirculation-the-pool-is-unchanged", imp(G.recirc, same_list(h0, h, l))),
        ]


def distinct_in_range(h, l, n):
    """the elements of list l are pairwise distinct values in [0, n)"""
    q, r = bv("dq"), bv("dr")   # (own names: used nested inside quantifiers over j, p, q)
    return z3.And(
        forall([q], imp(rng(q, 0, h.len(l)), rng(h.at(l, q), 0, n)), patterns=[h.at(l, q)]),
        forall([q, r], imp(z3.And(rng(q, 0, h.len(l)), rng(r, 0, h.len(l)), q != r), h.at(l, q) != h.at(l, r)),
               patterns=[z3.MultiPattern(h.at(l, q), h.at(l, r))]))


def none_of(h, pool, h2, chosen, upto):
    """no element of chosen[0:upto] (heap h2) occurs in pool (heap h)"""
    q, r = bv("q2"), bv("r2")
    return forall([q, r], imp(z3.And(rng(q, 0, upto), rng(r, 0, h.len(pool))), h2.at(chosen, q) != h.at(pool, r)),
                  patterns=[z3.MultiPattern(h2.at(chosen, q), h.at(pool, r))])


@register
class ChooseMultiple(Contract):
    name = "GeneralInstanceGenerator._choose_multiple_machines"
    properties = ("C19",)
    params = {"self": REF("GeneralInstanceGenerator"), "available_machines": LIST(INT)}
    ret = LIST(INT)

    def requires(self, c):
        h, l = c.h0, c["available_machines"]
        G = Gen(h, c["self"])
        return [("self", c["self"] > 0), ("pool-given", _pool_ok(h, l)),
                ("pool-is-all-machines-0..n-1", identity_list(h, l)),
                ("request-satisfiable", z3.And(0 <= G.klo, G.klo <= G.khi, G.khi <= h.len(l)))]

    def modifies(self, c):
        return Frame(fields=dict(RNG_FRAME), alloc_lists=True)

    def count(self, c):
        G = Gen(c.h0, c["self"])
        return RngInt(rng_state(c.h0), G.klo, G.khi)

    def ensures(self, c):
        h0, h, l, r = c.h0, c.h, c["available_machines"], c.result
        G = Gen(h0, c["self"])
        n = h0.len(l)
        k = self.count(c)
        return [
            ("a-new-list", z3.And(r >= h0.alloc, r < h.alloc)),
            ("requested-number-of-machines", z3.And(h.len(r) == k, G.klo <= k, k <= G.khi)),
            ("distinct-machines-of-the-pool", distinct_in_range(h, r, n)),
            ("first-machine-drawn-from-the-whole-pool",
             imp(k >= 1, h.at(r, 0) == h0.at(l, RngIdx(RngNext(rng_state(h0)), n)))),
            ("pool-argument-unchanged", same_list(h0, h, l)),
        ]

    @property
    def loops(self):
        def inv(k):
            h0, h = k.h0, k.h
            n = h0.len(k["available_machines"])
            pool, chosen = k.v("available_machines"), k.v("machines")
            first = h0.at(k["available_machines"], RngIdx(RngNext(rng_state(h0)), n))
            return [
                ("locals", z3.And(pool >= h0.alloc, pool < h.alloc, chosen >= h0.alloc, chosen < h.alloc, pool != chosen,
                                  k.v("num_machines") == self.count(k), k.n == self.count(k))),
                ("sizes", z3.And(h.len(pool) == n - k.i, h.len(chosen) == k.i)),
                ("pool-distinct-in-range", distinct_in_range(h, pool, n)),
                ("chosen-distinct-in-range", distinct_in_range(h, chosen, n)),
                ("chosen-left-the-pool", none_of(h, pool, h, chosen, k.i)),
                ("first-draw", imp(k.i >= 1, h.at(chosen, 0) == first)),
                ("first-pool-is-the-whole-pool", imp(k.i == 0, z3.And(identity_list(h, pool, n),
                                                                      rng_state(h) == RngNext(rng_state(h0))))),
            ]

        def mod(k):
            return Frame(fields=dict(RNG_FRAME), lists=[k.v("available_machines"), k.v("machines")])
        return {0: LoopSpec("for _ in range(num_machines)", inv, mod)}


@register
class CreateRandomOperation(Contract):
    name = "GeneralInstanceGenerator.create_random_operation"
    properties = ("C19",)
    params = {"self": REF("GeneralInstanceGenerator"), "available_machines": LIST(INT)}
    ret = REF("Operation")

    def requires(self, c):
        h, l = c.h0, c["available_machines"]
        G = Gen(h, c["self"])
        return [("self", c["self"] > 0), ("pool-given", _pool_ok(h, l)), ("pool-not-empty", h.len(l) > 0),
                ("duration-range-not-empty", G.dlo <= G.dhi),
                ("several-machines:pool-is-all-machines-and-request-satisfiable",
                 imp(G.multi, z3.And(identity_list(h, l), 0 <= G.klo, G.klo <= G.khi, G.khi <= h.len(l))))]

    def modifies(self, c):
        f = {"$rmw": [c["self"]]}
        f.update(RNG_FRAME)
        return Frame(fields=f, lists=[c["available_machines"]], alloc_objects=OP_FIELDS + ["$type"], alloc_lists=True)

    def ensures(self, c):
        h0, h, g, l, o = c.h0, c.h, c["self"], c["available_machines"], c.result
        G = Gen(h0, g)
        s0 = rng_state(h0)
        s1 = RngNext(s0)
        ml = h.get("machines", o)
        n = h0.len(l)
        w = h.get("$rmw", g)
        k = RngInt(s1, G.klo, G.khi)
        return [
            ("a-new-operation", z3.And(o >= h0.alloc, o < h.alloc, ml >= h0.alloc, ml < h.alloc)),
            ("duration-drawn-from-the-range", z3.And(h.get("duration", o) == RngInt(s0, G.dlo, G.dhi),
                                                     G.dlo <= h.get("duration", o), h.get("duration", o) <= G.dhi)),
            ("several-machines:requested-number-distinct-drawn-from-the-whole-pool", imp(G.multi, z3.And(
                h.len(ml) == k, G.klo <= k, k <= G.khi, distinct_in_range(h, ml, n),
                imp(k >= 1, h.at(ml, 0) == h0.at(l, RngIdx(RngNext(s1), n))), same_list(h0, h, l)))),
            ("one-machine:drawn-from-the-whole-pool", imp(z3.Not(G.multi), z3.And(
                h.len(ml) == 1, h.at(ml, 0) == h0.at(l, RngIdx(s1, n)), rng(RngIdx(s1, n), 0, n)))),
            ("one-machine:without-recirculation-it-leaves-the-pool", imp(z3.And(z3.Not(G.multi), z3.Not(G.recirc)), z3.And(
                rng(w, 0, n), h0.at(l, w) == h.at(ml, 0), removed_at(h0, h, l, w)))),
            ("one-machine:with-recirculation-the-pool-is-unchanged",
             imp(z3.And(z3.Not(G.multi), G.recirc), same_list(h0, h, l))),
        ]


# -- generate -----------------------------------------------------------------
def _instance_ghost_new(eng, st, I, pos, kw):
    """ghost definition for a NEW JobShopInstance object: its prefix sums of job lengths $$cumL are
    introduced by their recursive definition over the `jobs` argument (conservative: the field of a
    fresh object is unconstrained before)"""
    jobs = kw.get("jobs") if "jobs" in kw else (pos[0] if pos else None)
    if jobs is None or jobs.ty.kind != "list":
        return
    h = st.heap
    A = fresh("cumL_new", z3.ArraySort(z3.IntSort(), z3.IntSort()))
    j = bv("j")
    st.assume(z3.Select(A, 0) == 0, "definition-of-$$cumL-for-the-new-instance")
    st.assume(forall([j], imp(rng(j, 0, h.len(jobs)), z3.Select(A, j + 1) == z3.Select(A, j) + h.len(h.at(jobs, j)))),
              "definition-of-$$cumL-for-the-new-instance")
    st.heap = h.put("$$cumL", I.t, A)


InstanceInit.ghost_new = staticmethod(_instance_ghost_new)


def op_spec(h, G, o, M, lower):
    """what C19 asks of one generated operation (G: generator terms in the entry heap; lower: the
    operation and its machine list are newer than this reference)"""
    ml = h.get("machines", o)
    d = h.get("duration", o)
    return z3.And(
        o > lower, o < h.alloc, ml > lower, ml < h.alloc, G.dlo <= d, d <= G.dhi,
        imp(G.multi, z3.And(G.klo <= h.len(ml), h.len(ml) <= G.khi, distinct_in_range(h, ml, M))),
        imp(z3.Not(G.multi), z3.And(h.len(ml) == 1, rng(h.at(ml, 0), 0, M))))


def jobs_built(h, G, jobs, upto, M, A0):
    """jobs[0:upto] are complete job lists of M generated operations"""
    j, p = bv("j"), bv("p")
    jl = h.at(jobs, j)
    o = h.at(jl, p)
    return z3.And(
        forall([j], imp(rng(j, 0, upto), z3.And(jl > jobs, jl < h.alloc, h.len(jl) == M)), patterns=[h.at(jobs, j)]),
        forall([j, p], imp(z3.And(rng(j, 0, upto), rng(p, 0, M)),
                           z3.And(gj(h, o) == j, gp(h, o) == p, op_spec(h, G, o, M, jobs))),
               patterns=[h.at(h.at(jobs, j), p)]))


def visits(h, jobs, upto, M):
    """ghost witness: job j uses machine m at position $$visit[job list][m]"""
    j, m = bv("j"), bv("m")
    jl = h.at(jobs, j)
    v = z3.Select(h.get("$$visit", jl), m)
    return forall([j, m], imp(z3.And(rng(j, 0, upto), rng(m, 0, M)),
                              z3.And(rng(v, 0, M), h.at(h.get("machines", h.at(jl, v)), 0) == m)),
                  patterns=[z3.Select(h.get("$$visit", h.at(jobs, j)), m)])


@register
class Generate(Contract):
    name = "GeneralInstanceGenerator.generate"
    properties = ("C19",)
    params = {"self": REF("GeneralInstanceGenerator"), "num_jobs": OPT(INT), "num_machines": OPT(INT)}
    ret = REF("JobShopInstance")

    # the requested job / machine counts as terms of the entry state (the draws are functions of the
    # generator state: see pyvc/library.py)
    def _counts(self, c):
        h0 = c.h0
        G = Gen(h0, c["self"])
        nj, nm = c.val("num_jobs"), c.val("num_machines")
        s0 = rng_state(h0)
        eff_min = z3.If(G.allow_less, G.minJ, z3.If(G.minJ >= G.minM, G.minJ, G.minM))
        J = z3.If(nj.aux, RngInt(s0, eff_min, G.maxJ), nj.t.t)
        s1 = z3.If(nj.aux, RngNext(s0), s0)
        eff_max = z3.If(G.allow_less, G.maxM, z3.If(J <= G.maxM, J, G.maxM))
        M = z3.If(nm.aux, RngInt(s1, G.minM, eff_max), nm.t.t)
        return G, nj, nm, J, M, eff_min, eff_max

    def requires(self, c):
        G, nj, nm, J, M, eff_min, eff_max = self._counts(c)
        return [
            ("self", c["self"] > 0),
            ("request-satisfiable", z3.And(
                G.dlo <= G.dhi, G.minJ >= 0, G.minM >= 0,
                imp(nj.aux, eff_min <= G.maxJ), imp(z3.Not(nj.aux), nj.t.t >= 0),
                imp(nm.aux, G.minM <= eff_max), imp(z3.Not(nm.aux), nm.t.t >= 0),
                imp(G.multi, z3.And(0 <= G.klo, G.klo <= G.khi, G.khi <= M)))),
        ]

    def raises(self, c):
        G, nj, nm, J, M, eff_min, eff_max = self._counts(c)
        return [("ValidationError", "fewer-jobs-than-machines-requested",
                 z3.And(z3.Not(nm.aux), z3.Not(G.allow_less), J < M))]

    def exc_modifies(self, c, exc):
        return Frame(fields=dict(RNG_FRAME))

    def modifies(self, c):
        return _gen_frame(c)

    @property
    def ghost_after(self):
        def start(c, st):
            g = c["self"]
            st.heap = st.heap.put("$gen_m", g, st.env["num_machines"].t)

        def new_job(c, st):
            g = c["self"]
            P = fresh("pidx0", z3.ArraySort(z3.IntSort(), z3.IntSort()))
            m = bv("m")
            st.assume(forall([m], z3.Select(P, m) == m, patterns=[z3.Select(P, m)]), "ghost:pool-index-of-a-fresh-pool")
            st.heap = st.heap.put("$$pidx", g, P).put("$$used", g, z3.K(z3.IntSort(), z3.IntVal(-1)))

        def drew(c, st):
            g = c["self"]
            h = st.heap
            o = st.env["operation"].t
            p = h.len(st.env["job"])
            w = h.get("$rmw", g)
            cm = h.at(h.get("machines", o), 0)
            P0 = h.get("$$pidx", g)
            P = fresh("pidx", z3.ArraySort(z3.IntSort(), z3.IntSort()))
            m = bv("m")
            st.assume(forall([m], z3.Select(P, m) == z3.If(z3.Select(P0, m) > w, z3.Select(P0, m) - 1, z3.Select(P0, m)),
                             patterns=[z3.Select(P, m)]), "ghost:pool-index-after-the-removal")
            st.heap = h.put("$$pidx", g, P).put("$$used", g, z3.Store(h.get("$$used", g), cm, p))

        def appended(c, st):
            h = st.heap
            o = st.env["operation"].t
            st.heap = h.put("$gj", o, h.len(st.env["jobs"])).put("$gp", o, h.len(st.env["job"]) - 1)

        def job_done(c, st):
            h = st.heap
            st.heap = h.put("$$visit", st.env["job"].t, h.get("$$used", c["self"]))

        return {"jobs = []": start, "job = []": new_job,
                "operation = self.create_random_operation(available_machines)": drew,
                "job.append(operation)": appended, "jobs.append(job)": job_done}

    def ensures(self, c):
        G, nj, nm, J, M, eff_min, eff_max = self._counts(c)
        h, I, g = c.h, c.result, c["self"]
        it = Inst(h, I)
        j, p, m = bv("j"), bv("p"), bv("m")
        o = it.op(j, p)
        ml = h.get("machines", o)
        dom = z3.And(rng(j, 0, it.J), rng(p, 0, it.L(j)))
        v = z3.Select(h.get("$$visit", it.job(j)), m)
        return [
            ("a-new-instance", z3.And(I >= c.h0.alloc, I < h.alloc)),
            ("one-more-name-used", h.get("_counter", g) == c.h0.get("_counter", g) + 1),
            ("job-count-as-requested-or-within-the-range", z3.And(
                it.J == J, imp(nj.aux, z3.And(eff_min <= it.J, it.J <= G.maxJ, G.minJ <= it.J)))),
            ("every-job-has-M-operations-and-M-is-as-requested-or-within-the-range", z3.And(
                forall([j], imp(rng(j, 0, it.J), it.L(j) == M), patterns=[it.job(j)]),
                imp(nm.aux, z3.And(G.minM <= M, M <= G.maxM)))),
            ("at-least-as-many-jobs-as-machines-when-fewer-are-disallowed", imp(z3.Not(G.allow_less), it.J >= M)),
            ("durations-within-range", forall([j, p], imp(dom, z3.And(G.dlo <= it.dur(o), it.dur(o) <= G.dhi)),
                                              patterns=[it.op(j, p)])),
            ("requested-number-of-distinct-machines-all-below-M", forall([j, p], imp(dom, z3.And(
                imp(G.multi, z3.And(G.klo <= h.len(ml), h.len(ml) <= G.khi, distinct_in_range(h, ml, M))),
                imp(z3.Not(G.multi), z3.And(h.len(ml) == 1, rng(h.at(ml, 0), 0, M))))), patterns=[it.op(j, p)])),
            ("each-job-visits-each-machine-without-recirculation", imp(
                z3.And(z3.Not(G.multi), z3.Not(G.recirc)),
                forall([j, m], imp(z3.And(rng(j, 0, it.J), rng(m, 0, M)),
                                   z3.And(rng(v, 0, M), h.at(h.get("machines", it.op(j, v)), 0) == m)),
                       patterns=[z3.Select(h.get("$$visit", it.job(j)), m)]))),
            ("operations-numbered", numbered(h, I)),
        ]

    @property
    def loops(self):
        def common(k, upto):
            h0, h, g = k.h0, k.h, k["self"]
            G = Gen(h0, g)
            jobs, avail, M = k.v("jobs"), k.v("available_machines"), k.v("num_machines")
            A0 = h0.alloc
            return G, jobs, avail, M, [
                ("locals", z3.And(jobs >= A0, jobs < avail, avail < h.alloc, h.len(jobs) == upto, M >= 0,
                                  h.get("$gen_m", g) == M, h.get("_counter", g) == h0.get("_counter", g))),
                ("jobs-built-so-far", jobs_built(h, G, jobs, upto, M, A0)),
                ("earlier-jobs-are-older-than-the-pool", _older(h, jobs, upto, M, avail)),
                ("machines-visited-by-earlier-jobs", imp(z3.And(z3.Not(G.multi), z3.Not(G.recirc)),
                                                         visits(h, jobs, upto, M))),
            ]

        def outer(k):
            G, jobs, avail, M, inv = common(k, k.i)
            h = k.h
            return inv + [("fresh-pool", z3.And(h.len(avail) == M, identity_list(h, avail, M)))]

        def inner(k):
            j0 = k.outer[-1]
            G, jobs, avail, M, inv = common(k, j0)
            h, g = k.h, k["self"]
            job = k.v("job")
            q, m = bv("q"), bv("m")
            o = h.at(job, q)
            U = h.get("$$used", g)
            P = h.get("$$pidx", g)
            um, pm = z3.Select(U, m), z3.Select(P, m)
            single = z3.And(z3.Not(G.multi), z3.Not(G.recirc))
            return inv + [
                ("this-job", z3.And(job > avail, job < h.alloc, h.len(job) == k.i, k.n == M, j0 >= 0)),
                ("operations-of-this-job", forall([q], imp(rng(q, 0, k.i), z3.And(
                    gj(h, o) == j0, gp(h, o) == q, op_spec(h, G, o, M, job))), patterns=[h.at(job, q)])),
                ("pool-is-whole-unless-machines-leave-it", imp(z3.Not(single), z3.And(h.len(avail) == M,
                                                                                     identity_list(h, avail, M)))),
                ("pool-shrinks-by-one-per-operation", imp(single, z3.And(
                    h.len(avail) == M - k.i,
                    forall([q], imp(rng(q, 0, h.len(avail)), rng(h.at(avail, q), 0, M)), patterns=[h.at(avail, q)])))),
                ("every-machine-is-in-the-pool-or-used-by-this-job", imp(single, forall([m], imp(rng(m, 0, M), z3.And(
                    imp(um >= 0, z3.And(um < k.i, h.at(h.get("machines", h.at(job, um)), 0) == m)),
                    imp(um < 0, z3.And(rng(pm, 0, h.len(avail)), h.at(avail, pm) == m)))),
                    patterns=[z3.Select(U, m), z3.Select(P, m)]))),
            ]

        def mod(k):
            h0, g = k.h0, k["self"]
            f = {n: [g] for n in GHOST_GEN}
            f.update({"$$visit": "ALL", "$gj": "ALL", "$gp": "ALL"})
            f.update(RNG_FRAME)
            return Frame(fields=f, lists=lambda l: l >= h0.alloc, alloc_objects=OP_FIELDS + ["$type", "$gj", "$gp", "$$visit"],
                         alloc_lists=True)
        return {0: LoopSpec("for _ in range(num_jobs)", outer, mod),
                1: LoopSpec("for _ in range(num_machines)", inner, mod)}


def _older(h, jobs, upto, M, avail):
    """the lists and operations of jobs[0:upto] were allocated before the current pool list"""
    j, p = bv("j"), bv("p")
    jl = h.at(jobs, j)
    o = h.at(jl, p)
    return z3.And(
        forall([j], imp(rng(j, 0, upto), jl < avail), patterns=[h.at(jobs, j)]),
        forall([j, p], imp(z3.And(rng(j, 0, upto), rng(p, 0, M)), z3.And(o < avail, h.get("machines", o) < avail)),
               patterns=[h.at(h.at(jobs, j), p)]))
