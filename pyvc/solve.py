"""SMT back ends: z3 (python API) first, cvc5 (CLI, SMT-LIB text) on `unknown`."""
from __future__ import annotations

import os
import subprocess
import tempfile
import time

import z3

STATS = {"z3_calls": 0, "z3_time": 0.0, "cvc5_calls": 0, "cvc5_time": 0.0, "feas_calls": 0, "feas_time": 0.0}

Z3_TIMEOUT_MS = int(os.environ.get("PYVC_Z3_TIMEOUT_MS", "10000"))
CVC5_TIMEOUT_MS = int(os.environ.get("PYVC_CVC5_TIMEOUT_MS", "20000"))
CVC5 = os.environ.get("PYVC_CVC5", "/usr/bin/cvc5")


def _mk_solver(timeout_ms):
    s = z3.Solver()
    s.set("timeout", timeout_ms)
    return s


def feasible(pc, extra=None, timeout_ms=400):
    """Quick satisfiability check used to prune dead paths.  `unknown` counts as
    feasible (conservative: the path is explored and its obligations are checked)."""
    t0 = time.time()
    s = z3.SimpleSolver()
    s.set("timeout", timeout_ms)
    s.set("mbqi", False)  # e-matching only: `unknown` comes back at once when no
    #                           contradiction is found, which is what a pruning test wants
    for p in pc:
        s.add(p)
    if extra is not None:
        s.add(extra)
    r = s.check()
    STATS["feas_calls"] += 1
    STATS["feas_time"] += time.time() - t0
    return r != z3.unsat


def check_sat(pc, timeout_ms=None, mbqi=True):
    s = z3.SimpleSolver()
    s.set("timeout", timeout_ms or Z3_TIMEOUT_MS)
    if not mbqi:
        s.set("mbqi", False)
    for p in pc:
        s.add(p)
    r = s.check()
    return str(r), (s.model() if r == z3.sat else None)


def to_smt2(pc, goal_neg):
    s = z3.Solver()
    for p in pc:
        s.add(p)
    s.add(goal_neg)
    return s.to_smt2()


def cvc5_check(smt2_text, timeout_ms=None, extra_opts=()):
    t0 = time.time()
    with tempfile.NamedTemporaryFile("w", suffix=".smt2", delete=False) as f:
        # z3 emits (set-info :status ...) which cvc5 accepts; make the logic explicit
        f.write("(set-logic ALL)\n" + smt2_text)
        path = f.name
    try:
        out = subprocess.run(
            [CVC5, "--lang", "smt2", f"--tlimit={timeout_ms or CVC5_TIMEOUT_MS}", *extra_opts,
             *(["--strings-exp"] if "String" in smt2_text else []), path],
            capture_output=True,
            text=True,
            timeout=(timeout_ms or CVC5_TIMEOUT_MS) / 1000 + 5,
        )
        res = out.stdout.strip().splitlines()
        ans = res[0] if res else "unknown"
    except subprocess.TimeoutExpired:
        ans = "unknown"
    finally:
        os.unlink(path)
    STATS["cvc5_calls"] += 1
    STATS["cvc5_time"] += time.time() - t0
    if ans not in ("sat", "unsat"):
        ans = "unknown"
    return ans


class Result:
    def __init__(self, status, solver, seconds, model=None, reason=""):
        self.status = status  # proved | refuted | unknown
        self.solver = solver
        self.seconds = seconds
        self.model = model
        self.reason = reason


PORTFOLIO = [
    # (fraction of the z3 budget, options): e-matching only first (all spec quantifiers carry
    # patterns; when a proof exists this finds it fastest), then the default configuration, then
    # other random seeds -- quantifier instantiation order is fragile, a small portfolio makes the
    # verdicts stable under load and under harmless edits
    (0.3, {"mbqi": False}),
    (1.0, {}),
    (0.5, {"random_seed": 7}),
]


def _conjuncts(f, out):
    if z3.is_and(f):
        for c in f.children():
            _conjuncts(c, out)
    else:
        out.append(f)
    return out


class _TooMany(Exception):
    pass


_TRIG = {}


def _trig(term):
    srt = term.sort()
    f = _TRIG.get(srt.name())
    if f is None:
        f = _TRIG[srt.name()] = z3.Function("Trig!" + srt.name(), srt, z3.BoolSort())
    return f(term)


def _alternatives(ant):
    """top-level case analysis of an antecedent: And(a, Or(b, c)) -> [And(a, b), And(a, c)]"""
    alts = [[]]
    for c in _conjuncts(ant, []):
        if z3.is_or(c):
            alts = [x + [d] for x in alts for d in c.children()]
        else:
            alts = [x + [c] for x in alts]
        if len(alts) > 6:
            raise _TooMany()
    return alts


def split_goal(goal, hyps=None, out=None, depth=0, cap=72):
    """(sound) decomposition of a goal into sub-goals whose conjunction is the goal: universally quantified goals
    are skolemised (their pattern terms are kept visible to the e-matcher through a `Trig` atom), conjunctions are
    proved conjunct by conjunct, disjunctive guards case by case.  -> [(extra hypotheses, sub-goal)]"""
    hyps = hyps or []
    out = out if out is not None else []
    if len(out) > cap:
        raise _TooMany()
    if z3.is_quantifier(goal) and goal.is_forall():
        vs = [z3.Const(f"sk{depth}!{goal.var_name(i)}", goal.var_sort(i)) for i in range(goal.num_vars())]
        rev = list(reversed(vs))
        trigs = []
        for i in range(goal.num_patterns()):
            pat = goal.pattern(i)
            for t in pat.children():
                trigs.append(_trig(z3.substitute_vars(t, *rev)))
        split_goal(z3.substitute_vars(goal.body(), *rev), hyps + trigs, out, depth + 1, cap)
    elif z3.is_implies(goal):
        for alt in _alternatives(goal.arg(0)):
            split_goal(goal.arg(1), hyps + alt, out, depth, cap)
    elif z3.is_and(goal):
        for c in goal.children():
            split_goal(c, hyps, out, depth, cap)
    else:
        out.append((hyps, goal))
    return out


def _prove_parts(pc, parts, part_ms, total_s):
    t0 = time.time()
    for hy, g in parts:
        r = prove(pc + hy, g, use_cvc5=False, timeout_ms=part_ms, split=False)
        if r.status != "proved" or time.time() - t0 > total_s:
            return False
    return True


def prove(pc, goal, use_cvc5=True, timeout_ms=None, split=True):
    """Is `goal` a consequence of the path condition `pc`?"""
    t0 = time.time()
    parts = []
    if split and (z3.is_quantifier(goal) or z3.is_and(goal) or z3.is_implies(goal)):
        # first try the goal piece by piece (each piece small and with its trigger terms in sight), quickly; if a
        # piece stays undecided the goal is tried as a whole, and only then piece by piece with the full budget
        # (two routes: quantifier instantiation is brittle, one of them getting lost must not cost the verdict)
        try:
            parts = split_goal(goal)
        except _TooMany:
            parts = []
        if len(parts) > 1:
            budget = (timeout_ms or Z3_TIMEOUT_MS)
            if _prove_parts(pc, parts, min(1500, budget), 2 * budget / 1000):
                STATS["split"] = STATS.get("split", 0) + 1
                return Result("proved", "z3", time.time() - t0)
            r = prove(pc, goal, use_cvc5=False, timeout_ms=timeout_ms, split=False)
            if r.status != "unknown":
                return r
            if _prove_parts(pc, parts, max(2500, (2 * budget) // 3), 5 * budget / 1000):
                STATS["split"] = STATS.get("split", 0) + 1
                return Result("proved", "z3", time.time() - t0)
            if use_cvc5:
                try:
                    ans = cvc5_check(to_smt2(pc, z3.Not(goal)))
                except Exception as e:  # pragma: no cover
                    ans = "unknown"
                    r.reason += f"; cvc5 error {e}"
                if ans == "unsat":
                    return Result("proved", "cvc5", time.time() - t0)
                if ans == "sat":
                    return Result("refuted", "cvc5", time.time() - t0, None, "cvc5 sat (no model decoded)")
            return Result("unknown", "z3+cvc5" if use_cvc5 else "z3", time.time() - t0, None, r.reason)
    # syntactic shortcut: every conjunct of the goal is literally one of the hypotheses (an invariant
    # that a frame leaves untouched is the *same* term thanks to deterministic bound names)
    have = set()
    for p in pc:
        for c in _conjuncts(p, []):
            have.add(c.get_id())
    if all(c.get_id() in have for c in _conjuncts(goal, [])):
        STATS["syntactic"] = STATS.get("syntactic", 0) + 1
        return Result("proved", "syntactic", time.time() - t0)
    budget = timeout_ms or Z3_TIMEOUT_MS
    reason = ""
    last = None
    for frac, opts in PORTFOLIO:
        s = z3.SimpleSolver()
        s.set("timeout", max(200, int(budget * frac)))
        for k, v in opts.items():
            s.set(k, v)
        for p in pc:
            s.add(p)
        s.add(z3.Not(goal))
        r = s.check()
        last = s
        STATS["z3_calls"] += 1
        if r == z3.unsat:
            dt = time.time() - t0
            STATS["z3_time"] += dt
            STATS["stage_" + str(PORTFOLIO.index((frac, opts)))] = STATS.get("stage_" + str(PORTFOLIO.index((frac, opts))), 0) + 1
            return Result("proved", "z3", dt)
        if r == z3.sat:
            dt = time.time() - t0
            STATS["z3_time"] += dt
            return Result("refuted", "z3", dt, s.model())
        reason = s.reason_unknown()
    dt = time.time() - t0
    STATS["z3_time"] += dt
    if use_cvc5:
        try:
            txt = last.to_smt2()
            a = cvc5_check(txt)
        except Exception as e:  # pragma: no cover
            a = "unknown"
            reason += f"; cvc5 error {e}"
        dt2 = time.time() - t0
        if a == "unsat":
            return Result("proved", "cvc5", dt2)
        if a == "sat":
            return Result("refuted", "cvc5", dt2, None, "cvc5 sat (no model decoded)")
    return Result("unknown", "z3+cvc5" if use_cvc5 else "z3", time.time() - t0, None, reason)
