"""[TRUSTED] contracts of the standard-library functions the anchored code calls.

Each model states what the verifier ASSUMES about a library call (listed in the evidence of the
properties that use it).  None of them is verified.

random (module-level generator).  The global generator is a deterministic state machine: ghost state
`$rng` (stored at the pseudo-object 0) and uninterpreted functions

    RngSeed(seed)            the state after random.seed(seed)
    RngNext(state)           the state after one draw
    RngInt(state, a, b)      the value random.randint(a, b) returns in that state,   a <= value <= b
    RngIdx(state, n)         the index random.choice picks in a sequence of length n, 0 <= index < n

so that a proof holds for EVERY value the generator may return, and "same seed => same draws" is a
consequence of the results being functions of the state.  (CPython draws a varying number of words
per call; one abstract step per call is an abstraction of that, not a claim about MT19937.)
"""
from __future__ import annotations

import z3

from .values import INT, VNONE, Val, from_int, vint, I

RNG_FIELD = "$rng"
RNG_OBJ = z3.IntVal(0)
RngSeed = z3.Function("RngSeed", I, I)
RngNext = z3.Function("RngNext", I, I)
RngInt = z3.Function("RngInt", I, I, I, I)
RngIdx = z3.Function("RngIdx", I, I, I)


def rng_state(h):
    return h.get(RNG_FIELD, RNG_OBJ)


def _advance(st):
    st.heap = st.heap.put(RNG_FIELD, RNG_OBJ, RngNext(rng_state(st.heap)))


def b_random_seed(eng, e, st):
    out = []
    for s, pos, kw in eng.eval_args(e, st):
        if s.status != "run":
            out.append((s, None))
            continue
        v = pos[0]
        if v.ty.kind == "opt":
            v = v.t
        s.heap = s.heap.put(RNG_FIELD, RNG_OBJ, RngSeed(eng.num(v)))
        out.append((s, VNONE))
    return out


def b_random_randint(eng, e, st):
    out = []
    for s, pos, kw in eng.eval_args(e, st):
        if s.status != "run":
            out.append((s, None))
            continue
        if len(pos) != 2:
            from .engine import OutsideSubset
            raise OutsideSubset("random.randint needs two positional arguments")
        a, b = eng.num(pos[0]), eng.num(pos[1])
        okst, bad = eng.split(s, a <= b, "ValueError", e)   # empty range for randrange()
        out.extend((x, None) for x in bad)
        if okst is None:
            continue
        r = RngInt(rng_state(okst.heap), a, b)
        okst.assume(z3.And(a <= r, r <= b), "trusted:randint-in-range")
        _advance(okst)
        out.append((okst, vint(r)))
    return out


def b_random_choice(eng, e, st):
    out = []
    for s, pos, kw in eng.eval_args(e, st):
        if s.status != "run":
            out.append((s, None))
            continue
        seq = pos[0]
        view = eng.as_view(seq, s)
        okst, bad = eng.split(s, view.n > 0, "IndexError", e)   # cannot choose from an empty sequence
        out.extend((x, None) for x in bad)
        if okst is None:
            continue
        idx = RngIdx(rng_state(okst.heap), view.n)
        okst.assume(z3.And(idx >= 0, idx < view.n), "trusted:choice-index-in-range")
        okst.aux["last_choice_index"] = idx
        item = view.get(okst.heap, idx)
        _advance(okst)
        out.append((okst, item))
    return out


# ---------------------------------------------------------------------------
# external classes: [TRUSTED] contracts registered by the contract files
# ---------------------------------------------------------------------------
MODULE_CONSTANTS = {}   # dotted name -> () -> Val   (constants of external modules, e.g. cp_model.OPTIMAL)
EXT_MODELS = {}      # (class, method) -> fn(eng, call node, state, receiver Val) -> [(state, Val)]
EXT_TEXT = {}        # (class, method) -> what is assumed, for the evidence


def ext_method(cls, method, text):
    def deco(fn):
        EXT_MODELS[(cls, method)] = fn
        EXT_TEXT[(cls, method)] = text
        return fn
    return deco


def ext_function(name, text):
    """a module-level function or constructor of an external library, by the dotted text of the call"""
    def deco(fn):
        MODELS[name] = fn
        TRUSTED_TEXT[name] = text
        try:
            from . import builtins as _b
            _b.BUILTINS[name] = fn
        except Exception:  # pragma: no cover  (builtins imports this module first)
            pass
        return fn
    return deco


MODELS = {
    "random.seed": b_random_seed,
    "random.randint": b_random_randint,
    "random.choice": b_random_choice,
}

TRUSTED_TEXT = {
    "random.seed": "random.seed(s) puts the module-level generator into a state that is a function of s",
    "random.randint": "random.randint(a, b) raises ValueError when a > b, otherwise returns a value r with a <= r <= b that is a "
                      "function of the generator state, and advances the state",
    "random.choice": "random.choice(seq) raises IndexError on an empty sequence, otherwise returns seq[i] for an index "
                     "0 <= i < len(seq) that is a function of the generator state and len(seq), and advances the state",
}
