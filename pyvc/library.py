"""[TRUSTED] contracts of the standard-library functions the anchored code calls.

Each model states what the verifier ASSUMES about a library call (listed in the evidence of the
properties that use it).  None of them is verified.

random (module-level generator).  The global generator is a deterministic state machine: ghost state
`$rng` (stored at the pseudo-object 0) and uninterpreted functions

    RngSeed(seed)            the state after random.seed(seed)
    RngNext(state)           the state after one draw
    RngInt(state, a, b)      the value random.randint(a, b) returns in that state,   a <= value <= b
    RngIdx(state, n)         the index random.choice picks in a sequence of length n, 0 <= index < n

so that a proof holds for EVERY value the generator may return, and "same seed => same draws" is a
consequence of the results being functions of the state.  (CPython draws a varying number of words
per call; one abstract step per call is an abstraction of that, not a claim about MT19937.)
"""
from __future__ import annotations

import z3

from .values import INT, VNONE, Val, from_int, vint, I

RNG_FIELD = "$rng"
RNG_OBJ = z3.IntVal(0)
RngSeed = z3.Function("RngSeed", I, I)
RngNext = z3.Function("RngNext", I, I)
RngInt = z3.Function("RngInt", I, I, I, I)
RngIdx = z3.Function("RngIdx", I, I, I)


def rng_state(h):
    return h.get(RNG_FIELD, RNG_OBJ)


def _advance(st):
    st.heap = st.heap.put(RNG_FIELD, RNG_OBJ, RngNext(rng_state(st.heap)))


def b_random_seed(eng, e, st):
    out = []
    for s, pos, kw in eng.eval_args(e, st):
        if s.status != "run":
            out.append((s, None))
            continue
        v = pos[0]
        if v.ty.kind == "opt":
            v = v.t
        s.heap = s.heap.put(RNG_FIELD, RNG_OBJ, RngSeed(eng.num(v)))
        out.append((s, VNONE))
    return out


def b_random_randint(eng, e, st):
    out = []
    for s, pos, kw in eng.eval_args(e, st):
        if s.status != "run":
            out.append((s, None))
            continue
        if len(pos) != 2:
            from .engine import OutsideSubset
            raise OutsideSubset("random.randint needs two positional arguments")
        a, b = eng.num(pos[0]), eng.num(pos[1])
        okst, bad = eng.split(s, a <= b, "ValueError", e)   # empty range for randrange()
        out.extend((x, None) for x in bad)
        if okst is None:
            continue
        r = RngInt(rng_state(okst.heap), a, b)
        okst.assume(z3.And(a <= r, r <= b), "trusted:randint-in-range")
        _advance(okst)
        out.append((okst, vint(r)))
    return out


def b_random_choice(eng, e, st):
    out = []
    for s, pos, kw in eng.eval_args(e, st):
        if s.status != "run":
            out.append((s, None))
            continue
        seq = pos[0]
        view = eng.as_view(seq, s)
        okst, bad = eng.split(s, view.n > 0, "IndexError", e)   # cannot choose from an empty sequence
        out.extend((x, None) for x in bad)
        if okst is None:
            continue
        idx = RngIdx(rng_state(okst.heap), view.n)
        okst.assume(z3.And(idx >= 0, idx < view.n), "trusted:choice-index-in-range")
        okst.aux["last_choice_index"] = idx
        item = view.get(okst.heap, idx)
        _advance(okst)
        out.append((okst, item))
    return out


# ---------------------------------------------------------------------------
# external classes: [TRUSTED] contracts registered by the contract files
# ---------------------------------------------------------------------------
MODULE_CONSTANTS = {}   # dotted name -> () -> Val   (constants of external modules, e.g. cp_model.OPTIMAL)
EXT_MODELS = {}      # (class, method) -> fn(eng, call node, state, receiver Val) -> [(state, Val)]
EXT_TEXT = {}        # (class, method) -> what is assumed, for the evidence


def ext_method(cls, method, text):
    def deco(fn):
        EXT_MODELS[(cls, method)] = fn
        EXT_TEXT[(cls, method)] = text
        return fn
    return deco


def ext_function(name, text):
    """a module-level function or constructor of an external library, by the dotted text of the call"""
    def deco(fn):
        MODELS[name] = fn
        TRUSTED_TEXT[name] = text
        try:
            from . import builtins as _b
            _b.BUILTINS[name] = fn
        except Exception:  # pragma: no cover  (builtins imports this module first)
            pass
        return fn
    return deco


# ---------------------------------------------------------------------------
# itertools.combinations(xs, 2)
# ---------------------------------------------------------------------------
CombN = z3.Function("CombN", I, I)               # number of 2-combinations of a sequence of length n
CombA = z3.Function("CombA", I, I, I)            # (n, k) -> first index of the k-th pair
CombB = z3.Function("CombB", I, I, I)            # (n, k) -> second index of the k-th pair
CombK = z3.Function("CombK", I, I, I, I)         # (n, i, j) -> position of the pair (i, j)


def b_combinations(eng, e, st):
    """[TRUSTED] itertools.combinations(xs, 2) enumerates the pairs (xs[i], xs[j]), i < j, each exactly once:
    a bijection between positions k and index pairs (ghost functions CombA / CombB / CombK)"""
    from .engine import IterView, OutsideSubset
    from .values import TUPLE, Ty, forall
    out = []
    for s, pos, kw in eng.eval_args(e, st):
        if s.status != "run":
            out.append((s, None))
            continue
        if len(pos) != 2 or not z3.is_int_value(z3.simplify(pos[1].t)) or z3.simplify(pos[1].t).as_long() != 2:
            raise OutsideSubset("itertools.combinations with r != 2")
        view = eng.as_view(pos[0], s)
        n = view.n
        k, i, j = z3.Int("?ck"), z3.Int("?ci"), z3.Int("?cj")
        s.assume(CombN(n) >= 0, "trusted:combinations")
        s.assume(forall([k], z3.Implies(z3.And(k >= 0, k < CombN(n)), z3.And(
            CombA(n, k) >= 0, CombA(n, k) < CombB(n, k), CombB(n, k) < n, CombK(n, CombA(n, k), CombB(n, k)) == k)),
            patterns=[CombA(n, k), CombB(n, k)]), "trusted:combinations")
        s.assume(forall([i, j], z3.Implies(z3.And(i >= 0, i < j, j < n), z3.And(
            CombK(n, i, j) >= 0, CombK(n, i, j) < CombN(n), CombA(n, CombK(n, i, j)) == i, CombB(n, CombK(n, i, j)) == j)),
            patterns=[CombK(n, i, j)]), "trusted:combinations")

        def get(h, t, view=view, n=n):
            a, b = view.get(h, CombA(n, t)), view.get(h, CombB(n, t))
            return Val(TUPLE(a.ty, b.ty), [a, b])
        out.append((s, Val(Ty("iter"), IterView(CombN(n), get))))
    return out


def b_defaultdict_list(eng, e, st):
    """[TRUSTED] collections.defaultdict(list) indexed by the members of ONE enum: a total map member -> list, every
    list empty at creation (reading a missing key of a defaultdict yields -- and stores -- an empty list, so the two
    agree on everything the code observes: indexing, appending, truth value of an entry).  The contract of the
    function under verification names the number of members (`defaultdict_size`)."""
    import ast as _ast
    from .engine import OutsideSubset
    k = getattr(eng.cur, "defaultdict_size", None)
    if k is None or len(e.args) != 1 or not isinstance(e.args[0], _ast.Name) or e.args[0].id != "list":
        raise OutsideSubset("collections.defaultdict other than defaultdict(list) with a declared key enum")
    comp = _ast.parse(f"[[] for _ in range({int(k)})]", mode="eval").body
    _ast.copy_location(comp, e)
    _ast.fix_missing_locations(comp)
    return eng.ev(comp, st)


MODELS = {
    "collections.defaultdict": b_defaultdict_list,
    "itertools.combinations": b_combinations,
    "random.seed": b_random_seed,
    "random.randint": b_random_randint,
    "random.choice": b_random_choice,
}

TRUSTED_TEXT = {
    "itertools.combinations": "itertools.combinations(xs, 2) enumerates the pairs (xs[i], xs[j]), i < j, each exactly once",
    "collections.defaultdict": "defaultdict(list) keyed by the members of one enum behaves as a total map member -> list, "
                               "all lists empty at creation",
    "random.seed": "random.seed(s) puts the module-level generator into a state that is a function of s",
    "random.randint": "random.randint(a, b) raises ValueError when a > b, otherwise returns a value r with a <= r <= b that is a "
                      "function of the generator state, and advances the state",
    "random.choice": "random.choice(seq) raises IndexError on an empty sequence, otherwise returns seq[i] for an index "
                     "0 <= i < len(seq) that is a function of the generator state and len(seq), and advances the state",
}
