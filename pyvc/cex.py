"""Counterexample decoding and replay of refuted post-conditions of pure functions.

A `sat` answer for an obligation `pc => ensures` gives a model of the pre-state heap and
the arguments.  The model is decoded into plain data (objects as dicts of fields, lists
as lists), the REAL function is run on objects rebuilt from that data in a /venv/bin/python
subprocess, and the post-condition clause is evaluated in the model with the result the
real code returned.  `confirmed` = the real code breaks the clause on that input.
"""
from __future__ import annotations

import json
import os
import subprocess

import z3

from .values import Val

VENV_PY = os.environ.get("VERIF_VENV_PY", "/venv/bin/python")
ROOT = os.path.dirname(os.path.dirname(os.path.abspath(__file__)))
MAX_LIST = 6


class Decoder:
    def __init__(self, model, heap, field_types, prog):
        self.m = model
        self.h = heap
        self.ft = field_types
        self.prog = prog
        self.objects = {}
        self.lists = {}

    def ev(self, t):
        v = self.m.eval(t, model_completion=True)
        if z3.is_int_value(v):
            return v.as_long()
        if z3.is_true(v):
            return True
        if z3.is_false(v):
            return False
        return None

    def fields_of(self, cls):
        out = {}
        for c in reversed(self.prog.mro(cls)):
            for k, ty in self.ft.items():
                if k.startswith(c + "."):
                    out[k.split(".", 1)[1]] = ty
        return out

    def val(self, v: Val, depth=0):
        k = v.ty.kind
        if k == "int":
            return self.ev(v.t)
        if k == "bool":
            return self.ev(v.t)
        if k == "none":
            return None
        if k == "opt":
            return None if self.ev(v.aux) else self.val(v.t, depth)
        if k == "tuple":
            return {"$tuple": [self.val(x, depth) for x in v.t]}
        if k == "ref":
            r = self.ev(v.t)
            if not r:
                return None
            key = f"{v.ty.arg}#{r}"
            if key in self.objects or depth > 5:
                return {"$ref": key}
            obj = {"$class": v.ty.arg}
            self.objects[key] = obj
            for fname, fty in self.fields_of(v.ty.arg).items():
                if fty.kind in ("func", "callref", "any"):
                    continue
                from .values import from_int
                try:
                    fv = from_int(fty, self.h.get(fname, v.t))
                except TypeError:
                    continue
                obj[fname] = self.val(fv, depth + 1)
            return {"$ref": key}
        if k in ("list", "deque"):
            r = self.ev(v.t)
            if not r:
                return None
            key = f"list#{r}#{v.ty.region}"
            if key in self.lists:
                return {"$list": key}
            n = self.ev(self.h.len(v))
            n = max(0, min(n if n is not None else 0, MAX_LIST))
            items = []
            self.lists[key] = items
            from .values import from_int
            for i in range(n):
                items.append(self.val(from_int(v.ty.arg, self.h.at(v, i)), depth + 1))
            return {"$list": key}
        return None


def decode(model, heap, args, field_types, prog):
    d = Decoder(model, heap, field_types, prog)
    out = {name: d.val(v) for name, v in args.items() if isinstance(v, Val)}
    return {"args": out, "objects": d.objects, "lists": d.lists}


def run_real(file, qualname, kind, cex, timeout=60):
    """call the real function on objects rebuilt from the decoded counterexample"""
    env = dict(os.environ)
    env["PYTHONPATH"] = ROOT + os.pathsep + os.environ.get("PYVC_REPO", "/repo")
    req = json.dumps({"file": file, "qualname": qualname, "kind": kind, "cex": cex})
    try:
        p = subprocess.run([VENV_PY, "-m", "harness.replay_fn"], input=req, capture_output=True, text=True,
                           cwd=ROOT, env=env, timeout=timeout)
        return json.loads(p.stdout.strip().splitlines()[-1])
    except Exception as e:  # noqa: BLE001
        return {"status": "error", "message": f"{type(e).__name__}: {e}"}
