"""Types, symbolic values and the heap model of pyvc.

Every run-time value of the verified Python subset is represented by SMT integers:
ints directly, booleans as 0/1 when stored in the heap, object and list references
as positive integers (None = 0).  Lists live in two global arrays ``Len`` and ``El``
(plus ``ElX`` holding the "is +infinity" flag for lists of extended integers).  Object
fields live in one array per field name.  All arrays are SSA-versioned: a Heap object
is an immutable snapshot; mutation returns a new snapshot.
"""
from __future__ import annotations

import itertools
import z3

I = z3.IntSort()
B = z3.BoolSort()
ArrII = z3.ArraySort(I, I)
ArrIA = z3.ArraySort(I, ArrII)

_counter = itertools.count()


def fresh(prefix: str, sort=None):
    n = next(_counter)
    sort = I if sort is None else sort
    return z3.Const(f"{prefix}!{n}", sort)


class Ty:
    __slots__ = ("kind", "arg", "items")

    def __init__(self, kind, arg=None, items=None):
        self.kind = kind
        self.arg = arg
        self.items = items

    def __repr__(self):
        if self.kind in ("ref", "list", "opt", "set", "deque"):
            return f"{self.kind}[{self.arg}]"
        if self.kind == "tuple":
            return f"tuple{self.items}"
        return self.kind

    def __eq__(self, other):
        return (
            isinstance(other, Ty)
            and self.kind == other.kind
            and self.arg == other.arg
            and self.items == other.items
        )

    def __hash__(self):
        return hash((self.kind, repr(self.arg)))


INT = Ty("int")
BOOL = Ty("bool")
NONE = Ty("none")
STR = Ty("str")
XINT = Ty("xint")  # int or +inf
ANY = Ty("any")  # opaque reference we never look into
FUNC = Ty("func")


def REF(cls):
    return Ty("ref", cls)


def CALLREF(contract_name=None):
    """A stored callable (or None = 0) whose behaviour is an abstract contract."""
    return Ty("callref", contract_name)


def LIST(elem):
    return Ty("list", elem)


def OPT(inner):
    return Ty("opt", inner)


def SET(elem):
    return Ty("set", elem)


def TUPLE(*items):
    return Ty("tuple", None, tuple(items))


class Val:
    """A symbolic value: static kind + z3 term(s)."""

    __slots__ = ("ty", "t", "aux")

    def __init__(self, ty, t, aux=None):
        self.ty = ty
        self.t = t
        self.aux = aux

    def __repr__(self):
        return f"Val({self.ty}, {self.t}{'' if self.aux is None else ', ' + str(self.aux)})"


def vint(t):
    if isinstance(t, int):
        t = z3.IntVal(t)
    return Val(INT, t)


def vbool(t):
    if isinstance(t, bool):
        t = z3.BoolVal(t)
    return Val(BOOL, t)


VNONE = Val(NONE, None)


def vref(cls, t):
    return Val(REF(cls), t)


def vlist(elem, t):
    return Val(LIST(elem), t)


def vxint(t, isinf):
    return Val(XINT, t, isinf)


def to_int(v: Val):
    """Encoding of a value as a single SMT Int for storage in the heap."""
    k = v.ty.kind
    if k in ("int", "ref", "list", "any", "deque", "callref"):
        return v.t
    if k == "str":
        import zlib
        return z3.IntVal(zlib.crc32(v.t.encode()) + 1) if isinstance(v.t, str) else z3.IntVal(1)
    if k == "bool":
        return z3.If(v.t, z3.IntVal(1), z3.IntVal(0))
    if k == "none":
        return z3.IntVal(0)
    if k == "xint":
        return v.t
    if k == "func":
        # python-level closure stored in a field: keep identity out of SMT
        return z3.IntVal(id(v.t) % 1000003 + 1)
    raise TypeError(f"cannot store value of type {v.ty} in the heap")


def from_int(ty: Ty, t, aux=None) -> Val:
    k = ty.kind
    if k == "bool":
        return Val(BOOL, t != 0)
    if k == "none":
        return VNONE
    if k == "xint":
        return Val(XINT, t, aux if aux is not None else z3.BoolVal(False))
    if k == "opt":
        # optional reference types are plain refs with None = 0
        if ty.arg.kind in ("ref", "list", "any"):
            return Val(ty.arg, t)
        raise TypeError(f"optional {ty.arg} cannot be read from the heap")
    return Val(ty, t)


class Heap:
    """Immutable snapshot of the heap."""

    def __init__(self, fields=None, Len=None, El=None, ElX=None, alloc=None, tag="", base=None):
        self.fields = dict(fields or {})
        # arrays of fields never written in this lineage; shared by all snapshots
        self.base = base if base is not None else {}
        self.Len = Len if Len is not None else fresh(f"Len{tag}", ArrII)
        self.El = El if El is not None else fresh(f"El{tag}", ArrIA)
        self.ElX = ElX if ElX is not None else fresh(f"ElX{tag}", ArrIA)
        self.alloc = alloc if alloc is not None else fresh(f"alloc{tag}", I)
        self.tag = tag

    # -- object fields -----------------------------------------------------
    def farr(self, name):
        if name in self.fields:
            return self.fields[name]
        if name not in self.base:
            self.base[name] = fresh(f"F_{name}{self.tag}", ArrII)
        return self.base[name]

    def get(self, name, obj):
        return z3.Select(self.farr(name), obj)

    def put(self, name, obj, value):
        h = self.copy()
        h.fields[name] = z3.Store(self.farr(name), obj, value)
        return h

    # -- lists ---------------------------------------------------------------
    def len(self, l):
        return z3.Select(self.Len, l)

    def at(self, l, i):
        return z3.Select(z3.Select(self.El, l), i)

    def atx(self, l, i):
        return z3.Select(z3.Select(self.ElX, l), i) != 0

    def at2(self, l, i, j):
        return self.at(self.at(l, i), j)

    def set_len(self, l, n):
        h = self.copy()
        h.Len = z3.Store(self.Len, l, n)
        return h

    def set_at(self, l, i, v, isinf=None):
        h = self.copy()
        h.El = z3.Store(self.El, l, z3.Store(z3.Select(self.El, l), i, v))
        if isinf is not None:
            h.ElX = z3.Store(
                self.ElX,
                l,
                z3.Store(
                    z3.Select(self.ElX, l),
                    i,
                    z3.If(isinf, z3.IntVal(1), z3.IntVal(0)),
                ),
            )
        return h

    def copy(self):
        return Heap(
            self.fields, self.Len, self.El, self.ElX, self.alloc, self.tag, self.base
        )

    def with_alloc(self, a):
        h = self.copy()
        h.alloc = a
        return h

    def field_names(self):
        return sorted(set(self.fields) | set(self.base))
