"""Types, symbolic values and the heap model of pyvc.

Every run-time value of the verified Python subset is represented by SMT integers:
ints directly, booleans as 0/1 when stored in the heap, object and list references
as positive integers (None = 0).  Lists live in two global arrays ``Len`` and ``El``
(plus ``ElX`` holding the "is +infinity" flag for lists of extended integers).  Object
fields live in one array per field name.  All arrays are SSA-versioned: a Heap object
is an immutable snapshot; mutation returns a new snapshot.
"""
from __future__ import annotations

import itertools
import z3

I = z3.IntSort()
B = z3.BoolSort()
ArrII = z3.ArraySort(I, I)
ArrIA = z3.ArraySort(I, ArrII)

_counter = itertools.count()


CREATED = []  # every constant made by fresh(), in creation order (see builtins._generalise)


def fresh(prefix: str, sort=None):
    n = next(_counter)
    sort = I if sort is None else sort
    c = z3.Const(f"{prefix}!{n}", sort)
    CREATED.append(c)
    return c


class Ty:
    __slots__ = ("kind", "arg", "items", "region")

    def __init__(self, kind, arg=None, items=None, region="c"):
        self.kind = kind
        self.arg = arg
        self.items = items
        # list memory is split into regions with separate Len/El arrays: "c" = lists of
        # the scheduling core (instance, schedule, dispatcher), "o" = lists owned by
        # observers.  The region is part of the static type; a store that would mix
        # regions is rejected by the engine.
        self.region = region

    def __repr__(self):
        if self.kind in ("ref", "list", "opt", "set", "deque"):
            return f"{self.kind}[{self.arg}]"
        if self.kind == "tuple":
            return f"tuple{self.items}"
        return self.kind

    def __eq__(self, other):
        return (
            isinstance(other, Ty)
            and self.kind == other.kind
            and self.arg == other.arg
            and self.items == other.items
            and self.region == other.region
        )

    def __hash__(self):
        return hash((self.kind, repr(self.arg)))


INT = Ty("int")
BOOL = Ty("bool")
NONE = Ty("none")
STR = Ty("str")
XINT = Ty("xint")  # int or +inf
ANY = Ty("any")  # opaque reference we never look into
FUNC = Ty("func")


def REF(cls):
    return Ty("ref", cls)


def CALLREF(contract_name=None):
    """A stored callable (or None = 0) whose behaviour is an abstract contract."""
    return Ty("callref", contract_name)


def LIST(elem, region="c"):
    return Ty("list", elem, region=region)


def OPT(inner):
    return Ty("opt", inner)


def SET(elem):
    return Ty("set", elem)


def TUPLE(*items):
    return Ty("tuple", None, tuple(items))


def EXT(cls):
    """a reference to an object of an EXTERNAL library class (matplotlib Axes, networkx DiGraph, CP-SAT model ...):
    only known through the [TRUSTED] method contracts registered for that class (pyvc.library.EXT_MODELS)"""
    return Ty("ext", cls)


def DICT(key, val):
    """a dict used as a LOCAL value (like sets): (has: Int -> Bool, value: Int -> Int)"""
    return Ty("dict", val, (key,))


def UNION(a, b):
    """`a | b` of two different concrete kinds (int | list[int], int | tuple[int, int]): the value is
    (is_first, value as a, value as b); isinstance() narrows it"""
    return Ty("union", None, (a, b))


class Val:
    """A symbolic value: static kind + z3 term(s)."""

    __slots__ = ("ty", "t", "aux")

    def __init__(self, ty, t, aux=None):
        self.ty = ty
        self.t = t
        self.aux = aux

    def __repr__(self):
        return f"Val({self.ty}, {self.t}{'' if self.aux is None else ', ' + str(self.aux)})"


def vint(t):
    if isinstance(t, int):
        t = z3.IntVal(t)
    return Val(INT, t)


def vbool(t):
    if isinstance(t, bool):
        t = z3.BoolVal(t)
    return Val(BOOL, t)


VNONE = Val(NONE, None)


def vref(cls, t):
    return Val(REF(cls), t)


def vlist(elem, t, region="c"):
    return Val(LIST(elem, region), t)


def vxint(t, isinf):
    return Val(XINT, t, isinf)


def to_int(v: Val):
    """Encoding of a value as a single SMT Int for storage in the heap."""
    k = v.ty.kind
    if k in ("int", "ref", "list", "any", "deque", "callref", "emptydict", "ext", "enum", "tupref"):
        return v.t
    if k == "set":
        raise TypeError("a set value cannot be stored in the heap (sets are local values)")
    if k == "str":
        import zlib
        return z3.IntVal(zlib.crc32(v.t.encode()) + 1) if isinstance(v.t, str) else z3.IntVal(1)
    if k == "bool":
        return z3.If(v.t, z3.IntVal(1), z3.IntVal(0))
    if k == "none":
        return z3.IntVal(0)
    if k == "xint":
        return v.t
    if k == "func":
        # python-level closure stored in a field: keep identity out of SMT
        return z3.IntVal(id(v.t) % 1000003 + 1)
    raise TypeError(f"cannot store value of type {v.ty} in the heap")


def from_int(ty: Ty, t, aux=None) -> Val:
    k = ty.kind
    if k == "bool":
        return Val(BOOL, t != 0)
    if k == "none":
        return VNONE
    if k == "xint":
        return Val(XINT, t, aux if aux is not None else z3.BoolVal(False))
    if k == "opt":
        # optional reference types are plain refs with None = 0
        if ty.arg.kind in ("ref", "list", "any"):
            return Val(ty.arg, t)
        raise TypeError(f"optional {ty.arg} cannot be read from the heap")
    return Val(ty, t)


REGIONS = ("c", "o")


class Heap:
    """Immutable snapshot of the heap."""

    def __init__(self, fields=None, mem=None, alloc=None, tag="", base=None, meta=None):
        self.fields = dict(fields or {})
        # arrays of fields never written in this lineage; shared by all snapshots
        self.base = base if base is not None else {}
        if mem is None:
            mem = {r: (fresh(f"Len{tag}_{r}", ArrII), fresh(f"El{tag}_{r}", ArrIA), fresh(f"ElX{tag}_{r}", ArrIA))
                   for r in REGIONS}
        self.mem = dict(mem)
        self.alloc = alloc if alloc is not None else fresh(f"alloc{tag}", I)
        self.tag = tag
        # shared by the lineage: ids of terms known to denote entry-state references (< alloc on
        # entry) and ids of allocation-counter constants (everything built from them is fresh)
        if meta is None:
            # a root heap: its list arrays are the entry-state arrays of this lineage
            meta = {"$old": {}, "$allocs": {self.alloc.get_id(): 0}, "$alloc0": self.alloc,
                    "$entry": {a.get_id() for arrs in self.mem.values() for a in arrs}}
        self.meta = meta

    # core-region arrays under their historical names (contracts use them)
    @property
    def Len(self):
        return self.mem["c"][0]

    @property
    def El(self):
        return self.mem["c"][1]

    @property
    def ElX(self):
        return self.mem["c"][2]

    # -- object fields -----------------------------------------------------
    def farr(self, name):
        if name in self.fields:
            return self.fields[name]
        if name not in self.base:
            # `$$name` = array-valued ghost field (e.g. prefix sums): object -> (Int -> Int)
            self.base[name] = fresh(f"F_{name}{self.tag}", ArrIA if name.startswith("$$") else ArrII)
            if not name.startswith("$") or name.startswith("$cache_val:"):
                # ($cache_val:* mirrors the values held by the real `_cache` dict: real references)
                self.meta["$entry"].add(self.base[name].get_id())
        return self.base[name]

    def get(self, name, obj):
        return z3.Select(self.farr(name), obj)

    def put(self, name, obj, value):
        h = self.copy()
        h.fields[name] = z3.Store(self.farr(name), obj, value)
        return h

    # -- lists ---------------------------------------------------------------
    @staticmethod
    def _lr(l):
        """a list designator is a z3 term (core region) or a list Val (its region)"""
        if isinstance(l, Val):
            return l.t, (l.ty.region or "c")
        if isinstance(l, tuple):
            return l
        return l, "c"

    def arrs(self, region="c"):
        return self.mem[region]

    def with_arrs(self, region, Len, El, ElX):
        h = self.copy()
        h.mem[region] = (Len, El, ElX)
        return h

    # -- reading a list through stores at references allocated later ----------------------
    # Allocation discipline: every reference that exists when the allocation counter is A is
    # < A; references allocated afterwards are A, A+1, ... or come from later counters.  The
    # counters of a path are ordered by creation (`epoch`).  For a reference term we record
    # the counter value (epoch, offset) it is known to be below; a Store at an index that is
    # >= that bound cannot alias it and is peeled off syntactically, so that terms -- and the
    # quantifier patterns built from them -- do not carry irrelevant Store layers.
    def _alloc_pos(self, a):
        """(epoch, offset) of an allocation-counter term `base` / `base + c`, or None"""
        ep = self.meta["$allocs"]
        if a.get_id() in ep:
            return (ep[a.get_id()], 0)
        if z3.is_add(a):
            base, off = None, 0
            for c in a.children():
                if z3.is_int_value(c):
                    off += c.as_long()
                else:
                    p = self._alloc_pos(c)
                    if p is None or base is not None:
                        return None
                    base, off = p[0], off + p[1]
            return (base, off) if base is not None else None
        return None

    def mark_below(self, t, alloc_term):
        """t denotes a reference that existed when the counter was `alloc_term`"""
        if not isinstance(t, z3.ExprRef):
            return
        pos = self._alloc_pos(alloc_term)
        if pos is None:
            return
        old = self.meta["$old"].get(t.get_id())
        if old is None or pos < old:
            self.meta["$old"][t.get_id()] = pos

    def mark_old(self, t):
        self.mark_below(t, self.meta["$alloc0"])

    def mark_alloc(self, a):
        if a.get_id() not in self.meta["$allocs"]:
            self.meta["$allocs"][a.get_id()] = len(self.meta["$allocs"])

    def _is_entry_value(self, t):
        """t = F0[x] or El0[l][i] for an entry-state array: a value stored in the entry heap; if it
        is used as a reference it existed on entry (well-formedness of the entry heap)"""
        if not z3.is_select(t):
            return False
        a = t.arg(0)
        if a.get_id() in self.meta["$entry"]:
            return True
        return z3.is_select(a) and a.arg(0).get_id() in self.meta["$entry"]

    def _peel(self, arr, t):
        bound = self.meta["$old"].get(t.get_id())
        if bound is None and self._is_entry_value(t):
            bound = (0, 0)
        if bound is None:
            tp = self._alloc_pos(t)      # t itself is `base + k`: distinct from `base + k'`, k' != k, and
            if tp is None:               # from every later counter
                return arr
            while z3.is_store(arr):
                ip = self._alloc_pos(arr.arg(1))
                if ip is None or ip == tp or ip[0] < tp[0]:
                    break
                arr = arr.arg(0)
            return arr
        while z3.is_store(arr):
            ip = self._alloc_pos(arr.arg(1))
            if ip is None or ip < bound:
                break
            arr = arr.arg(0)
        return arr

    def len(self, l):
        t, r = self._lr(l)
        return z3.Select(self._peel(self.mem[r][0], t), t)

    def elarr(self, l):
        t, r = self._lr(l)
        return z3.Select(self._peel(self.mem[r][1], t), t)

    def elxarr(self, l):
        t, r = self._lr(l)
        return z3.Select(self._peel(self.mem[r][2], t), t)

    def at(self, l, i):
        return z3.Select(self.elarr(l), i)

    def atx(self, l, i):
        return z3.Select(self.elxarr(l), i) != 0

    def at2(self, l, i, j):
        return self.at(self.at(l, i), j)

    def set_len(self, l, n):
        t, r = self._lr(l)
        Len, El, ElX = self.mem[r]
        return self.with_arrs(r, z3.Store(Len, t, n), El, ElX)

    def set_elarr(self, l, arr, xarr=None):
        t, r = self._lr(l)
        Len, El, ElX = self.mem[r]
        return self.with_arrs(r, Len, z3.Store(El, t, arr), ElX if xarr is None else z3.Store(ElX, t, xarr))

    def set_at(self, l, i, v, isinf=None):
        t, r = self._lr(l)
        Len, El, ElX = self.mem[r]
        El2 = z3.Store(El, t, z3.Store(z3.Select(El, t), i, v))
        ElX2 = ElX
        if isinf is not None:
            ElX2 = z3.Store(ElX, t, z3.Store(z3.Select(ElX, t), i, z3.If(isinf, z3.IntVal(1), z3.IntVal(0))))
        return self.with_arrs(r, Len, El2, ElX2)

    def copy(self):
        return Heap(self.fields, self.mem, self.alloc, self.tag, self.base, self.meta)

    def with_alloc(self, a):
        h = self.copy()
        h.alloc = a
        return h

    def fresh_alloc(self, a):
        """a new allocation-counter constant (after a callee that allocates)"""
        self.mark_alloc(a)
        return self.with_alloc(a)

    def field_names(self):
        return sorted(set(self.fields) | set(self.base))


def forall(vs, body, patterns=None):
    """z3.ForAll that drops user patterns z3 rejects (patterns may not contain ite or
    boolean structure) instead of failing."""
    _check_no_capture(vs, body)
    kw = {}
    if _QID:      # debugging aid (PYVC_QID=1): name every quantifier after the line that built it (for smt.qi.profile)
        import sys
        f = sys._getframe(1)
        kw["qid"] = f"{f.f_code.co_filename.rsplit('/', 1)[-1].replace('.', '_')}_{f.f_lineno}"
    if patterns and not any(_has_ite(p) for p in patterns):
        try:
            return z3.ForAll(vs, body, patterns=patterns, **kw)
        except z3.Z3Exception:
            pass
    return z3.ForAll(vs, body, **kw)


import os as _os
_QID = bool(_os.environ.get("PYVC_QID"))


def _has_ite(t):
    todo = [t]
    seen = set()
    while todo:
        u = todo.pop()
        if u.get_id() in seen:
            continue
        seen.add(u.get_id())
        if z3.is_app(u):
            k = u.decl().kind()
            if k in (z3.Z3_OP_ITE, z3.Z3_OP_AND, z3.Z3_OP_OR, z3.Z3_OP_NOT, z3.Z3_OP_IMPLIES):
                return True
            todo.extend(u.children())
    return False


class BoundVariableCapture(Exception):
    pass


def _check_no_capture(vs, body):
    """Spec quantifiers bind deterministic names (`?q`).  A quantifier over `?q` whose body contains
    another quantifier over `?q` almost certainly captured occurrences meant for the outer one (the
    inner ForAll abstracts every `?q` below it): refuse to build such a formula."""
    names = {str(v) for v in vs}
    todo, seen = [body], set()
    while todo:
        t = todo.pop()
        k = t.get_id()
        if k in seen:
            continue
        seen.add(k)
        if z3.is_quantifier(t):
            inner = {t.var_name(i) for i in range(t.num_vars())}
            if inner & names:
                raise BoundVariableCapture(f"nested quantifiers bind the same name {sorted(inner & names)}")
            todo.append(t.body())
        elif z3.is_app(t):
            todo.extend(t.children())
