"""Models of the Python builtins and list methods the anchored code uses."""
from __future__ import annotations

import ast

import z3

from .values import (
    forall,
    ANY, BOOL, FUNC, INT, NONE, STR, XINT, LIST, SET, TUPLE, Ty, Val, VNONE,
    fresh, from_int, to_int, vbool, vint, vlist, vxint, I, B,
)


def _oos(msg):
    from .engine import OutsideSubset
    return OutsideSubset(msg)


# --------------------------------------------------------------------------
# quantified evaluation of generator clauses
# --------------------------------------------------------------------------
class Quant:
    def __init__(self):
        self.vars = []
        self.guard = []
        self.elem = None
        self.views = []

    def guard_term(self):
        return z3.And(self.guard) if self.guard else z3.BoolVal(True)

    def forall(self, body, patterns=None):
        if not self.vars:
            return z3.Implies(self.guard_term(), body)
        return forall(self.vars, z3.Implies(self.guard_term(), body))

    def exists(self, body):
        if not self.vars:
            return z3.And(self.guard_term(), body)
        if len(self.vars) == 1 and len(self.guard) == 1 and z3.is_true(body) and len(self.views) == 1:
            # `exists q. 0 <= q < n`  is  `n > 0` (no quantifier for the solver to instantiate)
            return self.views[0].n > 0
        return z3.Exists(self.vars, z3.And(self.guard_term(), body))


def pure_eval(eng, expr, st):
    res = eng.ev(expr, st)
    if len(res) != 1 or res[0][0].status != "run":
        raise _oos(f"expression forks inside a quantified context: {ast.unparse(expr)}")
    return res[0][1]


def _consts_of(exprs):
    """the uninterpreted constants occurring in the given terms"""
    seen, out, todo = set(), set(), [e for e in exprs if isinstance(e, z3.ExprRef)]
    while todo:
        e = todo.pop()
        k = e.get_id()
        if k in seen:
            continue
        seen.add(k)
        if z3.is_quantifier(e):
            todo.append(e.body())
        elif z3.is_app(e):
            if e.num_args() == 0 and e.decl().kind() == z3.Z3_OP_UNINTERPRETED:
                out.add(k)
            else:
                todo.extend(e.children())
    return out


def _val_terms(v, out):
    if isinstance(v, Val):
        _val_terms(v.t, out)
        _val_terms(v.aux, out)
    elif isinstance(v, (list, tuple)):
        for x in v:
            _val_terms(x, out)
    elif isinstance(v, z3.ExprRef):
        out.append(v)


def _subst_val(v, sub):
    if isinstance(v, Val):
        return Val(v.ty, _subst_val(v.t, sub), _subst_val(v.aux, sub))
    if isinstance(v, list):
        return [_subst_val(x, sub) for x in v]
    if isinstance(v, tuple):
        return tuple(_subst_val(x, sub) for x in v)
    if isinstance(v, z3.ExprRef):
        return z3.substitute(v, *sub)
    return v


def _generalise(st, q, start_pc, start_created, side):
    """The clauses were evaluated for ARBITRARY index values (the index variables are free constants
    while the element expression is evaluated).  Facts assumed meanwhile -- results of calls used through
    their contracts, of min/max/sum over an inner generator, typing facts of loaded values -- speak about
    those indices and about result constants that depend on them.  They are turned into what they mean:
    each result constant c becomes a Skolem function c$sk(indices) and each fact F becomes
    `forall own indices. guards and side-conditions => F` (the side conditions -- pre-conditions, no
    exception -- are proved separately for every index satisfying the guards)."""
    from .values import CREATED
    new = st.pc[start_pc:]
    if not new and not CREATED[start_created:]:
        return side
    tags = {i - start_pc: st.tags.pop(i) for i in list(st.tags) if i >= start_pc}
    del st.pc[start_pc:]
    allq = list(st.qstack)
    own = list(q.vars)
    qids = {v.get_id() for v in allq}
    terms = list(new) + list(q.guard) + [ok for ok, _, _ in side]
    _val_terms(q.elem, terms)
    used = _consts_of(terms)
    sub = []
    for c in CREATED[start_created:]:
        if c.get_id() in qids or c.get_id() not in used or c.sort().kind() not in (z3.Z3_INT_SORT, z3.Z3_BOOL_SORT):
            continue
        f = z3.Function(c.decl().name() + "$sk", *[v.sort() for v in allq], c.sort())
        sub.append((c, f(*allq)))
    if sub:
        q.guard = [z3.substitute(g, *sub) for g in q.guard]
        q.elem = _subst_val(q.elem, sub)
        side = [(z3.substitute(ok, *sub), exc, node) for ok, exc, node in side]
        if getattr(q, "item_terms", None):
            q.item_terms = [None if t is None else z3.substitute(t, *sub) for t in q.item_terms]
    cond = z3.And(list(q.guard) + [ok for ok, _, _ in side]) if (q.guard or side) else z3.BoolVal(True)
    ownids = {v.get_id() for v in own}
    for i, fact in enumerate(new):
        f2 = z3.substitute(fact, *sub) if sub else fact
        if _consts_of([f2]) & ownids:
            apps = [a for _, a in sub if a.get_id() in _subterm_ids(f2)]
            pats = apps[:1]
            items = [t for t in (getattr(q, "item_terms", None) or []) if t is not None]
            if len(items) == len(own):
                # the element of the iterable at the index is a second way to reach the fact
                pats = pats + ([items[0]] if len(own) == 1 else [z3.MultiPattern(*items)])
            f2 = forall(own, z3.Implies(cond, f2), patterns=pats or None)
        st.assume(f2, tags.get(i))
    return side


def _subterm_ids(e):
    seen, todo = set(), [e]
    while todo:
        x = todo.pop()
        k = x.get_id()
        if k in seen:
            continue
        seen.add(k)
        if z3.is_quantifier(x):
            todo.append(x.body())
        elif z3.is_app(x):
            todo.extend(x.children())
    return seen


def eval_generators(eng, generators, elt, st, want_elem=True):
    """Evaluates `elt for t1 in it1 if c1 for t2 in it2 ...` with one universally
    quantified index variable per clause.  Exceptions possible inside become side
    conditions: a raising path is forked if some element can raise."""
    from .values import CREATED
    outer = st.pure
    st.pure = []
    saved_env = st.env
    st.env = dict(st.env)
    q = Quant()
    start_pc, start_created, depth = len(st.pc), len(CREATED), len(st.qstack)
    try:
        for g in generators:
            if g.is_async:
                raise _oos("async comprehension")
            itv = pure_eval(eng, g.iter, st)
            view = eng.as_view(itv, st)
            if not q.vars:
                # the first iterable is evaluated once, outside the quantified context
                start_pc, start_created = len(st.pc), len(CREATED)
            v = fresh("q")
            q.vars.append(v)
            st.qstack.append(v)
            q.views.append(view)
            q.guard.append(z3.And(v >= 0, v < view.n))
            item = view.get(st.heap, v)
            term = None
            if isinstance(item.t, z3.ExprRef) and not z3.is_const(item.t):
                term = item.t
            elif isinstance(item.t, list) and item.t and isinstance(item.t[-1].t, z3.ExprRef) \
                    and not z3.is_const(item.t[-1].t):
                term = item.t[-1].t
            q.__dict__.setdefault("item_terms", []).append(term)
            states = eng.assign(g.target, item, st)
            assert len(states) == 1
            for cond in g.ifs:
                cv = pure_eval(eng, cond, st)
                q.guard.append(eng.truthy(cv, st))
        if want_elem:
            q.elem = pure_eval(eng, elt, st)
        side = _generalise(st, q, start_pc, start_created, st.pure)
    finally:
        st.pure = outer
        st.env = saved_env
        del st.qstack[depth:]
    raising = []
    cur = st
    for ok, exc, node in side:
        cond = q.forall(ok)
        if outer is not None:
            outer.append((cond, exc, node))
        else:
            if cur is None:
                break
            cur, bad = eng.split(cur, cond, exc if not str(exc).startswith("pre:") else "ContractPrecondition", node)
            raising.extend(bad)
    return cur, q, raising


def list_comprehension(eng, e, st):
    # special case: [[] for _ in range(n)]  (n fresh empty lists)
    if (len(e.generators) == 1 and not e.generators[0].ifs and isinstance(e.elt, ast.List) and not e.elt.elts):
        out = []
        for s, itv in eng.ev(e.generators[0].iter, st):
            if s.status != "run":
                out.append((s, None))
                continue
            view = eng.as_view(itv, s)
            n = fresh("ncomp")
            s.assume(n == z3.If(view.n > 0, view.n, 0))
            region = eng.alloc_region
            outer = eng.new_list(s, LIST(ANY, region))
            base = s.heap.alloc
            s.heap = s.heap.with_alloc(base + n)
            h = s.heap.set_len(outer, n)
            s.heap = h
            qv = fresh("lq")
            s.assume(forall([qv], z3.Implies(z3.And(qv >= 0, qv < n),
                                                z3.And(h.at(outer, qv) == base + qv,
                                                       h.len((base + qv, region)) == 0)),
                               patterns=[h.at(outer, qv)]))
            out.append((s, outer))
        return out
    if (len(e.generators) == 1 and not e.generators[0].ifs and isinstance(e.elt, ast.ListComp)
            and len(e.elt.generators) == 1 and not e.elt.generators[0].ifs and not isinstance(e.elt.elt, ast.ListComp)):
        return _matrix_comprehension(eng, e, st)
    first = e.generators[0]
    if (len(e.generators) == 1 and not first.ifs and isinstance(first.target, ast.Name) and isinstance(e.elt, ast.Call)
            and isinstance(e.elt.func, ast.Name) and e.elt.func.id == "sorted" and len(e.elt.args) == 1
            and isinstance(e.elt.args[0], ast.Name) and e.elt.args[0].id == first.target.id
            and [k.arg for k in e.elt.keywords] == ["key"]):
        return _sorted_rows_comprehension(eng, e, st)
    if (len(e.generators) == 1 and not first.ifs and isinstance(first.target, ast.Name) and isinstance(e.elt, ast.Call)
            and ast.unparse(e.elt.func) in ("collections.deque", "deque", "list") and len(e.elt.args) == 1
            and not e.elt.keywords and isinstance(e.elt.args[0], ast.Name) and e.elt.args[0].id == first.target.id):
        return _copied_rows_comprehension(eng, e, st)
    if not eng.simple_expr([first.iter]) and isinstance(first.iter, ast.Call) and st.pure is None:
        # python evaluates the outermost iterable once, before the loop: do the same (it may allocate, e.g. sorted())
        import copy as _copy
        out = []
        for s2, itv in eng.ev(first.iter, st):
            if s2.status != "run":
                out.append((s2, None))
                continue
            tmp = f"$comp_iter_{id(e)}"
            s2.env[tmp] = itv
            e2 = _copy.copy(e)
            f2 = _copy.copy(first)
            f2.iter = ast.copy_location(ast.Name(id=tmp, ctx=ast.Load()), first.iter)
            e2.generators = [f2] + list(e.generators[1:])
            res = list_comprehension(eng, e2, s2)
            for s3, _ in res:
                s3.env.pop(tmp, None)
            out.extend(res)
        return out
    cur, q, raising = eval_generators(eng, e.generators, e.elt, st)
    out = [(r, None) for r in raising]
    if cur is None:
        return out
    if len(q.vars) != 1:
        raise _oos("nested list comprehension clauses")
    v = q.vars[0]
    view = q.views[0]
    elem = q.elem
    r = eng.new_list(cur, elem.ty)
    h = cur.heap
    conds = q.guard[1:]
    elem_int = to_int(elem)
    if not conds:
        h = h.set_len(r, z3.If(view.n > 0, view.n, 0))
        cur.heap = h
        cur.assume(forall([v], z3.Implies(q.guard[0], h.at(r, v) == elem_int), patterns=[h.at(r, v)]))
    else:
        # filter: ghost maps src (result index -> source index, increasing) and inv
        # (source index -> result index) make "exactly the elements satisfying c, in
        # order" a quantifier-friendly statement
        ln = fresh("flen")
        h = h.set_len(r, ln)
        cur.heap = h
        src = z3.Function(f"src!{ln}", I, I)
        inv = z3.Function(f"inv!{ln}", I, I)
        c_of = lambda t: z3.substitute(z3.And(conds), (v, t))
        e_of = lambda t: z3.substitute(elem_int, (v, t))
        k = fresh("k")
        k2 = fresh("k2")
        n = view.n
        cur.assume(z3.And(ln >= 0, ln <= z3.If(n > 0, n, 0)))
        cur.assume(forall([k], z3.Implies(z3.And(k >= 0, k < ln),
                                             z3.And(src(k) >= 0, src(k) < n, c_of(src(k)),
                                                    h.at(r, k) == e_of(src(k)), inv(src(k)) == k)),
                             patterns=[src(k), h.at(r, k)]))
        cur.assume(forall([k, k2], z3.Implies(z3.And(k >= 0, k < k2, k2 < ln), src(k) < src(k2)),
                             patterns=[z3.MultiPattern(src(k), src(k2))]))
        item_terms = [t for t in getattr(q, "item_terms", []) if t is not None]
        cur.assume(forall([v], z3.Implies(z3.And(v >= 0, v < n, c_of(v)),
                                             z3.And(inv(v) >= 0, inv(v) < ln, src(inv(v)) == v)),
                             patterns=[inv(v)] + item_terms[:1]))
        cur.aux["last_filter"] = (src, inv, ln)
    out.append((cur, r))
    return out


def _sorted_rows_comprehension(eng, e, st):
    """[sorted(row, key=...) for row in rows]: one new outer list and a block of new row lists; new row v is a
    permutation (ghost bijection perm(v, .) / inv(v, .)) of rows[v] ordered by the key"""
    from .engine import Frame
    out = []
    key = e.elt.keywords[0].value
    for s, rows in eng.ev(e.generators[0].iter, st):
        if s.status != "run":
            out.append((s, None))
            continue
        if rows.ty.kind != "list" or rows.ty.arg.kind != "list":
            raise _oos("sorted rows of something that is not a list of lists")
        region = eng.alloc_region
        ety = rows.ty.arg.arg
        hsrc = s.heap
        n1 = hsrc.len(rows)
        R = eng.new_list(s, LIST(LIST(ety, region), region))
        s.heap = s.heap.set_len(R, 0)
        h1 = s.heap
        base = h1.alloc
        h2 = eng.havoc(s, Frame(alloc_lists=True), h1)
        s.heap = h2
        s.assume(h2.alloc == base + n1)
        h2 = h2.set_len(R, n1)
        rowsarr = fresh("srows", z3.ArraySort(I, I))
        h2 = h2.set_elarr(R, rowsarr)
        s.heap = h2
        tag = fresh("srt")
        perm = z3.Function(f"perm!{tag}", I, I, I)
        inv = z3.Function(f"inv!{tag}", I, I, I)
        v, k1, k2, q = fresh("v"), fresh("k"), fresh("k"), fresh("q")
        src = lambda t: (hsrc.at(rows, t), rows.ty.arg.region or "c")  # noqa: E731
        # the new row is designated by the outer list's element (no arithmetic in the quantifier patterns)
        new = (z3.Select(rowsarr, v), region)
        n = hsrc.len(src(v))
        inr = z3.And(v >= 0, v < n1)
        s.assume(forall([v], z3.Implies(inr, z3.And(z3.Select(rowsarr, v) == base + v, h2.len(new) == n)),
                        patterns=[z3.Select(rowsarr, v)]))
        s.assume(forall([v, k1], z3.Implies(z3.And(inr, k1 >= 0, k1 < n), z3.And(
            perm(v, k1) >= 0, perm(v, k1) < n, inv(v, perm(v, k1)) == k1, h2.at(new, k1) == hsrc.at(src(v), perm(v, k1)))),
            patterns=[h2.at(new, k1)]))
        s.assume(forall([v, q], z3.Implies(z3.And(inr, q >= 0, q < n), z3.And(inv(v, q) >= 0, inv(v, q) < n,
                                                                          perm(v, inv(v, q)) == q)),
                        patterns=[inv(v, q)]))
        le, side = _key_le(eng, s, key, from_int(ety, h2.at(new, k1)), from_int(ety, h2.at(new, k2)), [v, k1, k2],
                           z3.And(inr, k1 >= 0, k1 < n, k2 >= 0, k2 < n))
        s.assume(forall([v, k1, k2], z3.Implies(z3.And(inr, k1 >= 0, k1 < k2, k2 < n), le),
                        patterns=[z3.MultiPattern(h2.at(new, k1), h2.at(new, k2))]))
        s.aux["last_sort_rows"] = (perm, inv, base)
        cur = s
        for ok, exc, node in side:
            okq = forall([v, k1, k2], z3.Implies(z3.And(inr, k1 >= 0, k1 < n, k2 >= 0, k2 < n), ok))
            cur, bad = eng.split(cur, okq, exc if not str(exc).startswith("pre:") else "ContractPrecondition", node)
            out.extend((b_, None) for b_ in bad)
            if cur is None:
                break
        if cur is not None:
            out.append((cur, Val(LIST(LIST(ety, region), region), R.t)))
    return out


def _copied_rows_comprehension(eng, e, st):
    """[collections.deque(row) for row in rows] / [list(row) for row in rows]: one new outer list and a block of new
    row lists (in the region allocations of the current function go to), row v an element-wise copy of rows[v]"""
    from .engine import Frame
    out = []
    for s, rows in eng.ev(e.generators[0].iter, st):
        if s.status != "run":
            out.append((s, None))
            continue
        if rows.ty.kind != "list" or rows.ty.arg.kind != "list":
            raise _oos("copying the rows of something that is not a list of lists")
        region = eng.alloc_region
        ety = rows.ty.arg.arg
        hsrc = s.heap
        n1 = hsrc.len(rows)
        R = eng.new_list(s, LIST(LIST(ety, region), region))
        s.heap = s.heap.set_len(R, 0)
        h1 = s.heap
        base = h1.alloc
        h2 = eng.havoc(s, Frame(alloc_lists=(region == "c"), alloc_olists=(region == "o")), h1)
        s.heap = h2
        s.assume(h2.alloc == base + n1)
        h2 = h2.set_len(R, n1)
        rowsarr = fresh("crows", z3.ArraySort(I, I))
        h2 = h2.set_elarr(R, rowsarr)
        s.heap = h2
        v, k1 = fresh("v"), fresh("k")
        src = lambda t: (hsrc.at(rows, t), rows.ty.arg.region or "c")  # noqa: E731
        new = (z3.Select(rowsarr, v), region)
        n = hsrc.len(src(v))
        inr = z3.And(v >= 0, v < n1)
        s.assume(forall([v], z3.Implies(inr, z3.And(z3.Select(rowsarr, v) == base + v, h2.len(new) == n)),
                        patterns=[z3.Select(rowsarr, v)]))
        s.assume(forall([v, k1], z3.Implies(z3.And(inr, k1 >= 0, k1 < n), h2.at(new, k1) == hsrc.at(src(v), k1)),
                        patterns=[h2.at(new, k1)]))
        out.append((s, Val(LIST(LIST(ety, region), region), R.t)))
    return out


def _matrix_comprehension(eng, e, st):
    """[[elt for t2 in it2] for t1 in it1]: one new outer list and a block of n1 new row lists
    (references base .. base+n1-1); row v1 has the length of it2(v1) and elt(v1, v2) at v2."""
    from .engine import Frame
    inner = e.elt
    cur, q, raising = eval_generators(eng, [e.generators[0], inner.generators[0]], inner.elt, st)
    out = [(r, None) for r in raising]
    if cur is None:
        return out
    v1, v2 = q.vars
    view1, view2 = q.views
    elem = q.elem
    region = eng.alloc_region
    R = eng.new_list(cur, LIST(LIST(elem.ty, region), region))
    n1 = fresh("nrows")
    cur.assume(n1 == z3.If(view1.n > 0, view1.n, 0))
    cur.heap = cur.heap.set_len(R, 0)
    h1 = cur.heap
    base = h1.alloc
    h2 = eng.havoc(cur, Frame(alloc_lists=True), h1)
    cur.heap = h2
    cur.assume(h2.alloc == base + n1)
    h2 = h2.set_len(R, n1)
    rows = fresh("rows", z3.ArraySort(I, I))
    h2 = h2.set_elarr(R, rows)
    cur.heap = h2
    row = (base + v1, region)
    n2 = z3.If(view2.n > 0, view2.n, 0)
    cur.assume(forall([v1], z3.Implies(q.guard[0], z3.And(z3.Select(rows, v1) == base + v1, h2.len(row) == n2)),
                      patterns=[z3.Select(rows, v1)]))
    cur.assume(forall([v1, v2], z3.Implies(z3.And(q.guard), h2.at(row, v2) == to_int(elem)),
                      patterns=[h2.at(row, v2)]))
    out.append((cur, Val(LIST(LIST(elem.ty, region), region), R.t)))
    return out


# --------------------------------------------------------------------------
# builtin functions
# --------------------------------------------------------------------------
def call_builtin(eng, name, e, st):
    fn = BUILTINS.get(name)
    if fn is None:
        hook = getattr(eng, "library_models", {}).get(name)
        if hook is None:
            return None
        fn = hook
    return fn(eng, e, st)


def _args(eng, e, st):
    return eng.eval_args(e, st)


def b_len(eng, e, st):
    out = []
    for s, pos, kw in _args(eng, e, st):
        if s.status != "run":
            out.append((s, None))
            continue
        v = pos[0]
        if v.ty.kind in ("list", "deque"):
            out.append((s, vint(s.heap.len(v))))
        elif v.ty.kind == "tuple":
            out.append((s, vint(len(v.t))))
        elif isinstance(v.t, __import__("pyvc.engine", fromlist=["IterView"]).IterView):
            out.append((s, vint(v.t.n)))
        else:
            raise _oos(f"len of {v.ty}")
    return out


def b_range(eng, e, st):
    from .engine import IterView
    out = []
    for s, pos, kw in _args(eng, e, st):
        if s.status != "run":
            out.append((s, None))
            continue
        if len(pos) == 1:
            lo, hi = z3.IntVal(0), pos[0].t
        elif len(pos) == 2:
            lo, hi = pos[0].t, pos[1].t
        else:
            # range(lo, hi, step): ValueError for step 0; for a positive step the elements are lo + j*step for
            # 0 <= j < n with n the least count reaching hi (n = 0 iff hi <= lo)
            lo, hi, step = pos[0].t, pos[1].t, pos[2].t
            s, bad = eng.split(s, step != 0, "ValueError", e)
            out.extend((b, None) for b in bad)
            if s is None:
                continue
            if not eng.feasible(s, step > 0) or eng.feasible(s, step < 0):
                raise _oos("range with a step that may be negative")
            n = fresh("nrange")
            s.assume(z3.And(n >= 0, z3.Implies(hi <= lo, n == 0),
                            z3.Implies(hi > lo, z3.And(n >= 1, lo + (n - 1) * step < hi, lo + n * step >= hi))))
            out.append((s, Val(Ty("iter"), IterView(n, lambda h, j, lo=lo, step=step: vint(lo + j * step)))))
            continue
        n = z3.If(hi > lo, hi - lo, 0)
        out.append((s, Val(Ty("iter"), IterView(n, lambda h, j, lo=lo: vint(lo + j)))))
    return out


def b_enumerate(eng, e, st):
    from .engine import IterView
    out = []
    for s, pos, kw in _args(eng, e, st):
        if s.status != "run":
            out.append((s, None))
            continue
        view = eng.as_view(pos[0], s)
        start = pos[1].t if len(pos) > 1 else (kw["start"].t if "start" in kw else z3.IntVal(0))
        out.append((s, Val(Ty("iter"), IterView(
            view.n, lambda h, j, view=view, start=start: Val(TUPLE(INT, ANY), [vint(start + j), view.get(h, j)]),
            view.base_list))))
    return out


def b_reversed(eng, e, st):
    from .engine import IterView
    out = []
    for s, pos, kw in _args(eng, e, st):
        if s.status != "run":
            out.append((s, None))
            continue
        view = eng.as_view(pos[0], s)
        out.append((s, Val(Ty("iter"), IterView(view.n, lambda h, j, view=view: view.get(h, view.n - 1 - j),
                                                 view.base_list))))
    return out


def b_zip(eng, e, st):
    from .engine import IterView
    out = []
    for s, pos, kw in _args(eng, e, st):
        if s.status != "run":
            out.append((s, None))
            continue
        views = [eng.as_view(p, s) for p in pos]
        n = views[0].n
        for v in views[1:]:
            n = z3.If(v.n < n, v.n, n)
        out.append((s, Val(Ty("iter"), IterView(
            n, lambda h, j, views=views: Val(TUPLE(*[ANY] * len(views)), [v.get(h, j) for v in views])))))
    return out


def _minmax_two(eng, is_max, a, b):
    if a.ty.kind == "xint" or b.ty.kind == "xint":
        a, b = eng.to_xint(a), eng.to_xint(b)
        a_le_b = z3.Or(b.aux, z3.And(z3.Not(a.aux), a.t <= b.t))
        pick_a = z3.Not(a_le_b) if is_max else a_le_b
        # python returns the first argument on ties for both min and max
        if is_max:
            pick_a = z3.Or(z3.And(a.aux, z3.BoolVal(True)), z3.And(z3.Not(b.aux), z3.Not(a.aux), a.t >= b.t))
        return vxint(z3.If(pick_a, a.t, b.t), z3.If(pick_a, a.aux, b.aux))
    x, y = eng.num(a), eng.num(b)
    return vint(z3.If(x >= y, x, y) if is_max else z3.If(x <= y, x, y))


def _minmax(is_max):
    def f(eng, e, st):
        key = None
        for k in e.keywords:
            if k.arg == "key":
                key = k.value
            else:
                raise _oos(f"min/max keyword {k.arg}")
        out = []
        # generator argument
        if len(e.args) == 1 and isinstance(e.args[0], ast.GeneratorExp) and key is None:
            g = e.args[0]
            cur, q, raising = eval_generators(eng, g.generators, g.elt, st)
            out = [(r, None) for r in raising]
            if cur is None:
                return out
            nonempty = q.exists(z3.BoolVal(True))
            cur, bad = eng.split(cur, nonempty, "ValueError", e)
            out.extend((b, None) for b in bad)
            if cur is None:
                return out
            el = q.elem
            if el.ty.kind == "xint":
                raise _oos("min/max over a generator of extended integers")
            r = fresh("mm")
            x = eng.num(el)
            cur.assume(q.forall(r >= x if is_max else r <= x))
            cur.assume(q.exists(r == x))
            out.append((cur, vint(r)))
            return out
        import copy as _copy
        e2 = _copy.copy(e)
        e2.keywords = []
        for s, pos, kw in eng.eval_args(e2, st):
            if s.status != "run":
                out.append((s, None))
                continue
            # max(x, *xs)
            if any(p.ty.kind == "starred" for p in pos):
                fixed = [p for p in pos if p.ty.kind != "starred"]
                star = [p.t for p in pos if p.ty.kind == "starred"]
                if len(star) != 1 or key is not None:
                    raise _oos("min/max with several starred arguments")
                lst = star[0]
                if lst.ty.kind != "list":
                    raise _oos("starred non-list")
                r = fresh("mm")
                qv = fresh("q")
                n = s.heap.len(lst)
                rng = z3.And(qv >= 0, qv < n)
                elq = s.heap.at(lst, qv)
                facts = [forall([qv], z3.Implies(rng, r >= elq if is_max else r <= elq))]
                alts = [z3.Exists([qv], z3.And(rng, r == elq))]
                for fx in fixed:
                    x = eng.num(fx)
                    facts.append(r >= x if is_max else r <= x)
                    alts.append(r == x)
                if not fixed:
                    s, bad = eng.split(s, n > 0, "TypeError", e)
                    out.extend((b, None) for b in bad)
                    if s is None:
                        continue
                for fct in facts:
                    s.assume(fct)
                s.assume(z3.Or(alts))
                out.append((s, vint(r)))
                continue
            if len(pos) >= 2 and key is None:
                acc = pos[0]
                for p in pos[1:]:
                    acc = _minmax_two(eng, is_max, acc, p)
                out.append((s, acc))
                continue
            if len(pos) == 1:
                # min(xs) / min(xs, key=f): the first element attaining the extremum
                view = eng.as_view(pos[0], s)
                s, bad = eng.split(s, view.n > 0, "ValueError", e)
                out.extend((b, None) for b in bad)
                if s is None:
                    continue
                w = fresh("w")
                s.assume(z3.And(w >= 0, w < view.n))
                qv = fresh("q")
                outer = s.pure
                s.pure = []

                def keyof(idx, s=s, view=view):
                    item = view.get(s.heap, idx)
                    if key is None:
                        return item
                    kv = pure_eval(eng, key, s)
                    res = eng.inline_with(kv.t, [item], s)
                    if len(res) != 1:
                        raise _oos("key function forks")
                    return res[0][1]

                kw_ = keyof(w)
                kq = keyof(qv)
                side = s.pure
                s.pure = outer
                if kw_.ty.kind == "xint":
                    raise _oos("key of extended integers")
                a, b = eng.num(kw_), eng.num(kq)
                rng = z3.And(qv >= 0, qv < view.n)
                s.assume(forall([qv], z3.Implies(rng, a >= b if is_max else a <= b)))
                s.assume(forall([qv], z3.Implies(z3.And(rng, qv < w), a > b if is_max else a < b)))
                for ok, exc, node in side:
                    okq = forall([qv], z3.Implies(rng, ok)) if _mentions(ok, qv) else z3.Implies(view.n > 0, ok)
                    s, bad = eng.split(s, okq, exc if not str(exc).startswith("pre:") else "ContractPrecondition", node)
                    out.extend((b_, None) for b_ in bad)
                    if s is None:
                        break
                if s is None:
                    continue
                item = view.get(s.heap, w)
                s.aux['last_argext'] = w
                out.append((s, item))
                continue
            raise _oos("unsupported min/max form")
        return out
    return f


def _mentions(term, var):
    todo = [term]
    seen = set()
    while todo:
        t = todo.pop()
        if t.get_id() in seen:
            continue
        seen.add(t.get_id())
        if t.eq(var):
            return True
        if z3.is_quantifier(t):
            todo.append(t.body())
        else:
            todo.extend(t.children())
    return False


def _anyall(is_all):
    def f(eng, e, st):
        if len(e.args) != 1 or not isinstance(e.args[0], ast.GeneratorExp):
            raise _oos("any/all of a non-generator")
        g = e.args[0]
        cur, q, raising = eval_generators(eng, g.generators, g.elt, st)
        out = [(r, None) for r in raising]
        if cur is None:
            return out
        b = eng.truthy(q.elem, cur)
        out.append((cur, vbool(q.forall(b) if is_all else q.exists(b))))
        return out
    return f


def b_sum(eng, e, st):
    """sum(generator) / sum(list): a fresh partial-sum function with its recursive
    definition; contracts connect it to spec-level sums through loop-style lemmas."""
    out = []
    if len(e.args) == 1 and isinstance(e.args[0], ast.GeneratorExp):
        g = e.args[0]
        if len(g.generators) != 1 or g.generators[0].ifs:
            raise _oos("sum over a filtered or nested generator")
        cur, q, raising = eval_generators(eng, g.generators, g.elt, st)
        out = [(r, None) for r in raising]
        if cur is None:
            return out
        v = q.vars[0]
        n = q.views[0].n
        x = eng.num(q.elem)
        spec = (getattr(eng.cur, "sum_specs", None) or {}).get(ast.unparse(e))
        if spec is not None:
            # SUM RULE (induction built into the verifier, like a loop invariant): if a
            # spec-level prefix-sum G satisfies G(0) = 0 and G(v+1) = G(v) + x(v) on [0, n)
            # -- both proved here as obligations -- then sum(x(v) for v < n) = G(n).
            from .engine import Ctx
            G = spec(Ctx(eng, eng.h0, cur.heap, eng.args0), cur)
            nn = z3.If(n > 0, n, 0)
            init = G(z3.IntVal(0)) == 0
            step = forall([v], z3.Implies(z3.And(v >= 0, v < n), G(v + 1) == G(v) + x))
            if cur.pure is None:
                eng.oblige(cur, f"sum-rule:init:{ast.unparse(e)[:40]}", init, "sum", e)
                eng.oblige(cur, f"sum-rule:step:{ast.unparse(e)[:40]}", step, "sum", e)
            else:
                # inside a quantified context (G mentions the enclosing index variables): the two
                # premises become side conditions, proved for every enclosing index
                cur.pure.append((init, "SumRuleInit", e))
                cur.pure.append((step, "SumRuleStep", e))
            out.append((cur, vint(G(nn))))
            return out
        if cur.qstack:
            # the partial sums depend on the enclosing index variables
            psf = z3.Function(f"psum!{fresh('s')}", *([I] * len(cur.qstack)), I, I)
            qs = list(cur.qstack)
            ps = lambda t: psf(*qs, t)  # noqa: E731
        else:
            ps = z3.Function(f"psum!{fresh('s')}", I, I)
        cur.assume(ps(0) == 0)
        cur.assume(forall([v], z3.Implies(z3.And(v >= 0, v < n), ps(v + 1) == ps(v) + x), patterns=[ps(v + 1)]))
        hook = getattr(eng.cur, "sum_hook", None)
        if hook is not None:
            hook(eng, cur, e, ps, n, v, x)
        out.append((cur, vint(ps(z3.If(n > 0, n, 0)))))
        return out
    for s, pos, kw in eng.eval_args(e, st):
        if s.status != "run":
            out.append((s, None))
            continue
        view = eng.as_view(pos[0], s)
        v = fresh("q")
        x = eng.num(view.get(s.heap, v))
        if s.qstack:
            raise _oos("sum(list) inside a quantified expression")
        spec = (getattr(eng.cur, "sum_specs", None) or {}).get(ast.unparse(e))
        if spec is not None:
            from .engine import Ctx
            G = spec(Ctx(eng, eng.h0, s.heap, eng.args0), s)
            eng.oblige(s, f"sum-rule:init:{ast.unparse(e)[:40]}", G(z3.IntVal(0)) == 0, "sum", e)
            eng.oblige(s, f"sum-rule:step:{ast.unparse(e)[:40]}",
                       forall([v], z3.Implies(z3.And(v >= 0, v < view.n), G(v + 1) == G(v) + x)), "sum", e)
            out.append((s, vint(G(z3.If(view.n > 0, view.n, 0)))))
            continue
        ps = z3.Function(f"psum!{fresh('s')}", I, I)
        s.assume(ps(0) == 0)
        s.assume(forall([v], z3.Implies(z3.And(v >= 0, v < view.n), ps(v + 1) == ps(v) + x), patterns=[ps(v + 1)]))
        hook = getattr(eng.cur, "sum_hook", None)
        if hook is not None:
            hook(eng, s, e, ps, view.n, v, x)
        out.append((s, vint(ps(z3.If(view.n > 0, view.n, 0)))))
    return out


def b_isinstance(eng, e, st):
    out = []
    for s, (v,) in eng.ev_many([e.args[0]], st):
        if s.status != "run":
            out.append((s, None))
            continue
        cls_expr = e.args[1]
        names = [ast.unparse(x) for x in (cls_expr.elts if isinstance(cls_expr, ast.Tuple) else [cls_expr])]
        res = []
        for cname in names:
            res.append(_isinstance1(eng, v, cname, cls_expr, s))
        out.append((s, vbool(z3.Or(res) if len(res) > 1 else res[0])))
    return out


def _isinstance1(eng, v, cname, node, st):
    k = v.ty.kind
    if k == "union":
        tag, a, b = v.t
        return z3.If(tag, _isinstance1(eng, a, cname, node, st), _isinstance1(eng, b, cname, node, st))
    if k == "enum":
        return z3.BoolVal(cname == v.ty.arg)
    prim = {"int": ("int", "bool"), "bool": ("bool",), "str": ("str",), "list": ("list",), "float": (), "dict": (),
            "tuple": ("tuple",)}
    if cname in prim:
        if k in ("ref", "any") and cname in ("int", "str", "dict", "list", "float"):
            if k == "any":
                raise _oos(f"isinstance({v.ty}, {cname})")
            return z3.BoolVal(False)
        return z3.BoolVal(k in prim[cname])
    if cname == "Iterable":
        return z3.BoolVal(k in ("list", "tuple", "set", "deque"))
    if cname in eng.prog.classes:
        if k != "ref":
            return z3.BoolVal(False)
        if eng.prog.is_subclass(v.ty.arg, cname):
            return v.t != 0
        if not eng.prog.is_subclass(cname, v.ty.arg):
            return z3.BoolVal(False)
        return eng.dyn_isinstance(st, v.t, cname)
    # isinstance(x, self.__class__) / isinstance(x, observer) with a class-valued variable
    cv = pure_eval(eng, node, st)
    if cv.ty.kind == "classof":
        return eng.dyn_subtype(st, st.heap.get("$type", v.t), st.heap.get("$type", cv.t))
    if cv.ty.kind == "classval":
        return eng.dyn_subtype(st, st.heap.get("$type", v.t), cv.t)
    if cv.ty.kind == "class":
        return _isinstance1(eng, v, cv.t, node, st)
    raise _oos(f"isinstance with {cname}")


def b_int(eng, e, st):
    out = []
    for s, pos, kw in _args(eng, e, st):
        if s.status != "run":
            out.append((s, None))
            continue
        v = pos[0]
        if v.ty.kind == "xint":
            s, bad = eng.split(s, z3.Not(v.aux), "OverflowError", e)
            out.extend((b, None) for b in bad)
            if s is not None:
                out.append((s, vint(v.t)))
        elif v.ty.kind in ("int", "bool"):
            out.append((s, vint(eng.num(v))))
        else:
            raise _oos(f"int({v.ty})")
    return out


def b_float(eng, e, st):
    if len(e.args) == 1 and isinstance(e.args[0], ast.Constant) and e.args[0].value == "inf":
        return [(st, vxint(z3.IntVal(0), z3.BoolVal(True)))]
    raise _oos("float() other than float('inf')")


def b_callable(eng, e, st):
    out = []
    for s, pos, kw in _args(eng, e, st):
        out.append((s, vbool(pos[0].ty.kind == "func") if s.status == "run" else None))
    return out


def b_set(eng, e, st):
    out = []
    if not e.args:
        return [(st, Val(SET(INT), z3.K(I, z3.BoolVal(False))))]
    if isinstance(e.args[0], ast.GeneratorExp):
        g = e.args[0]
        cur, q, raising = eval_generators(eng, g.generators, g.elt, st)
        out = [(r, None) for r in raising]
        if cur is None:
            return out
        sarr = fresh("set", z3.ArraySort(I, B))
        x = fresh("x")
        xi = to_int(q.elem)
        cur.assume(forall([x], z3.Select(sarr, x) == q.exists(xi == x), patterns=[z3.Select(sarr, x)]))
        out.append((cur, Val(SET(q.elem.ty), sarr)))
        return out
    for s, pos, kw in _args(eng, e, st):
        if s.status != "run":
            out.append((s, None))
            continue
        v = pos[0]
        if v.ty.kind == "set":
            out.append((s, v))
            continue
        view = eng.as_view(v, s)
        sarr = fresh("set", z3.ArraySort(I, B))
        x = fresh("x")
        qv = fresh("q")
        item = to_int(view.get(s.heap, qv))
        s.assume(forall([x], z3.Select(sarr, x) == z3.Exists([qv], z3.And(qv >= 0, qv < view.n, item == x)),
                           patterns=[z3.Select(sarr, x)]))
        ety = v.ty.arg if v.ty.kind == "list" else ANY
        out.append((s, Val(SET(ety), sarr)))
    return out


def b_list(eng, e, st):
    out = []
    if not e.args:
        return [(st, eng.alloc_list(st, ANY, []))]
    for s, pos, kw in _args(eng, e, st):
        if s.status != "run":
            out.append((s, None))
            continue
        v = pos[0]
        if v.ty.kind == "set":
            # iteration order of a set is unspecified: a duplicate-free list with the
            # same elements (specs compare such results as sets)
            r = eng.new_list(s, v.ty.arg)
            n = fresh("setlen")
            h = s.heap.set_len(r, n)
            s.heap = h
            x = fresh("x")
            q1, q2 = fresh("q"), fresh("q")
            idx = z3.Function(f"sidx!{n}", I, I)
            s.assume(n >= 0)
            s.assume(forall([q1], z3.Implies(z3.And(q1 >= 0, q1 < n),
                                                z3.And(z3.Select(v.t, h.at(r, q1)), idx(h.at(r, q1)) == q1)),
                               patterns=[h.at(r, q1)]))
            s.assume(forall([x], z3.Implies(z3.Select(v.t, x),
                                               z3.And(idx(x) >= 0, idx(x) < n, h.at(r, idx(x)) == x)),
                               patterns=[idx(x)]))
            out.append((s, r))
            continue
        view = eng.as_view(v, s)
        item0 = view.get(s.heap, fresh("q"))
        r = eng.new_list(s, item0.ty)
        h = s.heap.set_len(r, z3.If(view.n > 0, view.n, 0))
        s.heap = h
        qv = fresh("q")
        item = view.get(h, qv)
        s.assume(forall([qv], z3.Implies(z3.And(qv >= 0, qv < view.n), h.at(r, qv) == to_int(item)),
                           patterns=[h.at(r, qv)]))
        out.append((s, r))
    return out


def _key_le(eng, st, key, a: Val, b: Val, qvars, guard):
    """python's `key(a) <= key(b)` for a key lambda returning an int or a tuple of ints, for the elements a, b
    indexed by the bound variables `qvars` (in range under `guard`).  Evaluated like a generator clause: results of
    calls made by the key (properties used through their contracts) become Skolem functions of the indices and
    their facts are assumed for all indices (see _generalise).  -> (formula, side conditions)"""
    from .values import CREATED
    outer = st.pure
    st.pure = []
    depth = len(st.qstack)
    start_pc, start_created = len(st.pc), len(CREATED)
    st.qstack.extend(qvars)
    q = Quant()
    q.vars = list(qvars)
    q.guard = [guard]
    try:
        kv = pure_eval(eng, key, st)
        ra = eng.inline_with(kv.t, [a], st)
        rb = eng.inline_with(kv.t, [b], st)
        if len(ra) != 1 or len(rb) != 1:
            raise _oos("sort key forks")
        ka, kb = ra[0][1], rb[0][1]
        xs = [eng.num(v) for v in (ka.t if ka.ty.kind == "tuple" else [ka])]
        ys = [eng.num(v) for v in (kb.t if kb.ty.kind == "tuple" else [kb])]
        le = z3.BoolVal(True)
        for x, y in reversed(list(zip(xs, ys))):
            le = z3.Or(x < y, z3.And(x == y, le))
        q.elem = vbool(le)
        side = _generalise(st, q, start_pc, start_created, st.pure)
    finally:
        st.pure = outer
        del st.qstack[depth:]
    return q.elem.t, side


def _sorted_list(eng, e, s, lst, key):
    """sorted(lst, key=lambda): a NEW list that is a permutation of lst (ghost bijection perm / inv) ordered by the
    key -- python's sort is stable, which is NOT modelled (callers get `sorted by key`, nothing about ties)"""
    h0 = s.heap
    n = h0.len(lst)
    r = eng.new_list(s, lst.ty.arg)
    h = s.heap.set_len(r, n)
    s.heap = h
    tag = fresh("srt")
    perm = z3.Function(f"perm!{tag}", I, I)
    inv = z3.Function(f"inv!{tag}", I, I)
    k1, k2, q = fresh("k"), fresh("k"), fresh("q")
    s.assume(forall([k1], z3.Implies(z3.And(k1 >= 0, k1 < n), z3.And(perm(k1) >= 0, perm(k1) < n, inv(perm(k1)) == k1,
                                                                  h.at(r, k1) == h0.at(lst, perm(k1)))),
                    patterns=[h.at(r, k1)]))
    s.assume(forall([q], z3.Implies(z3.And(q >= 0, q < n), z3.And(inv(q) >= 0, inv(q) < n, perm(inv(q)) == q)),
                    patterns=[inv(q)]))
    ety = lst.ty.arg
    le, side = _key_le(eng, s, key, from_int(ety, h.at(r, k1)), from_int(ety, h.at(r, k2)), [k1, k2],
                       z3.And(k1 >= 0, k1 < n, k2 >= 0, k2 < n))
    s.assume(forall([k1, k2], z3.Implies(z3.And(k1 >= 0, k1 < k2, k2 < n), le),
                    patterns=[z3.MultiPattern(h.at(r, k1), h.at(r, k2))]))
    s.aux["last_sort"] = (perm, inv, r)
    return r, side, (k1, k2, n)


def b_sorted(eng, e, st):
    """sorted(d) for a local dict: its keys in increasing order; sorted(list, key=lambda ...)"""
    out = []
    kws = {k.arg: k.value for k in e.keywords}
    if set(kws) - {"key"}:
        raise _oos("sorted with options other than key=")
    if "key" in kws:
        import copy as _copy
        e2 = _copy.copy(e)
        e2.keywords = []
        for s, pos, kw in eng.eval_args(e2, st):
            if s.status != "run":
                out.append((s, None))
                continue
            lst = pos[0]
            if lst.ty.kind != "list":
                raise _oos(f"sorted({lst.ty}, key=...)")
            r, side, (k1, k2, n) = _sorted_list(eng, e, s, lst, kws["key"])
            cur = s
            for ok, exc, node in side:
                okq = forall([k1, k2], z3.Implies(z3.And(k1 >= 0, k1 < n, k2 >= 0, k2 < n), ok))
                cur, bad = eng.split(cur, okq, exc if not str(exc).startswith("pre:") else "ContractPrecondition", node)
                out.extend((b_, None) for b_ in bad)
                if cur is None:
                    break
            if cur is not None:
                out.append((cur, r))
        return out
    for s, pos, kw in _args(eng, e, st):
        if s.status != "run":
            out.append((s, None))
            continue
        v = pos[0]
        if v.ty.kind not in ("dict", "emptydict"):
            raise _oos(f"sorted({v.ty})")
        d = eng.as_dict(v)
        has = d.t[0]
        kty = d.ty.items[0] if d.ty.items else INT
        if kty.kind not in ("int", "any"):
            raise _oos("sorted(dict) with keys that are not integers")
        r = eng.new_list(s, INT)
        n = fresh("nkeys")
        h = s.heap.set_len(r, n)
        s.heap = h
        x, q1, q2 = fresh("x"), fresh("q"), fresh("q")
        idx = z3.Function(f"kidx!{n}", I, I)
        s.assume(n >= 0)
        s.assume(forall([q1], z3.Implies(z3.And(q1 >= 0, q1 < n), z3.And(z3.Select(has, h.at(r, q1)), idx(h.at(r, q1)) == q1)),
                        patterns=[h.at(r, q1)]))
        s.assume(forall([q1, q2], z3.Implies(z3.And(q1 >= 0, q1 < q2, q2 < n), h.at(r, q1) < h.at(r, q2)),
                        patterns=[z3.MultiPattern(h.at(r, q1), h.at(r, q2))]))
        s.assume(forall([x], z3.Implies(z3.Select(has, x), z3.And(idx(x) >= 0, idx(x) < n, h.at(r, idx(x)) == x)),
                        patterns=[idx(x)]))
        s.aux["last_sorted_index"] = idx
        out.append((s, r))
    return out


def b_hash(eng, e, st):
    out = []
    for s, pos, kw in _args(eng, e, st):
        if s.status != "run":
            out.append((s, None))
            continue
        v = pos[0]
        if v.ty.kind in ("int", "bool"):
            # hash(int) is a function of the value (identity below 2**61-1)
            H = z3.Function("pyhash_int", I, I)
            out.append((s, vint(H(eng.num(v)))))
        else:
            raise _oos(f"hash of {v.ty}")
    return out


def b_print(eng, e, st):
    return [(st, VNONE)]


def b_str(eng, e, st):
    """str(x): an opaque string"""
    return [(s, Val(STR, None) if s.status == "run" else None) for s, pos, kw in _args(eng, e, st)]


def b_perf_counter(eng, e, st):
    """[TRUSTED] time.perf_counter(): a monotone clock -- each reading is >= the previous one.
    Modelled in scaled integer ticks (the comparison elapsed >= 0 is all that is used)."""
    t = fresh("clock")
    last = st.aux.get("clock")
    if last is not None:
        st.assume(t >= last)
    st.aux["clock"] = t
    return [(st, vint(t))]


BUILTINS = {
    "time.perf_counter": b_perf_counter,
    "len": b_len,
    "range": b_range,
    "enumerate": b_enumerate,
    "reversed": b_reversed,
    "zip": b_zip,
    "min": _minmax(False),
    "max": _minmax(True),
    "any": _anyall(False),
    "all": _anyall(True),
    "sum": b_sum,
    "isinstance": b_isinstance,
    "int": b_int,
    "float": b_float,
    "callable": b_callable,
    "set": b_set,
    "list": b_list,
    "hash": b_hash,
    "sorted": b_sorted,
    "str": b_str,
    "print": b_print,
}

from .library import MODELS as _LIBRARY_MODELS  # noqa: E402  ([TRUSTED] standard-library contracts)
BUILTINS.update(_LIBRARY_MODELS)


# --------------------------------------------------------------------------
# list / set methods
# --------------------------------------------------------------------------
def call_list_method(eng, fv, e, st):
    obj, meth = fv.t
    out = []
    for s, pos, kw in eng.eval_args(e, st):
        if s.status != "run":
            out.append((s, None))
            continue
        out.extend(_list_method(eng, obj, meth, pos, s, e))
    return out


def _check_borrowed(eng, obj, st, node):
    """a list handed out by a cached query is borrowed: mutating it corrupts the cache"""
    if obj.aux == "borrowed":
        eng.oblige(st, f"does-not-mutate-a-cached-list@{getattr(node, 'lineno', 0)}", z3.BoolVal(False), "borrow", node,
                   detail="in-place mutation of a list returned by a @_dispatcher_cache query")
    hook = getattr(eng.cur, "mutation_hook", None)
    if hook is not None:
        hook(eng, obj, st, node)


def _list_method(eng, obj, meth, pos, s, e):
    k = obj.ty.kind
    if k == "objdict":
        if meth in ("items", "keys", "values") and not pos:
            from .engine import IterView  # noqa: F401
            return [(s, Val(Ty("iter"), eng.objdict_view(s, obj, meth)))]
        raise _oos(f"dict method {meth}")
    if k == "dictview":
        if meth == "items" and not pos:
            return [(s, Val(Ty("iter"), obj.t))]
        raise _oos(f"dict method {meth} on a comprehension result")
    if k == "cachedict":
        if meth != "get" or len(pos) != 1 or pos[0].ty.kind != "str" or not isinstance(pos[0].t, str):
            raise _oos("cache access other than _cache.get(<constant method name>)")
        key = pos[0].t
        if key not in eng.cache_keys():
            raise _oos(f"cache key {key!r} is not a @_dispatcher_cache method name")
        has = s.heap.get(f"$cache_has:{key}", obj.t) != 0
        val = s.heap.get(f"$cache_val:{key}", obj.t)
        return [(s, Val(Ty("cacheval", key), (has, val)))]
    if k == "set":
        if meth == "add":
            return [(s, VNONE)] if _set_update(s, e, obj, z3.Store(obj.t, to_int(pos[0]), z3.BoolVal(True)), eng) else []
        if meth == "update":
            lst = pos[0]
            view = eng.as_view(lst, s)
            x = fresh("x")
            qv = fresh("q")
            n_arr = fresh("set", z3.ArraySort(I, B))
            item = to_int(view.get(s.heap, qv))
            s.assume(forall([x], z3.Select(n_arr, x) == z3.Or(z3.Select(obj.t, x),
                                                                  z3.Exists([qv], z3.And(qv >= 0, qv < view.n, item == x))),
                               patterns=[z3.Select(n_arr, x)]))
            _set_update(s, e, obj, n_arr, eng)
            return [(s, VNONE)]
        raise _oos(f"set method {meth}")
    h = s.heap
    l = obj
    n = h.len(l)
    if meth == "append":
        _check_borrowed(eng, obj, s, e)
        v = eng.box(s, pos[0])
        h = s.heap
        eng.check_region(obj, v, e)
        h2 = h.set_at(l, n, to_int(v), v.aux if v.ty.kind == "xint" else None).set_len(l, n + 1)
        s.heap = h2
        return [(s, VNONE)]
    if meth == "extend":
        _check_borrowed(eng, obj, s, e)
        src = pos[0]
        if src.ty.kind == "gen":
            g, genv = src.t
            saved = s.env
            s.env = dict(genv)
            try:
                cur, q, raising = eval_generators(eng, g.generators, g.elt, s)
            finally:
                s.env = saved
            out = [(r, None) for r in raising]
            if cur is None:
                return out
            if len(q.vars) != 1 or len(q.guard) != 1:
                raise _oos("extend with a filtered generator")
            m = q.views[0].n
            v = q.vars[0]
            elem = to_int(q.elem)
            getter = lambda t: z3.substitute(elem, (v, t))
            s = cur
            h = s.heap
            n = h.len(l)
        else:
            view = eng.as_view(src, s)
            m = view.n
            getter = lambda t, view=view, h=h: to_int(view.get(h, t))
            out = []
        El = fresh("El_ext", z3.ArraySort(I, I))
        qv = fresh("q")
        old = h.elarr(l)
        s.heap = h.set_len(l, n + m).set_elarr(l, El)
        s.assume(forall([qv], z3.Implies(z3.And(qv >= 0, qv < n), z3.Select(El, qv) == z3.Select(old, qv)),
                           patterns=[z3.Select(El, qv)]))
        # indexed by the absolute position (a pattern must not contain arithmetic on the bound variable)
        s.assume(forall([qv], z3.Implies(z3.And(qv >= n, qv < n + m), z3.Select(El, qv) == getter(qv - n)),
                           patterns=[z3.Select(El, qv)]))
        out.append((s, VNONE))
        return out
    if meth == "pop" and not pos:
        _check_borrowed(eng, obj, s, e)
        okst, bad = eng.split(s, n > 0, "IndexError", e)
        out = [(b, None) for b in bad]
        if okst is not None:
            v = from_int(obj.ty.arg, okst.heap.at(l, n - 1))
            okst.heap = okst.heap.set_len(l, n - 1)
            out.append((okst, v))
        return out
    if meth == "popleft":
        _check_borrowed(eng, obj, s, e)
        okst, bad = eng.split(s, n > 0, "IndexError", e)
        out = [(b, None) for b in bad]
        if okst is not None:
            hh = okst.heap
            v = from_int(obj.ty.arg, hh.at(l, 0))
            El = fresh("El_pl", z3.ArraySort(I, I))
            qv = fresh("q")
            old = hh.elarr(l)
            okst.heap = hh.set_len(l, n - 1).set_elarr(l, El)
            okst.assume(forall([qv], z3.Implies(z3.And(qv >= 0, qv < n - 1),
                                                   z3.Select(El, qv) == z3.Select(old, qv + 1)),
                                  patterns=[z3.Select(El, qv)]))
            out.append((okst, v))
        return out
    if meth == "remove":
        _check_borrowed(eng, obj, s, e)
        x = to_int(pos[0])
        w = fresh("rm")
        qv = fresh("q")
        present = z3.Exists([qv], z3.And(qv >= 0, qv < n, h.at(l, qv) == x))
        okst, bad = eng.split(s, present, "ValueError", e)
        out = [(b, None) for b in bad]
        if okst is not None:
            hh = okst.heap
            old = hh.elarr(l)
            okst.assume(z3.And(w >= 0, w < n, z3.Select(old, w) == x))
            okst.assume(forall([qv], z3.Implies(z3.And(qv >= 0, qv < w), z3.Select(old, qv) != x)))
            El = fresh("El_rm", z3.ArraySort(I, I))
            okst.heap = hh.set_len(l, n - 1).set_elarr(l, El)
            okst.assume(forall([qv], z3.Implies(z3.And(qv >= 0, qv < n - 1),
                                                   z3.Select(El, qv) == z3.If(qv < w, z3.Select(old, qv),
                                                                              z3.Select(old, qv + 1))),
                                  patterns=[z3.Select(El, qv)]))
            okst.aux['last_removed_index'] = w
            out.append((okst, VNONE))
        return out
    if meth == "copy":
        r = eng.new_list(s, obj.ty.arg)
        hh = s.heap
        s.heap = hh.set_len(r, n).set_elarr(r, hh.elarr(l), hh.elxarr(l))
        return [(s, r)]
    if meth == "index":
        x = to_int(pos[0])
        qv = fresh("q")
        present = z3.Exists([qv], z3.And(qv >= 0, qv < n, h.at(l, qv) == x))
        okst, bad = eng.split(s, present, "ValueError", e)
        out = [(b, None) for b in bad]
        if okst is not None:
            w = fresh("ix")
            okst.assume(z3.And(w >= 0, w < n, h.at(l, w) == x))
            okst.assume(forall([qv], z3.Implies(z3.And(qv >= 0, qv < w), h.at(l, qv) != x)))
            out.append((okst, vint(w)))
        return out
    raise _oos(f"list method {meth}")


def _set_update(st, e, obj, new_arr, eng):
    """Sets are local values: rebind the variable the method was called on."""
    f = e.func
    if isinstance(f, ast.Attribute) and isinstance(f.value, ast.Name):
        st.env[f.value.id] = Val(obj.ty, new_arr)
        return True
    raise _oos("set mutation through a non-local")
