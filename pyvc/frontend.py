"""Reads the real source of /repo on every run and indexes classes and functions.

Nothing is imported or executed: files are parsed with ``ast``.  What is dropped is
recorded by ``dropped_summary`` (docstrings, annotations-as-hints, __repr__/__str__,
``if __name__ == '__main__'`` blocks, raise-message expressions).
"""
from __future__ import annotations

import ast
import hashlib
import os

REPO = os.environ.get("PYVC_REPO", "/repo")


class FuncInfo:
    def __init__(self, qualname, node, file, cls=None, kind="function"):
        self.qualname = qualname
        self.node = node
        self.file = file
        self.cls = cls
        self.kind = kind  # function | method | staticmethod | classmethod | property | setter | cached_property
        self.decorators = [ast.unparse(d) for d in node.decorator_list]

    @property
    def line(self):
        return self.node.lineno

    def source_hash(self):
        return hashlib.sha256(ast.dump(self.node).encode()).hexdigest()[:16]

    def body(self):
        """Body without the docstring."""
        b = self.node.body
        if (
            b
            and isinstance(b[0], ast.Expr)
            and isinstance(b[0].value, ast.Constant)
            and isinstance(b[0].value.value, str)
        ):
            return b[1:]
        return b


class ClassInfo:
    def __init__(self, name, node, file):
        self.name = name
        self.node = node
        self.file = file
        self.bases = [ast.unparse(b) for b in node.bases]
        self.methods: dict[str, FuncInfo] = {}
        self.properties: dict[str, FuncInfo] = {}
        self.setters: dict[str, FuncInfo] = {}
        self.class_attrs: dict[str, ast.expr] = {}
        self.slots: list[str] | None = None


class Program:
    def __init__(self, repo=REPO):
        self.repo = repo
        self.classes: dict[str, ClassInfo] = {}
        self.functions: dict[str, FuncInfo] = {}  # module-level, by bare name and by file::name
        self.files: dict[str, ast.Module] = {}
        self.sources: dict[str, str] = {}
        self.module_consts: dict[str, dict[str, ast.expr]] = {}  # file -> NAME = <constant expression>

    def load(self, relpath):
        if relpath in self.files:
            return self.files[relpath]
        path = os.path.join(self.repo, relpath)
        with open(path, encoding="utf-8") as f:
            src = f.read()
        tree = ast.parse(src, filename=path)
        self.files[relpath] = tree
        self.sources[relpath] = src
        self._index(tree, relpath)
        return tree

    def load_abs(self, path, relname=None):
        """sidecar source (most-general-client harnesses, ghost lemmas) verified with the
        same engine; lives under /verif, not in the repository"""
        relname = relname or ("verif:" + os.path.basename(path))
        if relname in self.files:
            return self.files[relname]
        with open(path, encoding="utf-8") as f:
            src = f.read()
        tree = ast.parse(src, filename=path)
        self.files[relname] = tree
        self.sources[relname] = src
        self._index(tree, relname)
        return tree

    def _index(self, tree, relpath):
        for node in tree.body:
            if isinstance(node, ast.Assign) and len(node.targets) == 1 and isinstance(node.targets[0], ast.Name) \
                    and isinstance(node.value, ast.Constant) and isinstance(node.value.value, (int, bool)):
                self.module_consts.setdefault(relpath, {})[node.targets[0].id] = node.value
            if isinstance(node, ast.FunctionDef):
                fi = FuncInfo(node.name, node, relpath)
                self.functions[node.name] = fi
                self.functions[f"{relpath}::{node.name}"] = fi
                # nested closures get dotted names: outer.<inner>
                for sub in ast.walk(node):
                    if isinstance(sub, ast.FunctionDef) and sub is not node:
                        q = f"{node.name}.{sub.name}"
                        self.functions[q] = FuncInfo(q, sub, relpath)
            elif isinstance(node, ast.ClassDef):
                ci = ClassInfo(node.name, node, relpath)
                self.classes[node.name] = ci
                for item in node.body:
                    if isinstance(item, ast.FunctionDef):
                        decs = [ast.unparse(d) for d in item.decorator_list]
                        q = f"{node.name}.{item.name}"
                        if "property" in decs:
                            ci.properties[item.name] = FuncInfo(q, item, relpath, node.name, "property")
                        elif any(d.endswith("cached_property") for d in decs):
                            ci.properties[item.name] = FuncInfo(
                                q, item, relpath, node.name, "cached_property"
                            )
                        elif any(d.endswith(".setter") for d in decs):
                            ci.setters[item.name] = FuncInfo(
                                q + ".setter", item, relpath, node.name, "setter"
                            )
                        elif "staticmethod" in decs:
                            ci.methods[item.name] = FuncInfo(q, item, relpath, node.name, "staticmethod")
                        elif "classmethod" in decs:
                            ci.methods[item.name] = FuncInfo(q, item, relpath, node.name, "classmethod")
                        else:
                            ci.methods[item.name] = FuncInfo(q, item, relpath, node.name, "method")
                    elif isinstance(item, ast.Assign) and len(item.targets) == 1:
                        t = item.targets[0]
                        if isinstance(t, ast.Name):
                            if t.id == "__slots__":
                                ci.slots = _slot_names(item.value)
                            else:
                                ci.class_attrs[t.id] = item.value

    # ------------------------------------------------------------------
    def mro(self, cls):
        """Linearised bases among the classes we have parsed (single inheritance is
        all the anchored code uses)."""
        out = []
        todo = [cls]
        while todo:
            c = todo.pop(0)
            if c in out:
                continue
            out.append(c)
            ci = self.classes.get(c)
            if ci:
                for b in ci.bases:
                    b = b.split(".")[-1]
                    todo.append(b)
        return out

    def is_subclass(self, a, b):
        return b in self.mro(a)

    def find_method(self, cls, name):
        for c in self.mro(cls):
            ci = self.classes.get(c)
            if ci and name in ci.methods:
                return ci.methods[name]
        return None

    def find_property(self, cls, name):
        for c in self.mro(cls):
            ci = self.classes.get(c)
            if ci and name in ci.properties:
                return ci.properties[name]
        return None

    def find_setter(self, cls, name):
        for c in self.mro(cls):
            ci = self.classes.get(c)
            if ci and name in ci.setters:
                return ci.setters[name]
        return None

    def find_class_attr(self, cls, name):
        for c in self.mro(cls):
            ci = self.classes.get(c)
            if ci and name in ci.class_attrs:
                return ci.class_attrs[name]
        return None

    def lookup(self, qualname) -> FuncInfo | None:
        """'Class.method', 'Class.prop', 'Class.prop.setter', 'function',
        'outer.inner' (closure)."""
        if qualname in self.functions:
            return self.functions[qualname]
        parts = qualname.split(".")
        if parts[0] in self.classes:
            ci = self.classes[parts[0]]
            if len(parts) == 3 and parts[2] == "setter":
                return ci.setters.get(parts[1])
            if len(parts) == 2:
                return ci.methods.get(parts[1]) or ci.properties.get(parts[1])
        return None


def _slot_names(node):
    if isinstance(node, ast.Dict):
        return [k.value for k in node.keys if isinstance(k, ast.Constant)]
    if isinstance(node, (ast.Tuple, ast.List)):
        return [e.value for e in node.elts if isinstance(e, ast.Constant)]
    return None


CORE_FILES = [
    "job_shop_lib/_operation.py",
    "job_shop_lib/_scheduled_operation.py",
    "job_shop_lib/_schedule.py",
    "job_shop_lib/_job_shop_instance.py",
    "job_shop_lib/_base_solver.py",
    "job_shop_lib/exceptions.py",
    "job_shop_lib/dispatching/_dispatcher.py",
    "job_shop_lib/dispatching/_history_observer.py",
    "job_shop_lib/dispatching/_unscheduled_operations_observer.py",
    "job_shop_lib/dispatching/_ready_operation_filters.py",
    "job_shop_lib/dispatching/_factories.py",
    "job_shop_lib/dispatching/rules/_dispatching_rule_solver.py",
    "job_shop_lib/dispatching/rules/_dispatching_rules_functions.py",
    "job_shop_lib/dispatching/rules/_dispatching_rule_factory.py",
    "job_shop_lib/dispatching/rules/_machine_chooser_factory.py",
    "job_shop_lib/reinforcement_learning/_reward_observers.py",
    "job_shop_lib/generation/_instance_generator.py",
    "job_shop_lib/generation/_general_instance_generator.py",
    "job_shop_lib/visualization/_plot_gantt_chart.py",
    "job_shop_lib/constraint_programming/_ortools_solver.py",
    "job_shop_lib/graphs/_constants.py",
    "job_shop_lib/graphs/_node.py",
    "job_shop_lib/graphs/_job_shop_graph.py",
    "job_shop_lib/graphs/_build_disjunctive_graph.py",
    "job_shop_lib/graphs/_build_agent_task_graph.py",
    "job_shop_lib/graphs/graph_updaters/_utils.py",
    "job_shop_lib/reinforcement_learning/_single_job_shop_graph_env.py",
    "job_shop_lib/dispatching/feature_observers/_feature_observer.py",
    "job_shop_lib/dispatching/feature_observers/_position_in_job_observer.py",
    "job_shop_lib/dispatching/feature_observers/_remaining_operations_observer.py",
]


def load_program(files=None, repo=None) -> Program:
    p = Program(repo or os.environ.get("PYVC_REPO", "/repo"))
    for f in files or CORE_FILES:
        if os.path.exists(os.path.join(p.repo, f)):
            p.load(f)
    return p
